(* C17 - Monotone rules stay monotone: more support or more seats never hurts.
   Property theorems only.  Models: Model/HighestAverages.v (the loop of
   HighestAverages.evaluate), Prelude/GDict.v + Model/Convert.v (additive converters),
   Model/GetNBest.v, Model/Condorcet.v, Model/Bucklin.v (PreferenceAddition.evaluate); proofs: Proofs/Mono_proofs.v,
   Proofs/Additive_proofs.v, Proofs/HA_proofs.v, Proofs/CopelandMono_proofs.v, Proofs/Minimax_proofs.v, Proofs/Bucklin_proofs.v,
   Proofs/BucklinShared_proofs.v, Proofs/BucklinLeave_proofs.v (changed ballots with shared ranks), Proofs/RaisesBallot_proofs.v (one moved
   ballot -> pairwise counts, Model/Hybrids.v pairwise), Proofs/Scorers_proofs.v (rank scorers).

   [tot_s (final_state d votes n prev caps) c] is the number of seats party c holds for certain when
   the loop stops (previous gains + seats awarded; seats of a reported tie are not included). *)
From Coq Require Import ZArith QArith List Bool Lia.
From VL Require Import Prelude.Sx Prelude.PyDict Prelude.GDict Model.GetNBest Model.Divisor Model.HighestAverages
     Model.Convert Model.Condorcet Model.Bucklin
     Proofs.Dict_proofs Proofs.HA_proofs Proofs.Divisor_proofs Proofs.Mono_proofs Proofs.Additive_proofs
     Proofs.Convert_proofs Proofs.CopelandMono_proofs Proofs.Minimax_proofs Proofs.Condorcet_proofs Proofs.Schulze_proofs Proofs.Bucklin_proofs
     Proofs.BucklinShared_proofs Proofs.BucklinLeave_proofs.
From VL Require Model.Hybrids Proofs.Hybrids_proofs.
From VL Require Import Proofs.RaisesBallot_proofs Proofs.Scorers_proofs.
From VL Require Import Proofs.HouseTie_proofs Proofs.VotesFull_proofs.
From VL Require Model.Quota Model.QuotaDistributor.
From VL Require Proofs.PositionalShared_proofs Proofs.RaisesAdded_proofs Proofs.LRMono_proofs.
Import ListNotations.
Open Scope Z_scope.

(* House monotonicity: for EVERY divisor function, vote vector, cap map and non-negative previous
   gains, adding a seat to the house never costs any party a seat (no Alabama paradox).
   No tie-freeness is assumed: seats held for certain are compared. *)
Theorem C17_house : forall (d : Z -> Q) (votes : list (C * Q)) (caps prev : list (C * Z)) (n : Z),
  Forall (fun cv => 0 <= snd cv) prev ->
  forall c, tot_s (final_state d votes n prev caps) c <= tot_s (final_state d votes (n + 1) prev caps) c.
Proof. intros d votes caps prev n. exact (house_monotone d votes caps n prev). Qed.

(* by induction: any larger house *)
Theorem C17_house_any : forall (d : Z -> Q) (votes : list (C * Q)) (caps prev : list (C * Z)) (n : Z) (k : nat),
  Forall (fun cv => 0 <= snd cv) prev ->
  forall c, tot_s (final_state d votes n prev caps) c <= tot_s (final_state d votes (n + Z.of_nat k) prev caps) c.
Proof.
  intros d votes caps prev n k Hp c. induction k as [|k IH].
  - rewrite Z.add_0_r. apply Z.le_refl.
  - replace (n + Z.of_nat (S k)) with (n + Z.of_nat k + 1) by (rewrite Nat2Z.inj_succ; ring).
    eapply Z.le_trans; [exact IH|]. apply (house_monotone d votes caps (n + Z.of_nat k) prev Hp).
Qed.

(* Vote monotonicity: a strictly increasing positive divisor (all five built-ins), positive votes;
   votes' = votes except that party p has at least as many votes.  If the second run hands out all
   seats without reporting a tie, p holds at least as many seats as before. *)
Theorem C17_votes : forall (d : Z -> Q) (votes votes' : list (C * Q)) (caps prev : list (C * Z)) (n : Z)
    (p : C) (vp vp' : Q),
  (forall k, 0 <= k -> (0 < d k)%Q) -> divisor_strict d ->
  (forall c v, In (c, v) votes -> (0 < v)%Q) -> (forall c v, In (c, v) votes' -> (0 < v)%Q) ->
  NoDup (map fst votes) -> NoDup (map fst votes') -> (forall c, 0 <= dget_or prev c 0) ->
  dget votes p = Some vp -> dget votes' p = Some vp' -> (vp <= vp')%Q ->
  (forall c, c <> p -> dget votes' c = dget votes c) ->
  st_tie (final_state d votes' n prev caps) = None -> st_rem (final_state d votes' n prev caps) <= 0 ->
  tot (final_state d votes n prev caps) p <= tot (final_state d votes' n prev caps) p.
Proof.
  intros d votes votes' caps prev n p vp vp' Hpos Hstrict Hv Hv' Hnd Hnd' Hprev Hp Hp' Hle Hoth.
  exact (votes_monotone d votes votes' caps prev n Hpos Hstrict Hv Hv' Hnd Hnd' Hprev p vp vp' Hp Hp' Hle Hoth).
Qed.

Theorem C17_builtin_strict : divisor_strict d_hondt /\ divisor_strict sainte_lague /\ divisor_strict imperiali /\
  divisor_strict danish /\ divisor_strict macau.
Proof.
  repeat split; [apply d_hondt_ok|apply sainte_lague_ok|apply imperiali_ok|apply danish_ok|apply macau_ok].
Qed.

(* Additive rules (plurality, positional, approval, score-sum: every converter of the fold shape
   [dconv image] followed by get_n_best): replacing ONE ballot b by b' whose image names no new
   candidate except possibly the winner, gives the winner at least as much and everybody else at
   most as much, keeps a sole winner the sole winner.  Any image, any profile, any position. *)
Theorem C17_additive : forall (B : Type) (image : B -> list (sx * Q)) pre post (b b' : B) (w : Q) (kw : sx),
  (0 <= w)%Q ->
  (forall k, In k (map fst (image b')) -> k = kw \/ In k (map fst (image b))) ->
  In kw (map fst (image b')) ->
  (coef sx_eqb (image b) kw <= coef sx_eqb (image b') kw)%Q ->
  (forall k, k <> kw -> (coef sx_eqb (image b') k <= coef sx_eqb (image b) k)%Q) ->
  get_n_best Qle_bool (dconv image (pre ++ (b, w) :: post)) 1 = [Cand kw] ->
  get_n_best Qle_bool (dconv image (pre ++ (b', w) :: post)) 1 = [Cand kw].
Proof. intros B image. exact (additive_sole_winner sx_eqb sx_eqb_spec image). Qed.

(* instance: approval voting - approving the winner on one more ballot *)
Corollary C17_approval : forall pre post (b : list C) (w : Q) (c : C),
  (0 <= w)%Q -> ~ In c b ->
  get_n_best Qle_bool (dconv (img_approval_simple false) (pre ++ (b, w) :: post)) 1 = [Cand (kc c)] ->
  get_n_best Qle_bool (dconv (img_approval_simple false) (pre ++ (c :: b, w) :: post)) 1 = [Cand (kc c)].
Proof. exact approval_instance. Qed.

(* instance: plurality - the winner takes over the first place of a ballot *)
Corollary C17_plurality : forall pre post (x c : C) (rest : ranked) (w : Q),
  (0 <= w)%Q -> x <> c ->
  get_n_best Qle_bool (dconv img_first (pre ++ (IP x :: IP c :: rest, w) :: post)) 1 = [Cand (kc c)] ->
  get_n_best Qle_bool (dconv img_first (pre ++ (IP c :: IP x :: rest, w) :: post)) 1 = [Cand (kc c)].
Proof. exact plurality_instance. Qed.

(* instance: positional (Borda-type) rules - the winner moves one place up on a ballot of plain ranks; holds for
   every rank scorer whose score at the higher of the two places is at least the score at the lower one *)
Corollary C17_positional : forall (s : Convert.scorer) (n_cands : nat) pre_b post_b (pre post : list C) (x c : C) (w : Q)
    (s_pre s_post : list Q) (a b : Q),
  (0 <= w)%Q -> x <> c ->
  rank_scores s n_cands (length (pre ++ x :: c :: post)) = Some (s_pre ++ a :: b :: s_post) ->
  length s_pre = length pre -> (b <= a)%Q ->
  get_n_best Qle_bool (dconv (pos_img s n_cands) (pre_b ++ (plain_ballot (pre ++ x :: c :: post), w) :: post_b)) 1 = [Cand (kc c)] ->
  get_n_best Qle_bool (dconv (pos_img s n_cands) (pre_b ++ (plain_ballot (pre ++ c :: x :: post), w) :: post_b)) 1 = [Cand (kc c)].
Proof. exact positional_instance. Qed.

(* the score hypothesis holds at every pair of adjacent places for the Dowdall, modified Borda and fixed-top scorers *)
Theorem C17_scorers_nonincreasing : forall n_cands k s_pre a b s_post,
  (rank_scores Dowdall n_cands k = Some (s_pre ++ a :: b :: s_post) -> (b <= a)%Q) /\
  (rank_scores ModifiedBorda n_cands k = Some (s_pre ++ a :: b :: s_post) -> (b <= a)%Q) /\
  (forall top, rank_scores (FixedTop top) n_cands k = Some (s_pre ++ a :: b :: s_post) -> (b <= a)%Q).
Proof.
  intros. split; [apply dowdall_nonincreasing|]. split; [apply modified_borda_nonincreasing|].
  intros top. apply fixed_top_nonincreasing.
Qed.

(* ... and for the remaining scorers (Proofs/Scorers_proofs.v): Borda with any base (the list is never padded: more ranks than
   candidates is the ValueError), Geometric with base >= 1, SequenceBased with a sequence that is non-increasing and ends
   non-negative ([noninc0]: the list is padded with zeros, so a negative last score would be followed by a larger one) *)
Theorem C17_scorers_nonincreasing_all : forall n_cands k s_pre a b s_post,
  (forall base, rank_scores (Borda base) n_cands k = Some (s_pre ++ a :: b :: s_post) -> (b <= a)%Q) /\
  (forall base, 1 <= base -> rank_scores (Geometric base) n_cands k = Some (s_pre ++ a :: b :: s_post) -> (b <= a)%Q) /\
  (forall sq, noninc0 sq = true -> rank_scores (SequenceBased sq) n_cands k = Some (s_pre ++ a :: b :: s_post) -> (b <= a)%Q).
Proof.
  intros. split; [intros base; apply borda_nonincreasing|]. split; [intros base; apply geometric_nonincreasing|].
  intros sq. apply sequence_nonincreasing.
Qed.

(* one decidable condition on the scorer object: every scorer satisfying it is non-increasing along every ballot *)
Definition scorer_ok (s : Convert.scorer) : bool :=
  match s with Geometric base => 1 <=? base | SequenceBased sq => noninc0 sq | _ => true end.

Theorem C17_scorer_ok : forall s n_cands, scorer_ok s = true -> scorer_nonincreasing s n_cands.
Proof.
  intros s n_cands H k s_pre a b s_post. destruct s; cbn [scorer_ok] in H.
  - apply borda_nonincreasing.
  - apply dowdall_nonincreasing.
  - apply geometric_nonincreasing. apply Z.leb_le, H.
  - apply modified_borda_nonincreasing.
  - apply fixed_top_nonincreasing.
  - apply sequence_nonincreasing, H.
Qed.

(* the same inequalities on the per-rank score expressions GENERATED from votelib/component/rankscore.py: Props/GenTie_Rankscore_mono.v
   (C17_gen_scorers_nonincreasing), an obligation of this property while the translator accepts the source *)

(* positional rules, the winner moves up past ANY number of places on a ballot of plain ranks, any scorer with [scorer_ok]
   (the ballot is not longer than the number of candidates: [rank_scores] answers) *)
Theorem C17_positional_any : forall (s : Convert.scorer) (n_cands : nat) pre_b post_b (l1 l2 l3 : list C) (w : C) (wgt : Q) (sc : list Q),
  (0 <= wgt)%Q -> ~ In w l2 -> scorer_ok s = true ->
  rank_scores s n_cands (length l1 + length l2 + S (length l3)) = Some sc ->
  get_n_best Qle_bool (dconv (pos_img s n_cands) (pre_b ++ (plain_ballot (l1 ++ l2 ++ w :: l3), wgt) :: post_b)) 1 = [Cand (kc w)] ->
  get_n_best Qle_bool (dconv (pos_img s n_cands) (pre_b ++ (plain_ballot (l1 ++ w :: l2 ++ l3), wgt) :: post_b)) 1 = [Cand (kc w)].
Proof.
  intros s n_cands pre_b post_b l1 l2 l3 w wgt sc Hw Hnin Hok Hsc.
  exact (positional_move_up s n_cands pre_b post_b l1 l2 w wgt sc Hw Hnin (C17_scorer_ok s n_cands Hok) l3 Hsc).
Qed.

(* the conditions are needed: Geometric(-2) gives 1, -1/2, 1/4; SequenceBased([1, -1]) gives 1, -1, 0 (padding); and with the
   increasing sequence [0, 1] the sole winner B of {(A,B): 1} loses to A when it moves up to (B,A) *)
Theorem C17_scorers_conditions_needed :
  rank_scores (Geometric (-2)) 3 3 = Some ([1] ++ (- (1 # 2)) :: (1 # 4) :: [])%Q /\
  rank_scores (SequenceBased [1; -(1)]%Q) 3 3 = Some ([1] ++ (-(1)) :: 0 :: [])%Q /\
  get_n_best Qle_bool (dconv (pos_img (SequenceBased [0; 1]%Q) 2) ([] ++ (plain_ballot ([] ++ [1%positive] ++ 2%positive :: []), 1%Q) :: [])) 1 = [Cand (kc 2%positive)] /\
  get_n_best Qle_bool (dconv (pos_img (SequenceBased [0; 1]%Q) 2) ([] ++ (plain_ballot ([] ++ 2%positive :: [1%positive] ++ []), 1%Q) :: [])) 1 = [Cand (kc 1%positive)].
Proof. vm_compute. repeat split; reflexivity. Qed.

(* non-vacuity: Borda, Geometric(2) and the sequence 5,3,3,1 satisfy the condition, [1, -1] and Geometric(-2) do not; 4 candidates,
   {(B,A,C,D): 2, (D,C,B): 1} under Borda: B = 2 is the sole winner and moves from the third to the first place of the second ballot *)
Example C17_positional_example :
  scorer_ok (Borda 1) = true /\ scorer_ok (Geometric 2) = true /\ scorer_ok (SequenceBased [5; 3; 3; 1]%Q) = true /\
  scorer_ok (SequenceBased [1; -(1)]%Q) = false /\ scorer_ok (Geometric (-2)) = false /\
  let pre_b := [(plain_ballot [2; 1; 3; 4]%positive, 2%Q)] in
  get_n_best Qle_bool (dconv (pos_img (Borda 1) 4) (pre_b ++ (plain_ballot ([] ++ [4; 3]%positive ++ 2%positive :: []), 1%Q) :: [])) 1 = [Cand (kc 2%positive)] /\
  get_n_best Qle_bool (dconv (pos_img (Borda 1) 4) (pre_b ++ (plain_ballot ([] ++ 2%positive :: [4; 3]%positive ++ []), 1%Q) :: [])) 1 = [Cand (kc 2%positive)].
Proof. vm_compute. repeat split; reflexivity. Qed.

(* Copeland: if the pairwise counts change only in favour of w ([raises v v' w], Proofs/CopelandMono_proofs.v:
   same candidates, w's counts against the others do not drop, theirs against w do not rise, contests among the
   others untouched - what moving w upwards on a ballot, or adding a bullet vote for w, does), a sole winner by
   Copeland scores stays the sole winner, with or without second-order tie-breaking afterwards *)
Theorem C17_copeland : forall (v v' : pvotes) (w : C) (so : bool),
  NoDup (map fst v) -> NoDup (map fst v') ->
  (forall p n, In (p, n) v -> 0 <= n) -> (forall p n, In (p, n) v' -> 0 <= n) ->
  raises v v' w ->
  copeland false v 1 = [Cand w] -> copeland so v' 1 = [Cand w].
Proof.
  intros v v' w so Hnd Hnd' Hnn Hnn' Hr H. rewrite copeland_raw_is_first_order in H.
  exact (copeland_monotone v v' w Hnd Hnd' Hnn Hnn' Hr so H).
Qed.

(* minimax (all three pairwise win scorers): under the same relation a sole minimax winner stays the sole winner -
   its worst defeat cannot grow, nobody else's can shrink *)
Theorem C17_minimax : forall (v v' : pvotes) (w : C) (s : Condorcet.scorer),
  (forall p n, In (p, n) v -> 0 <= n) -> (forall p n, In (p, n) v' -> 0 <= n) ->
  (2 <= length (candidates v))%nat -> raises v v' w ->
  minimax s v 1 = [Cand w] -> minimax s v' 1 = [Cand w].
Proof. intros v v' w s Hnn Hnn' H2 Hr. exact (minimax_monotone v v' w Hnn Hnn' H2 Hr s). Qed.

(* ---- from ONE moved ballot to the pairwise counts (Proofs/RaisesBallot_proofs.v), through the model of
   RankedToCondorcetVotes(unranked_at_bottom=True).convert ([Hybrids.pairwise], Model/Hybrids.v: the fold of the per-ballot image
   [img_condorcet true] of Model/Convert.v; integer weights; tied to the code by the streams rc-tie here and hybrids of C05).
   On ONE ballot (x units of it; the profile list may name a ballot twice) w moves from behind the items p2 to the place before
   them; the ballot may contain shared ranks anywhere, be truncated, the other ballots are arbitrary.  Then the dictionary changes
   EXACTLY by: count(w, c) += x * (number of times c occurs in p2), count(c, w) -= the same, every other entry unchanged
   ([jump p2 w a c] = [a = w] * #c in p2 - #a in p2 * [c = w]); and the candidates of the dictionary stay the same SET (their order of
   first appearance can change, which is why [raises] - equal candidate lists - is weakened to [raises_s]). *)
Theorem C17_ballot_pairwise_exact : forall (pre post : Hybrids.rvotes) (p1 p2 p3 : ranked) (x : Z) (w a c : C),
  pget0 (Hybrids.pairwise (pre ++ (p1 ++ IP w :: p2 ++ p3, x) :: post)) (a, c) =
  pget0 (Hybrids.pairwise (pre ++ (p1 ++ p2 ++ IP w :: p3, x) :: post)) (a, c) + x * jump p2 w a c.
Proof. intros. apply pairwise_move_exact. Qed.

Theorem C17_ballot_raises : forall (pre post : Hybrids.rvotes) (p1 p2 p3 : ranked) (x : Z) (w : C),
  0 <= x -> ~ In w (flatten p2) ->
  raises_s (Hybrids.pairwise (pre ++ (p1 ++ p2 ++ IP w :: p3, x) :: post))
           (Hybrids.pairwise (pre ++ (p1 ++ IP w :: p2 ++ p3, x) :: post)) w.
Proof. intros. apply pairwise_move_raises; assumption. Qed.

(* [raises] implies [raises_s]; Copeland and minimax monotonicity hold under the weaker relation *)
Theorem C17_copeland_s : forall (v v' : pvotes) (w : C) (so : bool),
  NoDup (map fst v) -> NoDup (map fst v') ->
  (forall p n, In (p, n) v -> 0 <= n) -> (forall p n, In (p, n) v' -> 0 <= n) ->
  raises_s v v' w ->
  copeland false v 1 = [Cand w] -> copeland so v' 1 = [Cand w].
Proof. intros v v' w so Hnd Hnd' Hnn Hnn' Hr. exact (copeland_monotone_s v v' w Hnd Hnd' Hnn Hnn' Hr so). Qed.

Theorem C17_minimax_s : forall (v v' : pvotes) (w : C) (s : Condorcet.scorer),
  (forall p n, In (p, n) v -> 0 <= n) -> (forall p n, In (p, n) v' -> 0 <= n) ->
  (2 <= length (candidates v))%nat -> raises_s v v' w ->
  minimax s v 1 = [Cand w] -> minimax s v' 1 = [Cand w].
Proof. intros v v' w s Hnn Hnn' H2 Hr. exact (minimax_monotone_s v v' w Hnn Hnn' H2 Hr s). Qed.

(* Copeland and minimax ON BALLOTS: converter followed by the evaluator.  Copeland: any ballots, weights >= 0.  Minimax: no
   candidate twice on a ballot, weights >= 0 ([wf_votes]) - this gives the dictionary two candidates. *)
Theorem C17_copeland_ballots : forall (pre post : Hybrids.rvotes) (p1 p2 p3 : ranked) (x : Z) (w : C) (so : bool),
  (forall r y, In (r, y) (pre ++ post) -> 0 <= y) -> 0 <= x -> ~ In w (flatten p2) ->
  copeland false (Hybrids.pairwise (pre ++ (p1 ++ p2 ++ IP w :: p3, x) :: post)) 1 = [Cand w] ->
  copeland so (Hybrids.pairwise (pre ++ (p1 ++ IP w :: p2 ++ p3, x) :: post)) 1 = [Cand w].
Proof. intros pre post p1 p2 p3 x w so. apply copeland_ballot_monotone. Qed.

Theorem C17_minimax_ballots : forall (pre post : Hybrids.rvotes) (p1 p2 p3 : ranked) (x : Z) (w : C) (s : Condorcet.scorer),
  Hybrids_proofs.wf_votes (pre ++ (p1 ++ p2 ++ IP w :: p3, x) :: post) = true -> ~ In w (flatten p2) ->
  minimax s (Hybrids.pairwise (pre ++ (p1 ++ p2 ++ IP w :: p3, x) :: post)) 1 = [Cand w] ->
  minimax s (Hybrids.pairwise (pre ++ (p1 ++ IP w :: p2 ++ p3, x) :: post)) 1 = [Cand w].
Proof. intros pre post p1 p2 p3 x w s. apply minimax_ballot_monotone. Qed.

(* w LEAVES a shared rank {la, w, lb} for a place of its own directly above the rest of the rank: count(w, c) rises by x for every
   member c of the rest, nothing else changes; for a well-formed profile with a non-empty dictionary the candidates stay the same set *)
Theorem C17_ballot_leave_exact : forall (pre post : Hybrids.rvotes) (q p3 : ranked) (la lb : list C) (x : Z) (w a c : C),
  pget0 (Hybrids.pairwise (pre ++ (q ++ IP w :: IS (la ++ lb) :: p3, x) :: post)) (a, c) =
  pget0 (Hybrids.pairwise (pre ++ (q ++ IS (la ++ w :: lb) :: p3, x) :: post)) (a, c) + x * (Hybrids_proofs.cnt a [w] * Hybrids_proofs.cnt c (la ++ lb)).
Proof. intros. apply pairwise_leave_exact. Qed.

Theorem C17_ballot_leave_raises : forall (pre post : Hybrids.rvotes) (q p3 : ranked) (la lb : list C) (x : Z) (w : C),
  Hybrids_proofs.wf_votes (pre ++ (q ++ IS (la ++ w :: lb) :: p3, x) :: post) = true ->
  Hybrids.pairwise (pre ++ (q ++ IS (la ++ w :: lb) :: p3, x) :: post) <> [] ->
  raises_s (Hybrids.pairwise (pre ++ (q ++ IS (la ++ w :: lb) :: p3, x) :: post))
           (Hybrids.pairwise (pre ++ (q ++ IP w :: IS (la ++ lb) :: p3, x) :: post)) w.
Proof. intros. apply pairwise_leave_raises; assumption. Qed.

(* Copeland and minimax on ballots, the winner leaves a shared rank and moves further up past the items p2 *)
Theorem C17_copeland_ballots_leave : forall (pre post : Hybrids.rvotes) (p1 p2 p3 : ranked) (la lb : list C) (x : Z) (w : C) (so : bool),
  Hybrids_proofs.wf_votes (pre ++ (p1 ++ p2 ++ IS (la ++ w :: lb) :: p3, x) :: post) = true -> ~ In w (flatten p2) ->
  copeland false (Hybrids.pairwise (pre ++ (p1 ++ p2 ++ IS (la ++ w :: lb) :: p3, x) :: post)) 1 = [Cand w] ->
  copeland so (Hybrids.pairwise (pre ++ (p1 ++ IP w :: p2 ++ IS (la ++ lb) :: p3, x) :: post)) 1 = [Cand w].
Proof.
  intros pre post p1 p2 p3 la lb x w so Hwf Hp2 H. rewrite app_assoc in Hwf, H.
  pose proof (copeland_ballot_leave pre post (p1 ++ p2) p3 la lb x w false Hwf H) as H1.
  pose proof (wf_leave pre post (p1 ++ p2) p3 la lb x w Hwf) as Hwf1. rewrite <- app_assoc in H1, Hwf1.
  apply (copeland_ballot_monotone pre post p1 p2 (IS (la ++ lb) :: p3) x w so); [| |exact Hp2|exact H1].
  - intros r y Hin. apply (proj1 (Hybrids_proofs.wf_votes_spec _) Hwf1 r y). apply in_app_iff in Hin. apply in_app_iff.
    destruct Hin as [Hin|Hin]; [left; exact Hin|right; right; exact Hin].
  - apply (proj1 (Hybrids_proofs.wf_votes_spec _) Hwf1 (p1 ++ p2 ++ IP w :: IS (la ++ lb) :: p3) x). apply in_app_iff. right. left. reflexivity.
Qed.

Theorem C17_minimax_ballots_leave : forall (pre post : Hybrids.rvotes) (p1 p2 p3 : ranked) (la lb : list C) (x : Z) (w : C) (s : Condorcet.scorer),
  Hybrids_proofs.wf_votes (pre ++ (p1 ++ p2 ++ IS (la ++ w :: lb) :: p3, x) :: post) = true -> ~ In w (flatten p2) ->
  minimax s (Hybrids.pairwise (pre ++ (p1 ++ p2 ++ IS (la ++ w :: lb) :: p3, x) :: post)) 1 = [Cand w] ->
  minimax s (Hybrids.pairwise (pre ++ (p1 ++ IP w :: p2 ++ IS (la ++ lb) :: p3, x) :: post)) 1 = [Cand w].
Proof.
  intros pre post p1 p2 p3 la lb x w s Hwf Hp2 H. rewrite app_assoc in Hwf, H.
  pose proof (minimax_ballot_leave pre post (p1 ++ p2) p3 la lb x w s Hwf H) as H1.
  pose proof (wf_leave pre post (p1 ++ p2) p3 la lb x w Hwf) as Hwf1. rewrite <- app_assoc in H1, Hwf1.
  exact (minimax_ballot_monotone pre post p1 p2 (IS (la ++ lb) :: p3) x w s Hwf1 Hp2 H1).
Qed.

(* the candidate ORDER of the dictionary does change: (A,B,C) -> (A,C,B) lists the candidates A,B,C resp. A,C,B - so [raises]
   itself does not hold between the two dictionaries, [raises_s] does *)
Example C17_ballot_raises_order :
  let v := Hybrids.pairwise ([] ++ ([IP 1%positive] ++ [IP 2%positive] ++ IP 3%positive :: [], 1) :: []) in
  let v' := Hybrids.pairwise ([] ++ ([IP 1%positive] ++ IP 3%positive :: [IP 2%positive] ++ [], 1) :: []) in
  candidates v = [1; 2; 3]%positive /\ candidates v' = [1; 3; 2]%positive /\ ~ raises v v' 3%positive /\ raises_s v v' 3%positive.
Proof.
  cbv zeta. split; [vm_compute; reflexivity|]. split; [vm_compute; reflexivity|]. split.
  - intros (H & _). vm_compute in H. discriminate H.
  - apply pairwise_move_raises; [lia|]. cbn. intros [H|[]]. discriminate H.
Qed.

(* non-vacuity: {(A,{B,C},D): 2, (D,A): 1, (B,D): 1} (a shared rank, truncated ballots): A = 1 is the sole minimax and Copeland
   winner; on the second ballot it moves up, (D,A) -> (A,D); count(D, A) drops from 2 to 1 *)
Example C17_ballots_example :
  let pre := [([IP 1; IS [2; 3]; IP 4]%positive, 2)] in let post := [([IP 2; IP 4]%positive, 1)] in
  Hybrids_proofs.wf_votes (pre ++ ([] ++ [IP 4%positive] ++ IP 1%positive :: [], 1) :: post) = true /\
  minimax Margins (Hybrids.pairwise (pre ++ ([] ++ [IP 4%positive] ++ IP 1%positive :: [], 1) :: post)) 1 = [Cand 1%positive] /\
  copeland false (Hybrids.pairwise (pre ++ ([] ++ [IP 4%positive] ++ IP 1%positive :: [], 1) :: post)) 1 = [Cand 1%positive] /\
  pget0 (Hybrids.pairwise (pre ++ ([] ++ [IP 4%positive] ++ IP 1%positive :: [], 1) :: post)) (4, 1)%positive = 2 /\
  pget0 (Hybrids.pairwise (pre ++ ([] ++ IP 1%positive :: [IP 4%positive] ++ [], 1) :: post)) (4, 1)%positive = 1.
Proof. vm_compute. repeat split; reflexivity. Qed.

(* Schulze.  votelib ranks the candidates by their NUMBER OF PATH-WINS (a Copeland count over the beat-path relation),
   not by Schulze's criterion "no path-defeat".  For that ranking the clause is REFUTED (C17_schulze_refuted): raising the
   sole winner on one ballot can create new path-wins among the others, lifting them to the winner's count.
   Witnesses (pairwise counts of ranked profiles, one ballot changed by moving the winner one place up; both replayed on
   the implementation, see Proofs/Schulze_proofs.v): five candidates, 12 voters - before, C = 3 is the only candidate
   with two path-wins, after the move A and E have two as well and the result is a three-way tie
   (C17_schulze_witness); six candidates, 14 voters - before, E = 5 wins alone, after the move C = 3 wins alone and E
   is third (C17_schulze_witness_loses). *)
Definition C17_schulze_full_statement : Prop :=
  forall v v' w, raises v v' w -> schulze v (candidates v) 1 = [Cand w] -> schulze v' (candidates v') 1 = [Cand w].

Theorem C17_schulze_witness :
  NoDup (map fst mono_v) /\ NoDup (map fst mono_v') /\
  (forall p n, In (p, n) mono_v -> 0 <= n) /\ (forall p n, In (p, n) mono_v' -> 0 <= n) /\
  raises mono_v mono_v' 3%positive /\
  schulze mono_v (candidates mono_v) 1 = [Cand 3%positive] /\
  schulze mono_v' (candidates mono_v') 1 = [TieR [1%positive; 3%positive; 5%positive]].
Proof. exact schulze_monotone_refuted. Qed.

Theorem C17_schulze_witness_loses :
  NoDup (map fst mono6_v) /\ NoDup (map fst mono6_v') /\
  (forall p n, In (p, n) mono6_v -> 0 <= n) /\ (forall p n, In (p, n) mono6_v' -> 0 <= n) /\
  raises mono6_v mono6_v' 5%positive /\
  schulze mono6_v (candidates mono6_v) 1 = [Cand 5%positive] /\
  schulze mono6_v' (candidates mono6_v') 1 = [Cand 3%positive] /\
  schulze mono6_v' (candidates mono6_v') 3 = [Cand 3%positive; Cand 4%positive; Cand 5%positive].
Proof. exact schulze_monotone_refuted_loses. Qed.

Theorem C17_schulze_refuted : ~ C17_schulze_full_statement.
Proof.
  intros H. destruct schulze_monotone_refuted as (_ & _ & _ & _ & Hr & H1 & H2).
  specialize (H _ _ _ Hr H1). rewrite H2 in H. discriminate H.
Qed.

(* What does hold, for every pair of well-formed dictionaries related by [raises] and every iteration order listing the
   candidates: the strongest path from w to anybody does not weaken and the strongest path from anybody to w does not
   strengthen; so w keeps every path-win, suffers no new path-defeat, its score (the number of path-wins it is ranked
   by) does not drop, and Schulze's own winner criterion - no candidate has a stronger path to w than w has to it -
   is preserved.  (The others' scores may rise: that is the refuted part.) *)
Theorem C17_schulze_partial : forall (v v' : pvotes) (w : C) (order : list C),
  NoDup (map fst v) -> NoDup (map fst v') ->
  (forall p n, In (p, n) v -> 0 <= n) -> (forall p n, In (p, n) v' -> 0 <= n) ->
  raises v v' w -> incl (candidates v) order ->
  let P := widest_paths v order in let P' := widest_paths v' order in
  (forall x, pget0 P (w, x) <= pget0 P' (w, x)) /\
  (forall x, pget0 P' (x, w) <= pget0 P (x, w)) /\
  (forall x, beats P w x -> beats P' w x) /\
  (forall x, beats P' x w -> beats P x w) /\
  dget_or (sscores v order) w 0 <= dget_or (sscores v' order) w 0 /\
  ((forall x, pget0 P (x, w) <= pget0 P (w, x)) -> forall x, pget0 P' (x, w) <= pget0 P' (w, x)).
Proof.
  intros v v' w order Hnd Hnd' Hnn Hnn' Hr Ho P P'.
  split; [exact (raise_paths_out v v' w Hnd Hnd' Hnn Hnn' Hr order Ho)|].
  split; [exact (raise_paths_in v v' w Hnd Hnd' Hnn Hnn' Hr order Ho)|].
  split; [exact (raise_keeps_wins v v' w Hnd Hnd' Hnn Hnn' Hr order Ho)|].
  split; [exact (raise_no_new_defeat v v' w Hnd Hnd' Hnn Hnn' Hr order Ho)|].
  split; [exact (raise_score v v' w Hnd Hnd' Hnn Hnn' Hr order Ho)|].
  exact (raise_potential_winner v v' w Hnd Hnd' Hnn Hnn' Hr order Ho).
Qed.

(* [sscores v order] is the dictionary the evaluator hands to get_n_best *)
Theorem C17_schulze_scores : forall v order n, schulze v order n = get_n_best zle_bool (sscores v order) n.
Proof. intros v order n. reflexivity. Qed.
(* ---- Bucklin / Oklahoma: PreferenceAddition.evaluate (Model/Bucklin.v: the rounds, the majority filter, get_n_best and
   _decouple_equal_rankings as the code has them; proofs Proofs/Bucklin_proofs.v), one seat.
   [pa_eval fx coef split votes 1]: coefficient of round i = coef i, split = split_equal_rankings; fx = false is the
   splicing loop of _decouple_equal_rankings as written, fx = true the same loop with the proposed one-token repair
   (fixes/C17-bucklin-splice-offset.diff) - the theorems hold for both, the check runs the model with the one the
   implementation has.

   General form: a sole winner w stays the sole winner when ONE ballot (its whole weight x; a profile may list a ballot
   twice, so this covers one unit of a heavier ballot) is replaced by a ballot that at no round has given w less and at no
   round has given anybody else more ([pa_lifts]; [cumb coef b r c] = what a unit of ballot b has added to c in the rounds
   before r).  The other ballots are arbitrary (truncated, with shared ranks, split or not); weights are non-negative.
   When shared ranks are split the changed ballot itself must not have any (see C17_bucklin_shared_refuted). *)
Theorem C17_preference_addition_general : forall (fx : bool) (coef : nat -> Q) (split : bool) pre post (b b' : ranked) (x : Q) (w : C),
  Forall (fun bw => 0 <= snd bw)%Q (pre ++ post) -> (0 <= x)%Q ->
  (split = true -> has_shared b = false /\ has_shared b' = false) ->
  pa_lifts coef b b' w ->
  pa_eval fx coef split (pre ++ (b, x) :: post) 1 = PA_ok [Cand w] ->
  pa_eval fx coef split (pre ++ (b', x) :: post) 1 = PA_ok [Cand w].
Proof. exact pa_mono_replace. Qed.

(* the winner moves upwards past any number of places, everybody else keeps their relative order: any non-negative
   non-increasing coefficients (Bucklin 1,1,1,..; Oklahoma 1,1/2,1/3,..), ballots of items (shared ranks allowed in the
   changed ballot when they are not split) *)
Theorem C17_preference_addition : forall (fx : bool) (coef : nat -> Q) (split : bool) pre post (p1 p2 p3 : ranked) (x : Q) (w : C),
  (forall i, 0 <= coef i)%Q -> (forall i, coef (S i) <= coef i)%Q ->
  Forall (fun bw => 0 <= snd bw)%Q (pre ++ post) -> (0 <= x)%Q ->
  ~ In w (flatten p2) ->
  (split = true -> has_shared (p1 ++ p2 ++ IP w :: p3) = false) ->
  pa_eval fx coef split (pre ++ (p1 ++ p2 ++ IP w :: p3, x) :: post) 1 = PA_ok [Cand w] ->
  pa_eval fx coef split (pre ++ (p1 ++ IP w :: p2 ++ p3, x) :: post) 1 = PA_ok [Cand w].
Proof. exact pa_move_up. Qed.

(* the two presets, default construction (shared ranks split), the changed ballot a strict ranking *)
Theorem C17_bucklin : forall (fx : bool) pre post (l1 l2 l3 : list C) (x : Q) (w : C),
  Forall (fun bw => 0 <= snd bw)%Q (pre ++ post) -> (0 <= x)%Q -> ~ In w l2 ->
  bucklin fx (pre ++ (plain_ballot (l1 ++ l2 ++ w :: l3), x) :: post) 1 = PA_ok [Cand w] ->
  bucklin fx (pre ++ (plain_ballot (l1 ++ w :: l2 ++ l3), x) :: post) 1 = PA_ok [Cand w].
Proof. intros fx pre post l1 l2 l3 x w. exact (pa_move_up_plain fx bucklin_coef pre post l1 l2 l3 x w bucklin_coef_good). Qed.

Theorem C17_oklahoma : forall (fx : bool) pre post (l1 l2 l3 : list C) (x : Q) (w : C),
  Forall (fun bw => 0 <= snd bw)%Q (pre ++ post) -> (0 <= x)%Q -> ~ In w l2 ->
  oklahoma fx (pre ++ (plain_ballot (l1 ++ l2 ++ w :: l3), x) :: post) 1 = PA_ok [Cand w] ->
  oklahoma fx (pre ++ (plain_ballot (l1 ++ w :: l2 ++ l3), x) :: post) 1 = PA_ok [Cand w].
Proof. intros fx pre post l1 l2 l3 x w. exact (pa_move_up_plain fx oklahoma_coef pre post l1 l2 l3 x w oklahoma_coef_good). Qed.

(* non-increasing coefficients are needed: with the coefficient list [1; 0; 2] the winner C of {(B): 1, (A,B,C): 1}
   loses to B when it moves up to (A,C,B) *)
Theorem C17_preference_addition_increasing_refuted :
  exists (coef : nat -> Q) pre post (l1 l2 l3 : list C) (x : Q) (w : C),
    (forall i, 0 <= coef i)%Q /\ ~ In w l2 /\
    pa_eval false coef true (pre ++ (plain_ballot (l1 ++ l2 ++ w :: l3), x) :: post) 1 = PA_ok [Cand w] /\
    pa_eval false coef true (pre ++ (plain_ballot (l1 ++ w :: l2 ++ l3), x) :: post) 1 = PA_ok [Cand 2%positive] /\ w <> 2%positive.
Proof.
  exists (coef_fun (CoefList [1; 0; 2]%Q)), [(plain_ballot [2%positive], 1%Q)], [], [1%positive], [2%positive], [], 1%Q, 3%positive.
  split; [|split; [|split; [|split]]]; [|intros [H|[]]; discriminate|vm_compute; reflexivity|vm_compute; reflexivity|discriminate].
  intros [|[|[|[|i]]]]; vm_compute; discriminate.
Qed.

(* A NEW ballot with the winner on top.  It raises the quota by half its weight: the clause holds when the ballot gives
   the winner at least that much at once (coef 0 >= 1/2) and nobody else more than that (coefficients of the later places
   <= 1/2, every candidate listed once).  So: any such ballot under Oklahoma, the bullet vote under Bucklin. *)
Theorem C17_preference_addition_added : forall (fx : bool) (coef : nat -> Q) (split : bool) pre post (rest : ranked) (x : Q) (w : C),
  (forall i, 0 <= coef i)%Q -> (1 # 2 <= coef 0%nat)%Q ->
  (forall i, (1 <= i < S (length rest))%nat -> coef i <= 1 # 2)%Q -> NoDup (flatten rest) ->
  (split = true -> has_shared rest = false) ->
  Forall (fun bw => 0 <= snd bw)%Q (pre ++ post) -> (0 <= x)%Q ->
  pa_eval fx coef split (pre ++ post) 1 = PA_ok [Cand w] ->
  pa_eval fx coef split (pre ++ (IP w :: rest, x) :: post) 1 = PA_ok [Cand w].
Proof. exact pa_add_top. Qed.

Theorem C17_bucklin_added : forall (fx : bool) pre post (x : Q) (w : C),
  Forall (fun bw => 0 <= snd bw)%Q (pre ++ post) -> (0 <= x)%Q ->
  bucklin fx (pre ++ post) 1 = PA_ok [Cand w] ->
  bucklin fx (pre ++ (plain_ballot [w], x) :: post) 1 = PA_ok [Cand w].
Proof.
  intros fx pre post x w Hw Hx. apply (pa_add_top fx bucklin_coef true pre post [] x w); try assumption.
  - intros i. unfold bucklin_coef. discriminate.
  - unfold bucklin_coef. discriminate.
  - intros i Hi. simpl in Hi. lia.
  - constructor.
  - reflexivity.
Qed.

Theorem C17_oklahoma_added : forall (fx : bool) pre post (rest : list C) (x : Q) (w : C),
  Forall (fun bw => 0 <= snd bw)%Q (pre ++ post) -> (0 <= x)%Q -> NoDup rest ->
  oklahoma fx (pre ++ post) 1 = PA_ok [Cand w] ->
  oklahoma fx (pre ++ (plain_ballot (w :: rest), x) :: post) 1 = PA_ok [Cand w].
Proof.
  intros fx pre post rest x w Hw Hx Hnd. apply (pa_add_top fx oklahoma_coef true pre post (plain_ballot rest) x w); try assumption.
  - apply oklahoma_coef_good.
  - unfold oklahoma_coef. discriminate.
  - intros i Hi. apply oklahoma_coef_half. lia.
  - rewrite flatten_plain. exact Hnd.
  - intros _. apply has_shared_plain.
Qed.

(* under Bucklin a longer new ballot that ranks the winner first can cost it the sole win (the participation failure of
   Bucklin): {(D,A): 2, (B,C,A): 2} elects A in the third round; with one more ballot (A,B) the quota is 5/2 and A and B
   tie above it in the second round *)
Theorem C17_bucklin_added_full_refuted :
  exists votes (rest : list C) (x : Q) (w : C), NoDup (w :: rest) /\ (0 <= x)%Q /\
    (forall fx, bucklin fx votes 1 = PA_ok [Cand w]) /\
    (forall fx, bucklin fx (votes ++ [(plain_ballot (w :: rest), x)]) 1 = PA_ok [TieR [2%positive; w]]).
Proof.
  exists [(plain_ballot [4; 1]%positive, 2%Q); (plain_ballot [2; 3; 1]%positive, 2%Q)], [2%positive], 1%Q, 1%positive.
  split; [constructor; [simpl; intros [H|[]]; discriminate|constructor; [intros []|constructor]]|].
  split; [discriminate|]. split; intros [|]; vm_compute; reflexivity.
Qed.

(* changed ballots WITH shared ranks under split_equal_rankings: refuted for the code as written.  The splicing loop of
   _decouple_equal_rankings advances its offset by the length of the spliced permutation instead of that length minus
   one, so from the second shared rank of a ballot on the rank behind the shared one is overwritten:
   ({X},{Y},Z,W) counts as (X,{Y},Y,W) but ({X},{Y},W,Z) as (X,{Y},Y,Z) - moving W up one place removes it from the
   ballot.  {({X},{Y},Z,W): 1, (X): 1, (W): 2} elects W (3 of 4 in the fourth round); after the move nobody is elected.
   With the repaired loop W wins both times. *)
Theorem C17_bucklin_shared_refuted :
  exists pre post (p1 p2 p3 : ranked) (x : Q) (w : C), ~ In w (flatten p2) /\ (0 <= x)%Q /\
    bucklin false (pre ++ (p1 ++ p2 ++ IP w :: p3, x) :: post) 1 = PA_ok [Cand w] /\
    bucklin false (pre ++ (p1 ++ IP w :: p2 ++ p3, x) :: post) 1 = PA_ok [] /\
    bucklin true (pre ++ (p1 ++ p2 ++ IP w :: p3, x) :: post) 1 = PA_ok [Cand w] /\
    bucklin true (pre ++ (p1 ++ IP w :: p2 ++ p3, x) :: post) 1 = PA_ok [Cand w].
Proof.
  exists [], [([IP 1%positive], 1%Q); ([IP 4%positive], 2%Q)], [IS [1%positive]; IS [2%positive]], [IP 3%positive], [], 1%Q, 4%positive.
  split; [simpl; intros [H|[]]; discriminate|]. split; [discriminate|]. repeat split; vm_compute; reflexivity.
Qed.

(* ---- changed ballots WITH shared ranks under split_equal_rankings, repaired splicing loop (fx = true: the library after
   5993e70 "offset advanced by len - 1" and db5d821 "adds the split weight to a ballot that already exists"; the check probes
   which loop the implementation has).  Proofs/BucklinShared_proofs.v.
   The clause as stated for all inputs: *)
Definition C17_bucklin_shared_full_statement : Prop :=
  forall pre post (p1 p2 p3 : ranked) (x : Q) (w : C),
  Forall (fun bw => 0 <= snd bw)%Q (pre ++ post) -> (0 <= x)%Q -> ~ In w (flatten p2) ->
  bucklin true (pre ++ (p1 ++ p2 ++ IP w :: p3, x) :: post) 1 = PA_ok [Cand w] ->
  bucklin true (pre ++ (p1 ++ IP w :: p2 ++ p3, x) :: post) 1 = PA_ok [Cand w].

(* the repaired _decouple_equal_rankings is LINEAR in the profile: for EVERY functional f of a ballot the f-weighted sum of
   the decoupled profile is the sum over the original ballots of the MEAN of f over the variants of the ballot
   ([spread f b] = f b for a ballot without shared ranks, else the mean over [variants true b]); the variants are the
   in-place expansions of the shared ranks by their permutations (first shared rank slowest), none has a shared rank and
   there is at least one.  (False of the loop as written: a variant can keep a shared rank, and the deleted key loses weight.) *)
Theorem C17_decouple_linear : forall (f : ranked -> Q) (votes : list (ranked * Q)),
  (rsum f (decouple true votes) == rsum (spread f) votes)%Q /\
  (forall b, variants true b = svariants b /\ svariants b <> [] /\ forall v, In v (svariants b) -> has_shared v = false) /\
  (forall k, In k (map fst (decouple true votes)) -> has_shared k = false).
Proof.
  intros f votes. split; [apply decouple_linear|]. split; [|apply decouple_plain_keys].
  intros b. split; [apply variants_svariants|]. split; [apply svariants_nonempty|apply svariants_plain].
Qed.

(* general form with shared ranks split: one ballot (b, x) is replaced by (b', x) such that, ON AVERAGE OVER THE VARIANTS, b' has
   at no round given w less and nobody else more.  b and b' arbitrary (shared ranks, truncated, different numbers of variants). *)
Theorem C17_preference_addition_split_general : forall (coef : nat -> Q) pre post (b b' : ranked) (x : Q) (w : C),
  Forall (fun bw => 0 <= snd bw)%Q (pre ++ post) -> (0 <= x)%Q ->
  (forall r, spread (fun v => cumb coef v r w) b <= spread (fun v => cumb coef v r w) b')%Q ->
  (forall r c, c <> w -> spread (fun v => cumb coef v r c) b' <= spread (fun v => cumb coef v r c) b)%Q ->
  pa_eval true coef true (pre ++ (b, x) :: post) 1 = PA_ok [Cand w] ->
  pa_eval true coef true (pre ++ (b', x) :: post) 1 = PA_ok [Cand w].
Proof. exact pa_mono_replace_split. Qed.

(* the winner (on a rank of its own) moves up past any items - plain or shared ranks - on a ballot that may contain shared
   ranks anywhere (also further occurrences of w): any non-negative non-increasing coefficients.  The variants of the old and
   of the new ballot correspond one to one (same permutations of the same shared ranks, same order), each pair related by the
   upward move of w on a strict ranking. *)
Theorem C17_preference_addition_shared : forall (coef : nat -> Q) pre post (p1 p2 p3 : ranked) (x : Q) (w : C),
  (forall i, 0 <= coef i)%Q -> (forall i, coef (S i) <= coef i)%Q ->
  Forall (fun bw => 0 <= snd bw)%Q (pre ++ post) -> (0 <= x)%Q -> ~ In w (flatten p2) ->
  pa_eval true coef true (pre ++ (p1 ++ p2 ++ IP w :: p3, x) :: post) 1 = PA_ok [Cand w] ->
  pa_eval true coef true (pre ++ (p1 ++ IP w :: p2 ++ p3, x) :: post) 1 = PA_ok [Cand w].
Proof. exact pa_move_up_shared. Qed.

(* the clause itself: Bucklin, and the Oklahoma preset *)
Theorem C17_bucklin_shared : C17_bucklin_shared_full_statement.
Proof.
  intros pre post p1 p2 p3 x w. destruct bucklin_coef_good as [H1 H2].
  exact (pa_move_up_shared bucklin_coef pre post p1 p2 p3 x w H1 H2).
Qed.

Theorem C17_oklahoma_shared : forall pre post (p1 p2 p3 : ranked) (x : Q) (w : C),
  Forall (fun bw => 0 <= snd bw)%Q (pre ++ post) -> (0 <= x)%Q -> ~ In w (flatten p2) ->
  oklahoma true (pre ++ (p1 ++ p2 ++ IP w :: p3, x) :: post) 1 = PA_ok [Cand w] ->
  oklahoma true (pre ++ (p1 ++ IP w :: p2 ++ p3, x) :: post) 1 = PA_ok [Cand w].
Proof.
  intros pre post p1 p2 p3 x w. destruct oklahoma_coef_good as [H1 H2].
  exact (pa_move_up_shared oklahoma_coef pre post p1 p2 p3 x w H1 H2).
Qed.

(* ---- the winner LEAVES a shared rank (Proofs/BucklinLeave_proofs.v): from the shared rank {la, w, lb} to a place of its own, directly
   above the rest {la, lb} of the rank or further up past the items p2.  The old ballot has k! variants for that rank, the new one
   (k-1)!; itertools.permutations of (la ++ w :: lb) is, as a multiset, every insertion of w into every permutation of (la ++ lb)
   ([perms_insert], proved for the model of permutations [perms_n]/[picks] by sums), so the sum of any w-monotone functional over the
   old variants is at most k times the sum over the new ones, and the means are ordered. *)
Theorem C17_preference_addition_leave_shared : forall (coef : nat -> Q) pre post (p1 p2 p3 : ranked) (la lb : list C) (x : Q) (w : C),
  (forall i, 0 <= coef i)%Q -> (forall i, coef (S i) <= coef i)%Q ->
  Forall (fun bw => 0 <= snd bw)%Q (pre ++ post) -> (0 <= x)%Q -> ~ In w (la ++ lb) -> ~ In w (flatten p2) ->
  pa_eval true coef true (pre ++ (p1 ++ p2 ++ IS (la ++ w :: lb) :: p3, x) :: post) 1 = PA_ok [Cand w] ->
  pa_eval true coef true (pre ++ (p1 ++ IP w :: p2 ++ IS (la ++ lb) :: p3, x) :: post) 1 = PA_ok [Cand w].
Proof. exact pa_leave_shared_up. Qed.

Theorem C17_bucklin_leave_shared : forall pre post (p1 p2 p3 : ranked) (la lb : list C) (x : Q) (w : C),
  Forall (fun bw => 0 <= snd bw)%Q (pre ++ post) -> (0 <= x)%Q -> ~ In w (la ++ lb) -> ~ In w (flatten p2) ->
  bucklin true (pre ++ (p1 ++ p2 ++ IS (la ++ w :: lb) :: p3, x) :: post) 1 = PA_ok [Cand w] ->
  bucklin true (pre ++ (p1 ++ IP w :: p2 ++ IS (la ++ lb) :: p3, x) :: post) 1 = PA_ok [Cand w].
Proof.
  intros pre post p1 p2 p3 la lb x w. destruct bucklin_coef_good as [H1 H2].
  exact (pa_leave_shared_up bucklin_coef pre post p1 p2 p3 la lb x w H1 H2).
Qed.

Theorem C17_oklahoma_leave_shared : forall pre post (p1 p2 p3 : ranked) (la lb : list C) (x : Q) (w : C),
  Forall (fun bw => 0 <= snd bw)%Q (pre ++ post) -> (0 <= x)%Q -> ~ In w (la ++ lb) -> ~ In w (flatten p2) ->
  oklahoma true (pre ++ (p1 ++ p2 ++ IS (la ++ w :: lb) :: p3, x) :: post) 1 = PA_ok [Cand w] ->
  oklahoma true (pre ++ (p1 ++ IP w :: p2 ++ IS (la ++ lb) :: p3, x) :: post) 1 = PA_ok [Cand w].
Proof.
  intros pre post p1 p2 p3 la lb x w. destruct oklahoma_coef_good as [H1 H2].
  exact (pa_leave_shared_up oklahoma_coef pre post p1 p2 p3 la lb x w H1 H2).
Qed.

(* two ballots with the same variants are interchangeable (e.g. a shared rank with one member written as a plain rank); so when w
   leaves a shared PAIR {w, c} the remaining member may be written as the plain rank c *)
Theorem C17_preference_addition_same_variants : forall (coef : nat -> Q) pre post (b b' : ranked) (x : Q) (w : C),
  Forall (fun bw => 0 <= snd bw)%Q (pre ++ post) -> (0 <= x)%Q -> svariants b = svariants b' ->
  pa_eval true coef true (pre ++ (b, x) :: post) 1 = PA_ok [Cand w] ->
  pa_eval true coef true (pre ++ (b', x) :: post) 1 = PA_ok [Cand w].
Proof. exact pa_same_variants. Qed.

Theorem C17_preference_addition_leave_pair : forall (coef : nat -> Q) pre post (p1 p2 p3 : ranked) (la lb : list C) (c : C) (x : Q) (w : C),
  (forall i, 0 <= coef i)%Q -> (forall i, coef (S i) <= coef i)%Q ->
  Forall (fun bw => 0 <= snd bw)%Q (pre ++ post) -> (0 <= x)%Q -> la ++ lb = [c] -> c <> w -> ~ In w (flatten p2) ->
  pa_eval true coef true (pre ++ (p1 ++ p2 ++ IS (la ++ w :: lb) :: p3, x) :: post) 1 = PA_ok [Cand w] ->
  pa_eval true coef true (pre ++ (p1 ++ IP w :: p2 ++ IP c :: p3, x) :: post) 1 = PA_ok [Cand w].
Proof. exact pa_leave_pair. Qed.

(* non-vacuity: {(A,{B,C,W}): 2, (W): 1, (B,W): 3, (A): 1} (A,B,C = 1,2,3, W = 6): Bucklin elects W (without the first ballot: B); W leaves
   the shared rank of the first ballot for the first place: (W,A,{B,C}); 6 variants before, 2 after *)
Example C17_bucklin_leave_example :
  let post := [([IP 6%positive], 1%Q); ([IP 2; IP 6]%positive, 3%Q); ([IP 1%positive], 1%Q)] in
  bucklin true ([] ++ ([] ++ [IP 1%positive] ++ IS ([2%positive] ++ 6%positive :: [3%positive]) :: [], 2%Q) :: post) 1 = PA_ok [Cand 6%positive] /\
  bucklin true ([] ++ ([] ++ IP 6%positive :: [IP 1%positive] ++ IS ([2%positive] ++ [3%positive]) :: [], 2%Q) :: post) 1 = PA_ok [Cand 6%positive] /\
  length (variants true [IP 1; IS [2; 6; 3]]%positive) = 6%nat /\ length (variants true [IP 6; IP 1; IS [2; 3]]%positive) = 2%nat.
Proof. vm_compute. repeat split; reflexivity. Qed.

(* non-vacuity: {({A,B},{C,D},E,W): 2, (C,W): 3, (W): 1} (A..E = 1..5, W = 6): the first ballot has 4 variants of weight 1/2 each;
   Bucklin elects W in both profiles (without that ballot C would win) *)
Example C17_bucklin_shared_example :
  let post := [([IP 3; IP 6]%positive, 3%Q); ([IP 6%positive], 1%Q)] in
  bucklin true post 1 = PA_ok [Cand 3%positive] /\
  length (variants true [IS [1; 2]; IS [3; 4]; IP 5; IP 6]%positive) = 4%nat /\
  bucklin true ([] ++ ([IS [1; 2]%positive] ++ [IS [3; 4]%positive; IP 5%positive] ++ IP 6%positive :: [], 2%Q) :: post) 1 = PA_ok [Cand 6%positive] /\
  bucklin true ([] ++ ([IS [1; 2]%positive] ++ IP 6%positive :: [IS [3; 4]%positive; IP 5%positive] ++ [], 2%Q) :: post) 1 = PA_ok [Cand 6%positive].
Proof. vm_compute. repeat split; reflexivity. Qed.

(* non-vacuity: a profile with a truncated ballot and a split shared rank: {(D,A): 3, (B,C,A): 2, ({B,C},D): 1};
   Bucklin elects A in the third round (5 against D's 4, quota 3); after A has moved up to (B,A,C) already in the second.
   Under the Oklahoma coefficients D wins both times. *)
Example C17_bucklin_example :
  let others := [(plain_ballot [4; 1]%positive, 3%Q)] in
  let shared := [([IS [2; 3]%positive; IP 4%positive], 1%Q)] in
  bucklin false (others ++ (plain_ballot ([2%positive] ++ [3%positive] ++ 1%positive :: []), 2%Q) :: shared) 1 = PA_ok [Cand 1%positive] /\
  bucklin false (others ++ (plain_ballot ([2%positive] ++ 1%positive :: [3%positive] ++ []), 2%Q) :: shared) 1 = PA_ok [Cand 1%positive] /\
  oklahoma false (others ++ (plain_ballot ([2%positive] ++ [3%positive] ++ 1%positive :: []), 2%Q) :: shared) 1 = PA_ok [Cand 4%positive].
Proof. vm_compute. repeat split; reflexivity. Qed.

(* non-vacuity: 3 parties, D'Hondt, 5 -> 6 seats (the 5-seat run ends in a tie A/B for the last seat) *)
Example C17_example :
  map (tot_s (final_state d_hondt [(1%positive, 60#1); (2%positive, 30#1); (3%positive, 10#1)]%Q 5 [] []))
      [1%positive; 2%positive; 3%positive] = [3; 1; 0] /\
  map (tot_s (final_state d_hondt [(1%positive, 60#1); (2%positive, 30#1); (3%positive, 10#1)]%Q 6 [] []))
      [1%positive; 2%positive; 3%positive] = [4; 2; 0].
Proof. vm_compute. split; reflexivity. Qed.


(* ==== wave 5: the per-case parts of the two highest-averages clauses closed (Proofs/HouseTie_proofs.v, Proofs/VotesFull_proofs.v).
   [tie_seat s c] = 1 when c is a member of the reported tie of s (it may still get one of the tied seats), else 0;
   a party's possible total is [tot_s s c + tie_seat s c]. *)

(* House monotonicity, the exact relation of the run for n seats and the run for n + 1 seats ([house_rel]): either the smaller run
   reports no tie and nobody's sure seats drop; or it reports Tie(T, r) and the larger run has the SAME sure seats and reports
   Tie(T, r + 1), or - when r + 1 = |T| - gives every member of T one more sure seat and reports no tie.
   Every divisor function, votes, caps, non-negative previous gains. *)
Theorem C17_house_exact : forall (d : Z -> Q) (votes : list (C * Q)) (caps prev : list (C * Z)) (n : Z),
  Forall (fun cv => 0 <= snd cv) prev ->
  let sa := final_state d votes n prev caps in let sb := final_state d votes (n + 1) prev caps in
  (st_tie sa = None /\ forall c, tot_s sa c <= tot_s sb c) \/
  (exists T r, st_tie sa = Some (T, r) /\
     ((st_tie sb = Some (T, r + 1) /\ st_totals sb = st_totals sa) \/
      (st_tie sb = None /\ Z.of_nat (length T) = r + 1 /\ forall c, tot_s sb c = tot_s sa c + count c T))).
Proof. intros d votes caps prev n Hp. exact (house_exact d votes caps n prev Hp). Qed.

(* ... so neither the sure seats (C17_house) nor the possible total of any party ever drop when a seat is added *)
Theorem C17_house_tie : forall (d : Z -> Q) (votes : list (C * Q)) (caps prev : list (C * Z)) (n : Z),
  Forall (fun cv => 0 <= snd cv) prev -> forall c,
  tot_s (final_state d votes n prev caps) c + tie_seat (final_state d votes n prev caps) c <=
  tot_s (final_state d votes (n + 1) prev caps) c + tie_seat (final_state d votes (n + 1) prev caps) c.
Proof. intros d votes caps prev n Hp. exact (house_tie_monotone d votes caps n prev Hp). Qed.

(* Vote monotonicity in full: every positive NON-DECREASING divisor (no strictness), votes >= 0 (zero-vote parties, p itself may
   start from zero), caps (p capped, others capped, caps exhausted), non-negative previous gains, and whatever way either run ends:
   party p gains votes, everybody else keeps theirs; then (i) the seats p holds for certain do not drop and (ii) its possible total
   (sure seats + the seat it may still get out of a reported tie) does not drop.  C17_votes is the special case "new run tie-free". *)
Theorem C17_votes_full : forall (d : Z -> Q) (votes votes' : list (C * Q)) (caps prev : list (C * Z)) (n : Z)
    (p : C) (vp vp' : Q),
  divisor_ok d ->
  (forall c v, In (c, v) votes -> (0 <= v)%Q) -> (forall c v, In (c, v) votes' -> (0 <= v)%Q) ->
  NoDup (map fst votes) -> NoDup (map fst votes') -> (forall c, 0 <= dget_or prev c 0) ->
  dget votes p = Some vp -> dget votes' p = Some vp' -> (vp <= vp')%Q ->
  (forall c, c <> p -> dget votes' c = dget votes c) ->
  let sa := final_state d votes n prev caps in let sb := final_state d votes' n prev caps in
  tot_s sa p <= tot_s sb p /\ tot_s sa p + tie_seat sa p <= tot_s sb p + tie_seat sb p.
Proof.
  intros d votes votes' caps prev n p vp vp' [Hpos Hmono] Hv Hv' Hnd Hnd' Hprev Hp Hp' Hle Hoth.
  exact (votes_monotone_full d votes votes' caps prev n Hpos Hmono Hv Hv' Hnd Hnd' Hprev p vp vp' Hp Hp' Hle Hoth).
Qed.

(* the hypothesis on the divisor holds for the five built-in sequences and for modified_first_coef(f, c) with 0 < c <= f(1) *)
Theorem C17_builtin_divisors_ok :
  (forall i, divisor_ok (divisor_by_id i)) /\
  (forall f c, divisor_ok f -> (0 < c)%Q -> (c <= f 1%Z)%Q -> divisor_ok (modified_first_coef f c)).
Proof. split; [exact builtin_ok|exact modified_ok]. Qed.

(* non-vacuity: d'Hondt, 2 seats, C has no votes and is capped.  A: 8 -> 10 votes (B: 20): before, B takes both seats; after, B holds one
   and A and B tie for the other - A's sure seats stay 0, its possible total rises from 0 to 1 (and B, who did not change, loses a sure seat);
   three zero-vote parties tie for both seats; when A gets 3 votes it takes both *)
Example C17_votes_full_example :
  let show s := (map (tot_s s) [1; 2; 3]%positive, st_tie s, map (tie_seat s) [1; 2; 3]%positive) in
  show (final_state d_hondt [(1%positive, 8#1); (2%positive, 20#1); (3%positive, 0#1)]%Q 2 [] [(3%positive, 1)]) = ([0; 2; 0], None, [0; 0; 0]) /\
  show (final_state d_hondt [(1%positive, 10#1); (2%positive, 20#1); (3%positive, 0#1)]%Q 2 [] [(3%positive, 1)])
    = ([0; 1; 0], Some ([2%positive; 1%positive], 1), [1; 1; 0]) /\
  show (final_state d_hondt [(1%positive, 0#1); (2%positive, 0#1); (3%positive, 0#1)]%Q 2 [] [])
    = ([0; 0; 0], Some ([1%positive; 2%positive; 3%positive], 2), [1; 1; 1]) /\
  show (final_state d_hondt [(1%positive, 3#1); (2%positive, 0#1); (3%positive, 0#1)]%Q 2 [] []) = ([2; 0; 0], None, [0; 0; 0]).
Proof. vm_compute. repeat split; reflexivity. Qed.

(* non-vacuity of both branches of C17_house_exact: three equal parties, 4 -> 5 seats: Tie(T, 1) becomes Tie(T, 2); 60/30/10, 5 -> 6 seats:
   Tie({A, B}, 1) is resolved, both get the seat *)
Example C17_house_exact_example :
  let show s := (map (tot_s s) [1; 2; 3]%positive, st_tie s) in
  show (final_state d_hondt [(1%positive, 6#1); (2%positive, 6#1); (3%positive, 6#1)]%Q 4 [] []) = ([1; 1; 1], Some ([1; 2; 3]%positive, 1)) /\
  show (final_state d_hondt [(1%positive, 6#1); (2%positive, 6#1); (3%positive, 6#1)]%Q 5 [] []) = ([1; 1; 1], Some ([1; 2; 3]%positive, 2)) /\
  show (final_state d_hondt [(1%positive, 60#1); (2%positive, 30#1); (3%positive, 10#1)]%Q 5 [] []) = ([3; 1; 0], Some ([1; 2]%positive, 1)) /\
  show (final_state d_hondt [(1%positive, 60#1); (2%positive, 30#1); (3%positive, 10#1)]%Q 6 [] []) = ([4; 2; 0], None).
Proof. vm_compute. repeat split; reflexivity. Qed.

(* ---- largest remainder: NOT among the rules the property claims monotone ("under every highest-averages rule ..."); recorded for contrast,
   kernel-evaluated on the model of LargestRemainder.evaluate (Model/QuotaDistributor.v, tied to the code by the streams of C02 and by the
   stream lr-paradox here) and replayed on the implementation (corpus/C17/lr-*.json).
   Alabama paradox: Hare quota, votes 3 / 1 / 7: in a house of 5 party B holds a seat, in a house of 6 it holds none. *)
Theorem C17_lr_house_refuted :
  exists (votes : list (C * Q)) (n : Z) (p : C) s1 s2,
    QuotaDistributor.lr_evaluate Quota.hare true QuotaDistributor.PError votes n [] [] = QuotaDistributor.LR_ok s1 /\
    QuotaDistributor.lr_evaluate Quota.hare true QuotaDistributor.PError votes (n + 1) [] [] = QuotaDistributor.LR_ok s2 /\
    QuotaDistributor.kdget s2 p < QuotaDistributor.kdget s1 p.
Proof.
  exists [(1%positive, 3#1); (2%positive, 1#1); (3%positive, 7#1)]%Q, 5, 2%positive,
    [(QuotaDistributor.K 1%positive, 1); (QuotaDistributor.K 3%positive, 3); (QuotaDistributor.K 2%positive, 1)], [(QuotaDistributor.K 1%positive, 2); (QuotaDistributor.K 3%positive, 4)].
  vm_compute. repeat split; reflexivity.
Qed.

(* a party that gains a vote loses a seat under a ROUNDED quota (Droop = floor(V / (n + 1)) + 1 jumps from 1 to 2): votes 1 / 4, 5 seats:
   B holds 4 seats; with 5 votes it holds 3 (the remainder stage gives every party at most one seat: only 4 of the 5 seats are filled) *)
Theorem C17_lr_votes_droop_refuted :
  exists (votes votes' : list (C * Q)) (n : Z) (p : C) (vp vp' : Q) s1 s2,
    dget votes p = Some vp /\ dget votes' p = Some vp' /\ (vp <= vp')%Q /\ (forall c, c <> p -> dget votes' c = dget votes c) /\
    QuotaDistributor.lr_evaluate Quota.droop true QuotaDistributor.PError votes n [] [] = QuotaDistributor.LR_ok s1 /\
    QuotaDistributor.lr_evaluate Quota.droop true QuotaDistributor.PError votes' n [] [] = QuotaDistributor.LR_ok s2 /\
    QuotaDistributor.kdget s2 p < QuotaDistributor.kdget s1 p.
Proof.
  exists [(1%positive, 1#1); (2%positive, 4#1)]%Q, [(1%positive, 1#1); (2%positive, 5#1)]%Q, 5, 2%positive, (4#1)%Q, (5#1)%Q,
    [(QuotaDistributor.K 1%positive, 1); (QuotaDistributor.K 2%positive, 4)], [(QuotaDistributor.K 2%positive, 3); (QuotaDistributor.K 1%positive, 1)].
  split; [reflexivity|]. split; [reflexivity|]. split; [vm_compute; discriminate|]. split.
  - intros c Hc. cbn [dget]. destruct (ceqb c 1%positive); [reflexivity|]. destruct (ceqb c 2%positive) eqn:E; [|reflexivity].
    apply Pos.eqb_eq in E. congruence.
  - vm_compute. repeat split; reflexivity.
Qed.


(* ==== positional rules, the changed ballot WITH shared ranks (Proofs/PositionalShared_proofs.v).  In the model of
   RankedToPositionalVotes.convert ([img_positional], as in the code) every member of a shared rank gets the score of the rank's index.
   General additive form first: the sole winner stays when everybody else gains at most what the winner gains (C17_additive is the case
   "winner gains >= 0 >= the others' gain") - needed because under modified Borda a ballot that gets one rank longer lifts every score by one. *)
Theorem C17_additive_diff : forall (B : Type) (image : B -> list (sx * Q)) pre post (b b' : B) (w : Q) (kw : sx),
  (0 <= w)%Q ->
  (forall k, In k (map fst (image b')) -> k = kw \/ In k (map fst (image b))) ->
  In kw (map fst (image b')) ->
  (forall k, k <> kw -> (coef sx_eqb (image b') k - coef sx_eqb (image b) k <= coef sx_eqb (image b') kw - coef sx_eqb (image b) kw)%Q) ->
  get_n_best Qle_bool (dconv image (pre ++ (b, w) :: post)) 1 = [Cand kw] ->
  get_n_best Qle_bool (dconv image (pre ++ (b', w) :: post)) 1 = [Cand kw].
Proof. intros B image. exact (PositionalShared_proofs.additive_sole_winner_diff sx_eqb sx_eqb_spec image). Qed.

(* a ballot is ADDED: it names no new key and gives nobody more than the winner *)
Theorem C17_additive_added : forall (B : Type) (image : B -> list (sx * Q)) pre post (b' : B) (w : Q) (kw : sx),
  (0 <= w)%Q ->
  (forall k, In k (map fst (image b')) -> In k (map fst (dconv image (pre ++ post)))) ->
  (forall k, (coef sx_eqb (image b') k <= coef sx_eqb (image b') kw)%Q) ->
  get_n_best Qle_bool (dconv image (pre ++ post)) 1 = [Cand kw] ->
  get_n_best Qle_bool (dconv image (pre ++ (b', w) :: post)) 1 = [Cand kw].
Proof. intros B image. exact (PositionalShared_proofs.additive_added_ballot sx_eqb sx_eqb_spec image). Qed.

Lemma scorer_ok_is_b s : scorer_ok s = PositionalShared_proofs.scorer_ok_b s.
Proof. reflexivity. Qed.

(* the winner, on a rank of its own, moves up past the items p2 - plain or shared ranks - of a ballot that may contain shared ranks anywhere
   (further occurrences of w elsewhere on the ballot do not matter); every scorer with [scorer_ok]; no condition on the ballot length (when
   [rank_scores] refuses - Borda, more ranks than candidates - both images are empty) *)
Theorem C17_positional_shared : forall (s : Convert.scorer) (n_cands : nat) pre_b post_b (p1 p2 p3 : ranked) (w : C) (wgt : Q),
  (0 <= wgt)%Q -> ~ In w (flatten p2) -> scorer_ok s = true ->
  get_n_best Qle_bool (dconv (pos_img s n_cands) (pre_b ++ (p1 ++ p2 ++ IP w :: p3, wgt) :: post_b)) 1 = [Cand (kc w)] ->
  get_n_best Qle_bool (dconv (pos_img s n_cands) (pre_b ++ (p1 ++ IP w :: p2 ++ p3, wgt) :: post_b)) 1 = [Cand (kc w)].
Proof.
  intros s n_cands pre_b post_b p1 p2 p3 w wgt Hw Hnin Hok.
  exact (PositionalShared_proofs.positional_move_up_items s n_cands pre_b post_b p1 p2 p3 w wgt Hw Hnin (C17_scorer_ok s n_cands Hok)).
Qed.

(* the winner LEAVES a shared rank {la, w, lb} for a place of its own above it (directly, or further up past the items p2): the ballot gets one
   rank longer, so the score list is the one for k + 1 ranks.  For all six scorers under [scorer_ok] the two lists are related by [grow_ok]
   (C17_scorer_grow_ok: a score shifted one place down never gains, one that stays never loses, and staying gains no more than any upward move).
   No candidate twice on the ballot (C17_positional_twice_refuted).  When one member is left, it may be written as a plain rank. *)
Theorem C17_scorer_grow_ok : forall s n k sc sc', scorer_ok s = true ->
  rank_scores s n k = Some sc -> rank_scores s n (S k) = Some sc' -> PositionalShared_proofs.grow_ok sc sc'.
Proof. intros s n k sc sc' Hok. rewrite scorer_ok_is_b in Hok. exact (PositionalShared_proofs.scorer_grow_ok s n k sc sc' Hok). Qed.

Theorem C17_positional_leave_shared : forall (s : Convert.scorer) (n_cands : nat) pre_b post_b (p1 p2 p3 : ranked) (la lb : list C) (w : C) (wgt : Q) (sc' : list Q),
  (0 <= wgt)%Q -> NoDup (flatten (p1 ++ p2 ++ IS (la ++ w :: lb) :: p3)) -> scorer_ok s = true ->
  rank_scores s n_cands (S (length (p1 ++ p2 ++ IS (la ++ w :: lb) :: p3))) = Some sc' ->
  get_n_best Qle_bool (dconv (pos_img s n_cands) (pre_b ++ (p1 ++ p2 ++ IS (la ++ w :: lb) :: p3, wgt) :: post_b)) 1 = [Cand (kc w)] ->
  get_n_best Qle_bool (dconv (pos_img s n_cands) (pre_b ++ (p1 ++ IP w :: p2 ++ IS (la ++ lb) :: p3, wgt) :: post_b)) 1 = [Cand (kc w)].
Proof.
  intros s n_cands pre_b post_b p1 p2 p3 la lb w wgt sc' Hw Hnd Hok. rewrite scorer_ok_is_b in Hok.
  exact (PositionalShared_proofs.positional_leave_shared s n_cands pre_b post_b p1 p2 p3 la lb w wgt sc' Hw Hnd Hok).
Qed.

Theorem C17_positional_leave_pair : forall (s : Convert.scorer) (n_cands : nat) pre_b post_b (p1 p2 p3 : ranked) (la lb : list C) (w c : C) (wgt : Q) (sc' : list Q),
  (0 <= wgt)%Q -> NoDup (flatten (p1 ++ p2 ++ IS (la ++ w :: lb) :: p3)) -> scorer_ok s = true -> la ++ lb = [c] ->
  rank_scores s n_cands (S (length (p1 ++ p2 ++ IS (la ++ w :: lb) :: p3))) = Some sc' ->
  get_n_best Qle_bool (dconv (pos_img s n_cands) (pre_b ++ (p1 ++ p2 ++ IS (la ++ w :: lb) :: p3, wgt) :: post_b)) 1 = [Cand (kc w)] ->
  get_n_best Qle_bool (dconv (pos_img s n_cands) (pre_b ++ (p1 ++ IP w :: p2 ++ IP c :: p3, wgt) :: post_b)) 1 = [Cand (kc w)].
Proof.
  intros s n_cands pre_b post_b p1 p2 p3 la lb w c wgt sc' Hw Hnd Hok. rewrite scorer_ok_is_b in Hok.
  exact (PositionalShared_proofs.positional_leave_shared_single s n_cands pre_b post_b p1 p2 p3 la lb w c wgt sc' Hw Hnd Hok).
Qed.

(* an UNRANKED winner gets ranked (anywhere: p1 above it, p2 below it): an unranked candidate gets 0 from the ballot, so the new score of w must
   not be negative - true of every scorer with [scorer_ok] except Borda with a negative base ([scorer_nonneg_b]); refuted otherwise
   (C17_positional_negative_refuted) *)
Theorem C17_positional_rank_unranked : forall (s : Convert.scorer) (n_cands : nat) pre_b post_b (p1 p2 : ranked) (w : C) (wgt : Q) (sc' : list Q),
  (0 <= wgt)%Q -> ~ In w (flatten (p1 ++ p2)) -> NoDup (flatten (p1 ++ p2)) -> scorer_ok s = true ->
  PositionalShared_proofs.scorer_nonneg_b s = true ->
  rank_scores s n_cands (S (length (p1 ++ p2))) = Some sc' ->
  get_n_best Qle_bool (dconv (pos_img s n_cands) (pre_b ++ (p1 ++ p2, wgt) :: post_b)) 1 = [Cand (kc w)] ->
  get_n_best Qle_bool (dconv (pos_img s n_cands) (pre_b ++ (p1 ++ IP w :: p2, wgt) :: post_b)) 1 = [Cand (kc w)].
Proof.
  intros s n_cands pre_b post_b p1 p2 w wgt sc' Hw Hnin Hnd Hok. rewrite scorer_ok_is_b in Hok.
  exact (PositionalShared_proofs.positional_rank_unranked_nonneg s n_cands pre_b post_b p1 p2 w wgt sc' Hw Hnin Hnd Hok).
Qed.

(* a NEW ballot with the winner alone on top (shared ranks and truncation below it allowed), naming no new candidate and nobody twice *)
Theorem C17_positional_added : forall (s : Convert.scorer) (n_cands : nat) pre_b post_b (rest : ranked) (w : C) (wgt : Q),
  (0 <= wgt)%Q -> NoDup (w :: flatten rest) ->
  (forall c, In c (flatten rest) -> In (kc c) (map fst (dconv (pos_img s n_cands) (pre_b ++ post_b)))) ->
  scorer_ok s = true -> PositionalShared_proofs.scorer_nonneg_b s = true ->
  get_n_best Qle_bool (dconv (pos_img s n_cands) (pre_b ++ post_b)) 1 = [Cand (kc w)] ->
  get_n_best Qle_bool (dconv (pos_img s n_cands) (pre_b ++ (IP w :: rest, wgt) :: post_b)) 1 = [Cand (kc w)].
Proof.
  intros s n_cands pre_b post_b rest w wgt Hw Hnd Hc Hok. rewrite scorer_ok_is_b in Hok.
  exact (PositionalShared_proofs.positional_added_ballot_nonneg s n_cands pre_b post_b rest w wgt Hw Hnd Hc Hok).
Qed.

(* the two extra conditions are needed (all witnesses replayed on the implementation).  Borda(base = -5) has negative scores: {(A,B,C): 1, (B): 1}
   elects A; ranking A FIRST on the second ballot, (B) -> (A,B), makes C win; {(A,B): 1} elects A, the added bullet vote (A) makes B win.
   A candidate twice on the ballot: see the three profiles in [positional_twice_refuted]. *)
Theorem C17_positional_negative_refuted :
  (exists (s : Convert.scorer) (n_cands : nat) pre_b post_b (p1 p2 : ranked) (w : C) (wgt : Q) (sc' : list Q),
    (0 <= wgt)%Q /\ ~ In w (flatten (p1 ++ p2)) /\ NoDup (flatten (p1 ++ p2)) /\ scorer_ok s = true /\
    rank_scores s n_cands (S (length (p1 ++ p2))) = Some sc' /\ (nth (length p1) sc' 0 < 0)%Q /\
    get_n_best Qle_bool (dconv (pos_img s n_cands) (pre_b ++ (p1 ++ p2, wgt) :: post_b)) 1 = [Cand (kc w)] /\
    get_n_best Qle_bool (dconv (pos_img s n_cands) (pre_b ++ (p1 ++ IP w :: p2, wgt) :: post_b)) 1 = [Cand (kc 3%positive)] /\
    w <> 3%positive) /\
  (exists (s : Convert.scorer) (n_cands : nat) pre_b post_b (rest : ranked) (w : C) (wgt : Q),
    (0 <= wgt)%Q /\ NoDup (w :: flatten rest) /\
    (forall c, In c (flatten rest) -> In (kc c) (map fst (dconv (pos_img s n_cands) (pre_b ++ post_b)))) /\
    scorer_ok s = true /\
    get_n_best Qle_bool (dconv (pos_img s n_cands) (pre_b ++ post_b)) 1 = [Cand (kc w)] /\
    get_n_best Qle_bool (dconv (pos_img s n_cands) (pre_b ++ (IP w :: rest, wgt) :: post_b)) 1 = [Cand (kc 2%positive)] /\
    w <> 2%positive).
Proof.
  split; [exact PositionalShared_proofs.positional_rank_unranked_negative_refuted|exact PositionalShared_proofs.positional_added_ballot_negative_refuted].
Qed.

Definition C17_positional_twice_refuted := PositionalShared_proofs.positional_twice_refuted.
Definition C17_positional_shared_examples := PositionalShared_proofs.positional_shared_examples.

(* ==== Copeland / minimax: an UNRANKED winner gets ranked, and an ADDED ballot (Proofs/RaisesAdded_proofs.v), through the model of
   RankedToCondorcetVotes(unranked_at_bottom=True).convert.
   w is not on the ballot p1 ++ p2 (it counts as below everybody ranked there and level with the other unranked candidates) and gets ranked
   between p1 and p2 - bottom, middle or top: the dictionary changes EXACTLY by [rank_gain]: count(w, c) += x for c in p2 and for the
   candidates the new ballot still leaves unranked, count(c, w) -= x for c in p2, nothing else. *)
Theorem C17_ballot_rank_exact : forall (pre post : Hybrids.rvotes) (p1 p2 : ranked) (x : Z) (w a c : C),
  ~ In w (flatten (p1 ++ p2)) -> In w (Hybrids_proofs.cands_of (pre ++ (p1 ++ p2, x) :: post)) ->
  pget0 (Hybrids.pairwise (pre ++ (p1 ++ IP w :: p2, x) :: post)) (a, c) =
  pget0 (Hybrids.pairwise (pre ++ (p1 ++ p2, x) :: post)) (a, c)
  + x * RaisesAdded_proofs.rank_gain (Hybrids_proofs.cands_of (pre ++ (p1 ++ p2, x) :: post)) p1 p2 w a c.
Proof. intros pre post p1 p2 x w a c H1 H2. exact (RaisesAdded_proofs.pairwise_rank_exact pre post p1 p2 x w H1 H2 a c). Qed.

Theorem C17_ballot_rank_raises : forall (pre post : Hybrids.rvotes) (p1 p2 : ranked) (x : Z) (w : C),
  ~ In w (flatten (p1 ++ p2)) -> In w (Hybrids_proofs.cands_of (pre ++ (p1 ++ p2, x) :: post)) ->
  Hybrids_proofs.wf_votes (pre ++ (p1 ++ p2, x) :: post) = true -> Hybrids.pairwise (pre ++ (p1 ++ p2, x) :: post) <> [] ->
  raises_s (Hybrids.pairwise (pre ++ (p1 ++ p2, x) :: post)) (Hybrids.pairwise (pre ++ (p1 ++ IP w :: p2, x) :: post)) w.
Proof. intros pre post p1 p2 x w. exact (RaisesAdded_proofs.pairwise_rank_raises pre post p1 p2 x w). Qed.

Theorem C17_copeland_ballots_rank : forall (pre post : Hybrids.rvotes) (p1 p2 : ranked) (x : Z) (w : C) (so : bool),
  Hybrids_proofs.wf_votes (pre ++ (p1 ++ p2, x) :: post) = true -> ~ In w (flatten (p1 ++ p2)) ->
  copeland false (Hybrids.pairwise (pre ++ (p1 ++ p2, x) :: post)) 1 = [Cand w] ->
  copeland so (Hybrids.pairwise (pre ++ (p1 ++ IP w :: p2, x) :: post)) 1 = [Cand w].
Proof. exact RaisesAdded_proofs.copeland_ballot_rank. Qed.

Theorem C17_minimax_ballots_rank : forall (pre post : Hybrids.rvotes) (p1 p2 : ranked) (x : Z) (w : C) (s : Condorcet.scorer),
  Hybrids_proofs.wf_votes (pre ++ (p1 ++ p2, x) :: post) = true -> ~ In w (flatten (p1 ++ p2)) ->
  minimax s (Hybrids.pairwise (pre ++ (p1 ++ p2, x) :: post)) 1 = [Cand w] ->
  minimax s (Hybrids.pairwise (pre ++ (p1 ++ IP w :: p2, x) :: post)) 1 = [Cand w].
Proof. exact RaisesAdded_proofs.minimax_ballot_rank. Qed.

(* an ADDED ballot r (x units, no new candidate): every entry grows by x times the coefficient of r; the bullet vote for w: count(w, c) += x for
   every other candidate of the profile, nothing else - so Copeland and minimax (all three scorers) keep the sole winner *)
Theorem C17_ballot_added_exact : forall (pre post : Hybrids.rvotes) (r : ranked) (x : Z) (a c : C),
  (forall k, In k (flatten r) -> In k (Hybrids_proofs.cands_of (pre ++ post))) ->
  pget0 (Hybrids.pairwise (pre ++ (r, x) :: post)) (a, c) =
  pget0 (Hybrids.pairwise (pre ++ post)) (a, c) + x * Hybrids_proofs.coef (Hybrids_proofs.cands_of (pre ++ post)) r a c.
Proof. intros pre post r x a c H. exact (RaisesAdded_proofs.pairwise_added_exact pre post r x H a c). Qed.

Theorem C17_ballot_bullet_exact : forall (pre post : Hybrids.rvotes) (x : Z) (w a c : C),
  In w (Hybrids_proofs.cands_of (pre ++ post)) ->
  pget0 (Hybrids.pairwise (pre ++ ([IP w], x) :: post)) (a, c) =
  pget0 (Hybrids.pairwise (pre ++ post)) (a, c)
  + x * (Hybrids_proofs.cnt a [w] * Hybrids_proofs.cnt c (set_diff (Hybrids_proofs.cands_of (pre ++ post)) [w])).
Proof. intros pre post x w a c H. exact (RaisesAdded_proofs.pairwise_bullet_exact pre post x w H a c). Qed.

Theorem C17_copeland_ballots_added_bullet : forall (pre post : Hybrids.rvotes) (x : Z) (w : C) (so : bool),
  Hybrids_proofs.wf_votes (pre ++ post) = true -> 0 <= x ->
  copeland false (Hybrids.pairwise (pre ++ post)) 1 = [Cand w] ->
  copeland so (Hybrids.pairwise (pre ++ ([IP w], x) :: post)) 1 = [Cand w].
Proof. exact RaisesAdded_proofs.copeland_ballot_added_bullet. Qed.

Theorem C17_minimax_ballots_added_bullet : forall (pre post : Hybrids.rvotes) (x : Z) (w : C) (s : Condorcet.scorer),
  Hybrids_proofs.wf_votes (pre ++ post) = true -> 0 <= x ->
  minimax s (Hybrids.pairwise (pre ++ post)) 1 = [Cand w] ->
  minimax s (Hybrids.pairwise (pre ++ ([IP w], x) :: post)) 1 = [Cand w].
Proof. exact RaisesAdded_proofs.minimax_ballot_added_bullet. Qed.

(* a LONGER added ballot (w alone on top, then any items) changes contests among the others, so [raises_s] fails; what holds is [lifts_by .. w x]:
   w gains at least x against everybody, nobody gains against w, any other count grows by at most x.  Minimax with margins and with pairwise
   opposition keeps the sole winner under it (every defeat of w shrinks by at least as much as anybody else's can) ... *)
Theorem C17_ballot_added_lifts : forall (pre post : Hybrids.rvotes) (rest : ranked) (x : Z) (w : C),
  In w (Hybrids_proofs.cands_of (pre ++ post)) -> (forall c, In c (flatten rest) -> In c (Hybrids_proofs.cands_of (pre ++ post))) ->
  Hybrids_proofs.wf_votes (pre ++ (IP w :: rest, x) :: post) = true -> Hybrids.pairwise (pre ++ post) <> [] ->
  RaisesAdded_proofs.lifts_by (Hybrids.pairwise (pre ++ post)) (Hybrids.pairwise (pre ++ (IP w :: rest, x) :: post)) w x.
Proof. exact RaisesAdded_proofs.pairwise_added_lifts. Qed.

Theorem C17_minimax_ballots_added : forall (pre post : Hybrids.rvotes) (rest : ranked) (x : Z) (w : C) (s : Condorcet.scorer),
  s <> WinningVotes ->
  Hybrids_proofs.wf_votes (pre ++ (IP w :: rest, x) :: post) = true ->
  (forall c, In c (flatten rest) -> In c (Hybrids_proofs.cands_of (pre ++ post))) ->
  minimax s (Hybrids.pairwise (pre ++ post)) 1 = [Cand w] ->
  minimax s (Hybrids.pairwise (pre ++ (IP w :: rest, x) :: post)) 1 = [Cand w].
Proof. exact RaisesAdded_proofs.minimax_ballot_added. Qed.

(* ... Copeland and minimax with winning votes do NOT (found on the implementation, minimised, kernel-evaluated on the model).
   Copeland: {(A,D,C): 2, (C,B): 2, (B,D): 2} elects B; one more ballot (B,C) turns the tie C - A into a win of C: first-order tie {C, B}, and
   the default second-order tie-break elects C alone.  Minimax, winning votes: {(B): 2, (D): 4, (A,B): 3} elects B; one more ballot (B,A) makes
   D - A and A - B ties, A and B are both undefeated: tie {A, B}. *)
Theorem C17_copeland_added_long_refuted : exists pre post rest x w,
  Hybrids_proofs.wf_votes (pre ++ (IP w :: rest, x) :: post) = true /\ 0 < x /\
  (forall c, In c (flatten rest) -> In c (Hybrids_proofs.cands_of (pre ++ post))) /\
  copeland false (Hybrids.pairwise (pre ++ post)) 1 = [Cand w] /\ copeland true (Hybrids.pairwise (pre ++ post)) 1 = [Cand w] /\
  copeland false (Hybrids.pairwise (pre ++ (IP w :: rest, x) :: post)) 1 = [TieR [3; 2]%positive] /\
  copeland true (Hybrids.pairwise (pre ++ (IP w :: rest, x) :: post)) 1 = [Cand 3%positive] /\ w <> 3%positive.
Proof. exact RaisesAdded_proofs.copeland_added_long_refuted. Qed.

Theorem C17_minimax_winvotes_added_long_refuted : exists pre post rest x w,
  Hybrids_proofs.wf_votes (pre ++ (IP w :: rest, x) :: post) = true /\ 0 < x /\
  (forall c, In c (flatten rest) -> In c (Hybrids_proofs.cands_of (pre ++ post))) /\
  minimax WinningVotes (Hybrids.pairwise (pre ++ post)) 1 = [Cand w] /\
  minimax WinningVotes (Hybrids.pairwise (pre ++ (IP w :: rest, x) :: post)) 1 = [TieR [1; 2]%positive].
Proof. exact RaisesAdded_proofs.minimax_winvotes_added_long_refuted. Qed.

Definition C17_ballot_rank_example := RaisesAdded_proofs.rank_example.
Definition C17_ballot_added_example := RaisesAdded_proofs.added_example.


(* ... and what IS true of largest remainder (Proofs/LRMono_proofs.v; again not claimed by the property): with the EXACT Hare quota V / n, no previous
   gains and no caps, a party that gains votes while the others keep theirs keeps the seats it holds for certain ([kdget], the plain key) and its
   possible total ([kposs] = plain key + 1 when it is a member of a Tie key), for every over-award policy and any insertion order of the new dictionary;
   the evaluation is always defined on this domain (C17_lr_hare_defined).  The whole-quota stage gives floor(v / q), the remainder stage is get_n_best on
   the fractional parts: a party at or above p afterwards either had its floor dropped (each such drop opens a remainder seat) or was at or above p before. *)
Theorem C17_lr_hare_votes : forall (pol : QuotaDistributor.policy) (votes votes' : list (C * Q)) (n : Z) (p : C) (vp vp' : Q) s1 s2,
  1 <= n -> NoDup (map fst votes) -> NoDup (map fst votes') ->
  (forall c v, In (c, v) votes -> (0 <= v)%Q) -> (forall c v, In (c, v) votes' -> (0 <= v)%Q) -> (0 < QuotaDistributor.qsumv votes)%Q ->
  dget votes p = Some vp -> dget votes' p = Some vp' -> (vp <= vp')%Q ->
  (forall c, c <> p -> dget votes' c = dget votes c) ->
  QuotaDistributor.lr_evaluate Quota.hare true pol votes n [] [] = QuotaDistributor.LR_ok s1 ->
  QuotaDistributor.lr_evaluate Quota.hare true pol votes' n [] [] = QuotaDistributor.LR_ok s2 ->
  QuotaDistributor.kdget s1 p <= QuotaDistributor.kdget s2 p /\ LRMono_proofs.kposs s1 p <= LRMono_proofs.kposs s2 p.
Proof.
  intros pol votes votes' n p vp vp' s1 s2 Hn Hnd Hnd' Hv Hv' Hq Hp Hp' Hle Hoth H1 H2. split.
  - exact (LRMono_proofs.lr_hare_votes_monotone pol votes votes' n p vp vp' s1 s2 Hn Hnd Hnd' Hv Hv' Hq Hp Hp' Hle Hoth H1 H2).
  - exact (LRMono_proofs.lr_hare_votes_monotone_possible pol votes votes' n p vp vp' s1 s2 Hn Hnd Hnd' Hv Hv' Hq Hp Hp' Hle Hoth H1 H2).
Qed.

Theorem C17_lr_hare_defined : forall (pol : QuotaDistributor.policy) (votes : list (C * Q)) (n : Z),
  1 <= n -> NoDup (map fst votes) -> (forall c v, In (c, v) votes -> (0 <= v)%Q) -> (0 < QuotaDistributor.qsumv votes)%Q ->
  exists s, QuotaDistributor.lr_evaluate Quota.hare true pol votes n [] [] = QuotaDistributor.LR_ok s.
Proof. exact LRMono_proofs.lr_hare_defined. Qed.

Definition C17_lr_hare_example := LRMono_proofs.lr_hare_mono_example_tie.

Print Assumptions C17_house.
Print Assumptions C17_house_any.
Print Assumptions C17_votes.
Print Assumptions C17_builtin_strict.
Print Assumptions C17_additive.
Print Assumptions C17_approval.
Print Assumptions C17_plurality.
Print Assumptions C17_positional.
Print Assumptions C17_copeland.
Print Assumptions C17_minimax.
Print Assumptions C17_scorers_nonincreasing.
Print Assumptions C17_schulze_witness.
Print Assumptions C17_schulze_witness_loses.
Print Assumptions C17_schulze_refuted.
Print Assumptions C17_schulze_partial.
Print Assumptions C17_schulze_scores.
Print Assumptions C17_preference_addition_general.
Print Assumptions C17_preference_addition.
Print Assumptions C17_bucklin.
Print Assumptions C17_oklahoma.
Print Assumptions C17_preference_addition_increasing_refuted.
Print Assumptions C17_preference_addition_added.
Print Assumptions C17_bucklin_added.
Print Assumptions C17_oklahoma_added.
Print Assumptions C17_bucklin_added_full_refuted.
Print Assumptions C17_bucklin_shared_refuted.
Print Assumptions C17_decouple_linear.
Print Assumptions C17_preference_addition_split_general.
Print Assumptions C17_preference_addition_shared.
Print Assumptions C17_bucklin_shared.
Print Assumptions C17_oklahoma_shared.
Print Assumptions C17_ballot_pairwise_exact.
Print Assumptions C17_ballot_raises.
Print Assumptions C17_copeland_s.
Print Assumptions C17_minimax_s.
Print Assumptions C17_copeland_ballots.
Print Assumptions C17_minimax_ballots.
Print Assumptions C17_scorers_nonincreasing_all.
Print Assumptions C17_scorer_ok.
Print Assumptions C17_positional_any.
Print Assumptions C17_scorers_conditions_needed.
Print Assumptions C17_preference_addition_leave_shared.
Print Assumptions C17_bucklin_leave_shared.
Print Assumptions C17_oklahoma_leave_shared.
Print Assumptions C17_preference_addition_same_variants.
Print Assumptions C17_preference_addition_leave_pair.
Print Assumptions C17_ballot_leave_exact.
Print Assumptions C17_ballot_leave_raises.
Print Assumptions C17_copeland_ballots_leave.
Print Assumptions C17_minimax_ballots_leave.
Print Assumptions C17_house_exact.
Print Assumptions C17_house_tie.
Print Assumptions C17_votes_full.
Print Assumptions C17_builtin_divisors_ok.
Print Assumptions C17_lr_house_refuted.
Print Assumptions C17_lr_votes_droop_refuted.
Print Assumptions C17_additive_diff.
Print Assumptions C17_additive_added.
Print Assumptions C17_positional_shared.
Print Assumptions C17_scorer_grow_ok.
Print Assumptions C17_positional_leave_shared.
Print Assumptions C17_positional_leave_pair.
Print Assumptions C17_positional_rank_unranked.
Print Assumptions C17_positional_added.
Print Assumptions C17_positional_negative_refuted.
Print Assumptions C17_positional_twice_refuted.
Print Assumptions C17_ballot_rank_exact.
Print Assumptions C17_ballot_rank_raises.
Print Assumptions C17_copeland_ballots_rank.
Print Assumptions C17_minimax_ballots_rank.
Print Assumptions C17_ballot_added_exact.
Print Assumptions C17_ballot_bullet_exact.
Print Assumptions C17_copeland_ballots_added_bullet.
Print Assumptions C17_minimax_ballots_added_bullet.
Print Assumptions C17_ballot_added_lifts.
Print Assumptions C17_minimax_ballots_added.
Print Assumptions C17_copeland_added_long_refuted.
Print Assumptions C17_minimax_winvotes_added_long_refuted.
Print Assumptions C17_lr_hare_votes.
Print Assumptions C17_lr_hare_defined.
