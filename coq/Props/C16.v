(* C16 - Thresholds, quota selectors and open-list jumps are exact at the boundary.
   Property theorems only.  Model: Model/Threshold.v (+ QuotaSelector in
   Model/QuotaDistributor.v); proofs: Proofs/Threshold_proofs.v.
   All comparisons are on exact rationals: "on the threshold" is == in Q. *)
From Coq Require Import ZArith QArith List Bool Arith Permutation.
From VL Require Import Prelude.PyDict Model.GetNBest Model.QuotaDistributor Model.Threshold
     Proofs.GetNBest_proofs Proofs.Threshold_proofs Proofs.TieBreak2_proofs.
Import ListNotations.
Close Scope Q_scope.

Theorem C16_absolute : forall thr ae votes c,
  In c (sel_eval (SAbs thr ae) votes) <->
  exists v, In (c, v) votes /\ ((thr < v)%Q \/ (ae = true /\ (v == thr)%Q)).
Proof. exact absolute_spec. Qed.

(* exact share of the total vote against the threshold *)
Theorem C16_relative : forall thr ae votes c,
  In c (sel_eval (SRel thr ae) votes) <->
  exists v, In (c, v) votes /\
    ((thr < v / qsumv votes)%Q \/ (ae = true /\ (v / qsumv votes == thr)%Q)).
Proof. exact relative_spec. Qed.

(* alternative thresholds pass the union of their parts (any nesting) *)
Theorem C16_alternative : forall parts votes c,
  In c (sel_eval (SAlt parts) votes) <-> exists p, In p parts /\ In c (sel_eval p votes).
Proof. exact alternative_spec. Qed.

(* quota selector: the candidates over (or on) the computed quota, through get_n_best;
   a refusal exactly when more candidates pass than seats and 'select' is off *)
Theorem C16_quota_selector : forall quota ae select votes n,
  qsel_evaluate quota ae select votes n =
    let over := filter (fun cv => fulfills ae (snd cv) (quota (qsumv votes) n)) votes in
    if (n <? Z.of_nat (length over))%Z && negb select then QS_vse
    else QS_ok (get_n_best Qle_bool over (Z.to_nat n)).
Proof. reflexivity. Qed.

(* open list: exactly n distinct list members *)
Theorem C16_openlist_count : forall cfg votes n lst,
  NoDup lst -> NoDup (map fst votes) -> incl (map fst votes) lst -> (1 <= n <= length lst)%nat ->
  let r := openlist_eval cfg votes n lst in
  length r = n /\ NoDup r /\ incl r lst.
Proof. exact openlist_count. Qed.

(* ... the candidates over the jump threshold first, ordered by votes, then the
   remaining list members in list order *)
Theorem C16_openlist_structure : forall cfg votes n lst thr,
  NoDup lst -> ol_threshold cfg (qsumv votes) (Z.of_nat n) = Some thr ->
  (length (ol_jumping cfg votes thr) <= n)%nat ->
  let jumping := ol_jumping cfg votes thr in
  openlist_eval cfg votes n lst =
    map fst jumping ++ firstn (n - length jumping) (filter (fun c => negb (cmem c (map fst jumping))) lst)
  /\ (forall c, In c (map fst jumping) <->
        exists v, In (c, v) votes /\ ((thr < v)%Q \/ (ol_accept_equal cfg = true /\ (v == thr)%Q)))
  /\ @sorted_desc C Q Qle_bool jumping.
Proof. exact openlist_structure. Qed.

(* ... so nobody is passed over by a lower-listed colleague who did not reach the threshold *)
Theorem C16_no_leapfrog : forall n elected pre a mid b post,
  NoDup (pre ++ a :: mid ++ b :: post) -> (length elected <= n)%nat ->
  ~ In a elected -> ~ In b elected ->
  In b (fill n elected (pre ++ a :: mid ++ b :: post)) ->
  In a (fill n elected (pre ++ a :: mid ++ b :: post)).
Proof. exact fill_no_leapfrog. Qed.

(* the fill-up loop in closed form *)
Theorem C16_fill : forall n lst, NoDup lst -> forall elected, (length elected <= n)%nat ->
  fill n elected lst =
  elected ++ firstn (n - length elected) (filter (fun c => negb (cmem c elected)) lst).
Proof. exact fill_spec. Qed.

(* bracketers (coalition size / candidate property): a candidate passes exactly when the selector configured for its
   bracket value passes it - no selector configured for that bracket means everybody in it passes *)
Theorem C16_bracketer : forall evals default bracket votes c,
  In c (bracket_eval evals default bracket votes) <->
  exists v, In (c, v) votes /\
    match bracket_pick evals default (dget_or bracket c 1%Z) with
    | Some s => In c (sel_eval s votes)
    | None => True
    end.
Proof. exact bracket_eval_spec. Qed.

(* ---------------------------------------------------------------- ListOrderTieBreaker: Tie.break_by_list
   [wf_sel lst el]: every tie in the selection is non-empty, duplicate-free and inside the breaker list
   (a frozenset of list members).  [replaces (Cand c) x] is x = c, [replaces (TieR t) x] is In x t;
   [occ_before el i t] counts the earlier entries that are the same tie (as a set). *)

(* the defining clause: same length, plain entries untouched, every tie entry replaced by a member of
   that tie, the k-th occurrence (k from 0) receiving member k (mod the size) in breaker order.
   The side condition excludes only a one-member tie listed twice (see C16_break_by_list_index_error). *)
Theorem C16_break_by_list : forall lst el,
  wf_sel lst el ->
  (forall t, In (TieR t) el -> length t = 1%nat -> (tcount (ties_of el) t <= 1)%nat) ->
  exists r, break_by_list el lst [] [] = BL_ok r /\
    length r = length el /\
    Forall2 replaces el r /\
    (forall i c, nth_error el i = Some (Cand c) -> nth_error r i = Some c) /\
    (forall i t, nth_error el i = Some (TieR t) ->
       nth_error r i = Some (nth (occ_before el i t mod length t) (sort_by_list lst t) 1%positive)).
Proof. exact break_by_list_defining. Qed.

(* "in the order of the breaker list": sorted(tie, key=breaker.index) is the breaker list filtered to the tie *)
Theorem C16_breaker_order : forall lst t, NoDup lst -> NoDup t -> incl t lst ->
  sort_by_list lst t = filter (fun c => cmem c t) lst.
Proof. exact sort_by_list_closed. Qed.

(* well-shaped selections (each tie listed at most as many times as it has members, plain entries
   distinct and outside the ties, different ties disjoint): distinct entries, no wrap-around *)
Theorem C16_break_by_list_distinct : forall lst el, NoDup lst -> wf_sel lst el -> shaped el ->
  exists r, break_by_list el lst [] [] = BL_ok r /\ NoDup r /\ length r = length el /\
    (forall i c, nth_error el i = Some (Cand c) -> nth_error r i = Some c) /\
    (forall i t, nth_error el i = Some (TieR t) ->
       (occ_before el i t < length t)%nat /\
       nth_error r i = Some (nth (occ_before el i t) (filter (fun c => cmem c t) lst) 1%positive)).
Proof. exact break_by_list_distinct. Qed.

(* exact behaviour outside well-shaped selections.  (a) IndexError exactly when a one-member tie is
   listed twice (ties[item] = sorted_item[1:] stores an empty list, the next ties[item][0] fails) *)
Theorem C16_break_by_list_index_error : forall lst el, wf_sel lst el ->
  (break_by_list el lst [] [] = BL_index <->
   exists t, In (TieR t) el /\ length t = 1%nat /\ (2 <= tcount (ties_of el) t)%nat).
Proof. exact break_by_list_index_error. Qed.
(* (b) a tie of m >= 2 members listed more than m times starts over: the result repeats a candidate
   (the "mod length t" of C16_break_by_list); both replayed on the implementation (corpus/C16/break-by-list-*.json) *)
Example C16_break_by_list_wraps :
  break_by_list [TieR [1; 2]; TieR [1; 2]; TieR [1; 2]]%positive [2; 1]%positive [] [] = BL_ok [2; 1; 2]%positive /\
  break_by_list [TieR [1]; TieR [1]]%positive [2; 1]%positive [] [] = BL_index.
Proof. split; vm_compute; reflexivity. Qed.

(* non-vacuity of the hypotheses: get_n_best's [A, Tie{B,C}, Tie{B,C}] against the list C, A, B *)
Example C16_break_by_list_example :
  let el := [Cand 4; TieR [1; 2]; TieR [1; 2]]%positive in let lst := [2; 4; 1]%positive in
  wf_sel lst el /\ shaped el /\ NoDup lst /\ break_by_list el lst [] [] = BL_ok [4; 2; 1]%positive.
Proof.
  cbv zeta. split; [|split; [|split]].
  - intros t [H|[H|[H|[]]]]; inversion H; subst; (split; [discriminate|split]).
    + repeat constructor; simpl; intuition discriminate.
    + intros c [<-|[<-|[]]]; simpl; auto.
    + repeat constructor; simpl; intuition discriminate.
    + intros c [<-|[<-|[]]]; simpl; auto.
  - constructor.
    + intros t [H|[H|[H|[]]]]; inversion H; subst; vm_compute; auto.
    + simpl. repeat constructor. simpl. tauto.
    + intros c t [H|[H|[H|[]]]]; inversion H; subst. intros [H'|[H'|[H'|[]]]]; inversion H'; subst; simpl; intuition discriminate.
    + intros t t' [H|[H|[H|[]]]] [H'|[H'|[H'|[]]]]; inversion H; inversion H'; subst; left; apply seq_refl.
  - repeat constructor; simpl; intuition discriminate.
  - vm_compute. reflexivity.
Qed.

(* non-vacuity: 5 of 100 at 5 % with accept_equal passes; without it does not *)
Example C16_example_on_threshold :
  sel_eval (SRel (1#20) true) [(1%positive, 5#1); (2%positive, 95#1)]%Q = [2%positive; 1%positive] /\
  sel_eval (SRel (1#20) false) [(1%positive, 5#1); (2%positive, 95#1)]%Q = [2%positive].
Proof. split; vm_compute; reflexivity. Qed.

Print Assumptions C16_absolute.
Print Assumptions C16_relative.
Print Assumptions C16_alternative.
Print Assumptions C16_quota_selector.
Print Assumptions C16_openlist_count.
Print Assumptions C16_openlist_structure.
Print Assumptions C16_no_leapfrog.
Print Assumptions C16_fill.
Print Assumptions C16_bracketer.
Print Assumptions C16_break_by_list.
Print Assumptions C16_breaker_order.
Print Assumptions C16_break_by_list_distinct.
Print Assumptions C16_break_by_list_index_error.
