(* C16 - Thresholds, quota selectors and open-list jumps are exact at the boundary.
   Property theorems only.  Model: Model/Threshold.v (+ QuotaSelector in
   Model/QuotaDistributor.v); proofs: Proofs/Threshold_proofs.v.
   All comparisons are on exact rationals: "on the threshold" is == in Q. *)
From Coq Require Import ZArith QArith List Bool Arith Permutation.
From VL Require Import Prelude.PyDict Model.GetNBest Model.QuotaDistributor Model.Threshold
     Proofs.GetNBest_proofs Proofs.Threshold_proofs.
Import ListNotations.
Close Scope Q_scope.

Theorem C16_absolute : forall thr ae votes c,
  In c (sel_eval (SAbs thr ae) votes) <->
  exists v, In (c, v) votes /\ ((thr < v)%Q \/ (ae = true /\ (v == thr)%Q)).
Proof. exact absolute_spec. Qed.

(* exact share of the total vote against the threshold *)
Theorem C16_relative : forall thr ae votes c,
  In c (sel_eval (SRel thr ae) votes) <->
  exists v, In (c, v) votes /\
    ((thr < v / qsumv votes)%Q \/ (ae = true /\ (v / qsumv votes == thr)%Q)).
Proof. exact relative_spec. Qed.

(* alternative thresholds pass the union of their parts (any nesting) *)
Theorem C16_alternative : forall parts votes c,
  In c (sel_eval (SAlt parts) votes) <-> exists p, In p parts /\ In c (sel_eval p votes).
Proof. exact alternative_spec. Qed.

(* quota selector: the candidates over (or on) the computed quota, through get_n_best;
   a refusal exactly when more candidates pass than seats and 'select' is off *)
Theorem C16_quota_selector : forall quota ae select votes n,
  qsel_evaluate quota ae select votes n =
    let over := filter (fun cv => fulfills ae (snd cv) (quota (qsumv votes) n)) votes in
    if (n <? Z.of_nat (length over))%Z && negb select then QS_vse
    else QS_ok (get_n_best Qle_bool over (Z.to_nat n)).
Proof. reflexivity. Qed.

(* open list: exactly n distinct list members *)
Theorem C16_openlist_count : forall cfg votes n lst,
  NoDup lst -> NoDup (map fst votes) -> incl (map fst votes) lst -> (1 <= n <= length lst)%nat ->
  let r := openlist_eval cfg votes n lst in
  length r = n /\ NoDup r /\ incl r lst.
Proof. exact openlist_count. Qed.

(* ... the candidates over the jump threshold first, ordered by votes, then the
   remaining list members in list order *)
Theorem C16_openlist_structure : forall cfg votes n lst thr,
  NoDup lst -> ol_threshold cfg (qsumv votes) (Z.of_nat n) = Some thr ->
  (length (ol_jumping cfg votes thr) <= n)%nat ->
  let jumping := ol_jumping cfg votes thr in
  openlist_eval cfg votes n lst =
    map fst jumping ++ firstn (n - length jumping) (filter (fun c => negb (cmem c (map fst jumping))) lst)
  /\ (forall c, In c (map fst jumping) <->
        exists v, In (c, v) votes /\ ((thr < v)%Q \/ (ol_accept_equal cfg = true /\ (v == thr)%Q)))
  /\ @sorted_desc C Q Qle_bool jumping.
Proof. exact openlist_structure. Qed.

(* ... so nobody is passed over by a lower-listed colleague who did not reach the threshold *)
Theorem C16_no_leapfrog : forall n elected pre a mid b post,
  NoDup (pre ++ a :: mid ++ b :: post) -> (length elected <= n)%nat ->
  ~ In a elected -> ~ In b elected ->
  In b (fill n elected (pre ++ a :: mid ++ b :: post)) ->
  In a (fill n elected (pre ++ a :: mid ++ b :: post)).
Proof. exact fill_no_leapfrog. Qed.

(* the fill-up loop in closed form *)
Theorem C16_fill : forall n lst, NoDup lst -> forall elected, (length elected <= n)%nat ->
  fill n elected lst =
  elected ++ firstn (n - length elected) (filter (fun c => negb (cmem c elected)) lst).
Proof. exact fill_spec. Qed.

(* bracketers (coalition size / candidate property): a candidate passes exactly when the selector configured for its
   bracket value passes it - no selector configured for that bracket means everybody in it passes *)
Theorem C16_bracketer : forall evals default bracket votes c,
  In c (bracket_eval evals default bracket votes) <->
  exists v, In (c, v) votes /\
    match bracket_pick evals default (dget_or bracket c 1%Z) with
    | Some s => In c (sel_eval s votes)
    | None => True
    end.
Proof. exact bracket_eval_spec. Qed.

(* non-vacuity: 5 of 100 at 5 % with accept_equal passes; without it does not *)
Example C16_example_on_threshold :
  sel_eval (SRel (1#20) true) [(1%positive, 5#1); (2%positive, 95#1)]%Q = [2%positive; 1%positive] /\
  sel_eval (SRel (1#20) false) [(1%positive, 5#1); (2%positive, 95#1)]%Q = [2%positive].
Proof. split; vm_compute; reflexivity. Qed.

Print Assumptions C16_absolute.
Print Assumptions C16_relative.
Print Assumptions C16_alternative.
Print Assumptions C16_quota_selector.
Print Assumptions C16_openlist_count.
Print Assumptions C16_openlist_structure.
Print Assumptions C16_no_leapfrog.
Print Assumptions C16_fill.
Print Assumptions C16_bracketer.
