(* Tie between the quota functions GENERATED from votelib/component/quota.py
   (Gen/Quota.v) and the textbook definitions the theorems are about
   (Model/Quota.v), for votes >= 0 and seats >= 1 (the property's domain). *)
From Coq Require Import ZArith QArith Qround Qreduction Lia Lqa Bool.
From VL Require Import Prelude.PyNum Model.Quota.
From VL Require Gen.Quota.
Open Scope Q_scope.

(* int() truncates; on non-negative rationals that is the floor *)
Lemma py_int_floor x : 0 <= x -> py_int x = qfloor x.
Proof.
  intros H. unfold py_int, qfloor, Qfloor. destruct x as [n d]. simpl.
  f_equal. apply Z.quot_div_nonneg; [|lia]. unfold Qle in H. simpl in H. lia.
Qed.

Lemma py_int_inject z : py_int (inject_Z z) = inject_Z z.
Proof. unfold py_int, inject_Z. simpl. rewrite Z.quot_1_r. reflexivity. Qed.

Lemma qfloor_comp x y : x == y -> qfloor x = qfloor y.
Proof. intros H. unfold qfloor. f_equal. apply Qfloor_comp. exact H. Qed.
Lemma qceil_comp x y : x == y -> qceil x = qceil y.
Proof. intros H. unfold qceil. f_equal. apply Qceiling_comp. exact H. Qed.

Lemma inj_s1 s : inject_Z s + (1 # 1) == inject_Z (s + 1).
Proof. rewrite inject_Z_plus. reflexivity. Qed.
Lemma inj_s2 s : inject_Z s + (2 # 1) == inject_Z (s + 2).
Proof. rewrite inject_Z_plus. reflexivity. Qed.

Lemma div_nonneg v s : (0 <= v)%Z -> (1 <= s)%Z -> 0 <= inject_Z v / inject_Z s.
Proof.
  intros Hv Hs. apply Qle_shift_div_l.
  - rewrite <- (Zlt_Qlt 0). lia.
  - rewrite Qmult_0_l. rewrite <- (Zle_Qle 0). exact Hv.
Qed.

Lemma inj_p1 z : inject_Z (z + 1) == inject_Z z + 1.
Proof. rewrite inject_Z_plus. reflexivity. Qed.
Lemma inj_m1 z : inject_Z (z - 1) == inject_Z z - 1.
Proof. unfold Z.sub. rewrite inject_Z_plus, inject_Z_opp. reflexivity. Qed.

(* ---- floor / ceiling by bounds *)
Lemma floor_unique y z : inject_Z z <= y -> y < inject_Z (z + 1) -> Qfloor y = z.
Proof.
  intros H1 H2.
  assert (Ha : (z <= Qfloor y)%Z).
  { rewrite <- (Qfloor_Z z). apply Qfloor_resp_le. exact H1. }
  assert (Hb : (Qfloor y < z + 1)%Z).
  { rewrite Zlt_Qlt. eapply Qle_lt_trans; [apply Qfloor_le|exact H2]. }
  lia.
Qed.
Lemma ceil_unique y z : inject_Z (z - 1) < y -> y <= inject_Z z -> Qceiling y = z.
Proof.
  intros H1 H2. unfold Qceiling.
  assert (Qfloor (- y) = (- z)%Z); [|lia].
  apply floor_unique.
  - rewrite inject_Z_opp. lra.
  - replace (- z + 1)%Z with (- (z - 1))%Z by lia. rewrite inject_Z_opp. lra.
Qed.

(* ---- round half up *)
Lemma den_le2_true x : py_den_le2 x = true -> exists k : Z, x * (2 # 1) == inject_Z k.
Proof.
  unfold py_den_le2. intros H. apply Z.eqb_eq in H. apply Z.mod_divide in H; [|lia].
  destruct H as [k Hk]. exists k. destruct x as [n d]. cbn [Qnum Qden] in Hk.
  unfold Qeq, Qmult, inject_Z. cbn [Qnum Qden]. rewrite ?Pos.mul_1_r. lia.
Qed.
Lemma den_le2_false x k : py_den_le2 x = false -> ~ x * (2 # 1) == inject_Z k.
Proof.
  unfold py_den_le2. intros H Hk. apply Z.eqb_neq in H. apply H. apply Z.mod_divide; [lia|].
  exists k. destruct x as [n d]. unfold Qeq, Qmult, inject_Z in Hk. cbn [Qnum Qden] in *. rewrite ?Pos.mul_1_r in Hk. lia.
Qed.

Lemma round_half_up_tie x : Gen.Quota._round_half_up x = round_half_up x.
Proof.
  unfold Gen.Quota._round_half_up, round_half_up, qfloor.
  destruct (py_den_le2 x) eqn:E.
  - unfold py_ceil. rewrite py_int_inject. f_equal.
    destruct (den_le2_true x E) as [k Hk].
    destruct (Z.Even_or_Odd k) as [[j Hj]|[j Hj]]; subst k.
    + assert (Hx : x == inject_Z j) by (rewrite inject_Z_mult in Hk; change (inject_Z 2) with (2#1) in Hk; lra).
      assert (Hc : Qceiling x = j).
      { apply ceil_unique.
        - rewrite Hx, inj_m1. lra.
        - rewrite Hx. lra. }
      assert (Hf : Qfloor (x + (1#2)) = j).
      { apply floor_unique.
        - rewrite Hx. lra.
        - rewrite Hx, inj_p1. lra. }
      rewrite Hc, Hf. reflexivity.
    + assert (Hx : x == inject_Z j + (1#2)).
      { rewrite inject_Z_plus, inject_Z_mult in Hk. change (inject_Z 2) with (2#1) in Hk. change (inject_Z 1) with (1#1) in Hk. lra. }
      assert (Hc : Qceiling x = (j + 1)%Z).
      { apply ceil_unique.
        - rewrite Hx. replace (j + 1 - 1)%Z with j by lia. lra.
        - rewrite Hx, inj_p1. lra. }
      assert (Hf : Qfloor (x + (1#2)) = (j + 1)%Z).
      { apply floor_unique.
        - rewrite Hx, inj_p1. lra.
        - rewrite Hx, !inj_p1. lra. }
      rewrite Hc, Hf. reflexivity.
  - unfold py_round.
    pose proof (Qfloor_le x) as Hf1. pose proof (Qlt_floor x) as Hf2.
    rewrite inject_Z_plus in Hf2. change (inject_Z 1) with (1#1) in Hf2.
    set (f := Qfloor x) in *.
    destruct (Qcompare (x - inject_Z f) (1#2)) eqn:Ec.
    + exfalso. apply Qeq_alt in Ec. apply (den_le2_false x (2 * f + 1) E).
      rewrite inject_Z_plus, inject_Z_mult. change (inject_Z 2) with (2#1). change (inject_Z 1) with (1#1). lra.
    + apply Qlt_alt in Ec. rewrite py_int_inject. f_equal. symmetry. apply floor_unique.
      * lra.
      * rewrite inj_p1. lra.
    + apply Qgt_alt in Ec. rewrite py_int_inject. f_equal. symmetry. apply floor_unique.
      * rewrite inj_p1. lra.
      * rewrite !inj_p1. lra.
Qed.

(* ---- the seven registered quotas *)
Section Q.
  Variables v s : Z.
  Hypothesis Hv : (0 <= v)%Z.
  Hypothesis Hs : (1 <= s)%Z.

  Lemma tie_hare : Gen.Quota.hare v s = hare (inject_Z v) s.
  Proof. reflexivity. Qed.
  Lemma tie_hagenbach_bischoff : Gen.Quota.hagenbach_bischoff v s == hagenbach_bischoff (inject_Z v) s.
  Proof. unfold Gen.Quota.hagenbach_bischoff, hagenbach_bischoff, py_frac. rewrite inj_s1. reflexivity. Qed.
  Lemma tie_imperiali : Gen.Quota.imperiali v s == imperiali (inject_Z v) s.
  Proof. unfold Gen.Quota.imperiali, imperiali, py_frac. rewrite inj_s2. reflexivity. Qed.
  Lemma tie_droop : Gen.Quota.droop v s == droop (inject_Z v) s.
  Proof.
    unfold Gen.Quota.droop, droop, py_frac.
    assert (H : inject_Z v / (inject_Z s + (1 # 1)) == inject_Z v / inject_Z (s + 1)) by (rewrite inj_s1; reflexivity).
    rewrite py_int_floor.
    - rewrite (qfloor_comp _ _ H). reflexivity.
    - rewrite H. apply div_nonneg; lia.
  Qed.
  Lemma tie_hb_ceil : Gen.Quota.hagenbach_bischoff_ceil v s == hagenbach_bischoff_ceil (inject_Z v) s.
  Proof.
    unfold Gen.Quota.hagenbach_bischoff_ceil, hagenbach_bischoff_ceil, py_frac, py_ceil.
    rewrite py_int_inject.
    assert (H : inject_Z v / (inject_Z s + (1 # 1)) == inject_Z v / inject_Z (s + 1)) by (rewrite inj_s1; reflexivity).
    fold (qceil (inject_Z v / (inject_Z s + (1 # 1)))). rewrite (qceil_comp _ _ H). reflexivity.
  Qed.
  Lemma int_of_round x : py_int (round_half_up x) = round_half_up x.
  Proof. unfold round_half_up, qfloor. apply py_int_inject. Qed.
  Lemma tie_hare_rounded : Gen.Quota.hare_rounded v s == hare_rounded (inject_Z v) s.
  Proof.
    unfold Gen.Quota.hare_rounded, hare_rounded, py_frac. rewrite round_half_up_tie, int_of_round. reflexivity.
  Qed.
  Lemma tie_hb_rounded : Gen.Quota.hagenbach_bischoff_rounded v s == hagenbach_bischoff_rounded (inject_Z v) s.
  Proof.
    unfold Gen.Quota.hagenbach_bischoff_rounded, hagenbach_bischoff_rounded, py_frac.
    rewrite round_half_up_tie, int_of_round. unfold round_half_up.
    assert (H : inject_Z v / (inject_Z s + (1 # 1)) + (1 # 2) == inject_Z v / inject_Z (s + 1) + (1 # 2)) by (rewrite inj_s1; reflexivity).
    rewrite (qfloor_comp _ _ H). reflexivity.
  Qed.
End Q.

Theorem GenTie_Quota : forall v s, (0 <= v)%Z -> (1 <= s)%Z ->
  Gen.Quota.hare v s == hare (inject_Z v) s /\
  Gen.Quota.hare_rounded v s == hare_rounded (inject_Z v) s /\
  Gen.Quota.droop v s == droop (inject_Z v) s /\
  Gen.Quota.hagenbach_bischoff v s == hagenbach_bischoff (inject_Z v) s /\
  Gen.Quota.hagenbach_bischoff_ceil v s == hagenbach_bischoff_ceil (inject_Z v) s /\
  Gen.Quota.hagenbach_bischoff_rounded v s == hagenbach_bischoff_rounded (inject_Z v) s /\
  Gen.Quota.imperiali v s == imperiali (inject_Z v) s.
Proof.
  intros v s Hv Hs.
  split; [rewrite tie_hare; reflexivity|]. split; [apply tie_hare_rounded|]. split; [apply tie_droop; assumption|].
  split; [apply tie_hagenbach_bischoff|]. split; [apply tie_hb_ceil|]. split; [apply tie_hb_rounded|apply tie_imperiali].
Qed.

(* the quota rules as generated from quota.py return their textbook values *)
Theorem C02_quota_values_generated : forall v s, (0 <= v)%Z -> (1 <= s)%Z ->
  let V := inject_Z v in
  (Gen.Quota.hare v s == V / inject_Z s)%Q /\
  (Gen.Quota.hare_rounded v s == inject_Z (Qfloor (V / inject_Z s + (1 # 2))))%Q /\
  (Gen.Quota.droop v s == inject_Z (Qfloor (V / inject_Z (s + 1))) + 1)%Q /\
  (Gen.Quota.hagenbach_bischoff v s == V / inject_Z (s + 1))%Q /\
  (Gen.Quota.hagenbach_bischoff_ceil v s == inject_Z (Qceiling (V / inject_Z (s + 1))))%Q /\
  (Gen.Quota.hagenbach_bischoff_rounded v s == inject_Z (Qfloor (V / inject_Z (s + 1) + (1 # 2))))%Q /\
  (Gen.Quota.imperiali v s == V / inject_Z (s + 2))%Q.
Proof. exact GenTie_Quota. Qed.
Print Assumptions GenTie_Quota.
Print Assumptions C02_quota_values_generated.
