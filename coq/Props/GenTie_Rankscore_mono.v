(* C17 - the rank scorers GENERATED from votelib/component/rankscore.py (Gen/Rankscore.v) are non-increasing along a ballot.
   Kept apart from Props/C17.v: it speaks about generated code, so it is an obligation only while the translator accepts the source
   (harness/props/c17.py GEN_TIES; otherwise the scorer-nonincreasing correspondence stream stands in). *)
From Coq Require Import ZArith QArith Qpower List Bool Arith Lia Lqa.
From VL Require Import Prelude.PyNum Proofs.Scorers_proofs.
From VL Require Gen.Rankscore.
Open Scope Q_scope.

Lemma gen_dowdall_nonincreasing n r : (0 <= r)%Z ->
  Gen.Rankscore.Dowdall_score n (r + 1) <= Gen.Rankscore.Dowdall_score n r.
Proof.
  intros Hr. unfold Gen.Rankscore.Dowdall_score, py_frac, Qdiv. rewrite !Qmult_1_l.
  change (1 # 1) with (inject_Z 1). rewrite <- !inject_Z_plus. apply qinv_le.
  - apply inject_Z_pos. lia.
  - rewrite <- Zle_Qle. lia.
Qed.

Lemma gen_geometric_nonincreasing base n r : (1 <= base)%Z -> (0 <= r)%Z ->
  Gen.Rankscore.Geometric_score base n (r + 1) <= Gen.Rankscore.Geometric_score base n r.
Proof.
  intros Hb Hr. unfold Gen.Rankscore.Geometric_score, py_frac, py_pow, Qdiv. rewrite !Qmult_1_l.
  rewrite <- !Zpower_Qpower by lia. destruct (zpow_step base r Hb Hr) as [H0 H1]. apply qinv_le.
  - apply inject_Z_pos, H0.
  - rewrite <- Zle_Qle. exact H1.
Qed.

Lemma gen_modified_borda_nonincreasing n r :
  Gen.Rankscore.ModifiedBorda_score n (r + 1) <= Gen.Rankscore.ModifiedBorda_score n r.
Proof. unfold Gen.Rankscore.ModifiedBorda_score. rewrite inject_Z_plus. change (inject_Z 1) with 1. lra. Qed.

Lemma gen_fixed_top_nonincreasing top n r :
  Gen.Rankscore.FixedTop_score top n (r + 1) <= Gen.Rankscore.FixedTop_score top n r.
Proof.
  unfold Gen.Rankscore.FixedTop_score. apply py_max_mono. rewrite inject_Z_plus. change (inject_Z 1) with 1. lra.
Qed.


(* the same inequalities on the per-rank score expressions GENERATED from votelib/component/rankscore.py (Gen/Rankscore.v; tied to
   [rank_scores] by Props/GenTie_Rankscore.v): score(rank + 1) <= score(rank) for every rank >= 0 *)
Theorem C17_gen_scorers_nonincreasing : forall (n r : Z), (0 <= r)%Z ->
  (Gen.Rankscore.Dowdall_score n (r + 1) <= Gen.Rankscore.Dowdall_score n r)%Q /\
  (forall base : Z, (1 <= base)%Z -> Gen.Rankscore.Geometric_score base n (r + 1) <= Gen.Rankscore.Geometric_score base n r)%Q /\
  (Gen.Rankscore.ModifiedBorda_score n (r + 1) <= Gen.Rankscore.ModifiedBorda_score n r)%Q /\
  (forall top : Z, Gen.Rankscore.FixedTop_score top n (r + 1) <= Gen.Rankscore.FixedTop_score top n r)%Q.
Proof.
  intros n r Hr. split; [apply gen_dowdall_nonincreasing, Hr|]. split; [intros base Hb; apply gen_geometric_nonincreasing; assumption|].
  split; [apply gen_modified_borda_nonincreasing|intros top; apply gen_fixed_top_nonincreasing].
Qed.

Print Assumptions C17_gen_scorers_nonincreasing.
