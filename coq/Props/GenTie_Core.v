(* Generated-vs-handwritten tie for the central selection primitive (C09; used by C01 C02 C03 C05 C08 C12 C16 ..):
   votelib/util.py sorted_votes, votelib/evaluate/core.py get_n_best and Plurality.evaluate, regenerated from the source
   on every run as WHOLE BODIES (Gen/Core.v: the stable sort with the key / reverse arguments the source passes, the
   guard cascade, the two index operations with their IndexError, the enumerate loop collecting the tied group, the
   slices, [Tie(tied)] * n_tie_places), ARE the hand-written models of Model/GetNBest.v that the C09 theorems
   (Props/C09.v) are about:

     GenTie_Core_sorted      sorted_votes(votes) / sorted_votes(votes, False) = sort_desc / sort_asc   (all mappings)
     GenTie_Core_get_n_best  for every mapping and every n_seats >= 0 the generated get_n_best raises nothing and
                             returns exactly Model.GetNBest.get_n_best votes n  (n = 0 and n >= number of candidates
                             included, as the Python guards treat them)
     GenTie_Core_plurality   the same for Plurality().evaluate(votes, n_seats)
   The model takes a natural number of seats; the domain n_seats >= 0 is stated as the boolean (0 <=? n)%Z.  For
   n_seats < 0 the model says nothing; the generated code is evaluated there on the CPython values (gen_negative_seats).

   The proofs go through characterising lemmas (Proofs/PySeq_proofs.v: uniqueness of a stable sorted arrangement, the
   loop as (filter, first index)) and case analysis; the loop body is only used through its pointwise behaviour
   (step_tac), so that equivalent spellings of the source (operands of == swapped, early returns instead of else,
   renamed locals, the loop target unpacked in the for clause, [Tie(tied) for _ in range(k)]) leave the proofs intact. *)
From Coq Require Import String.
From Coq Require Import ZArith QArith List Bool Lia Arith ZifyBool.
From VL Require Import Prelude.PyDict Prelude.PyNum Prelude.PyList Prelude.PySeq Model.GetNBest
     Proofs.GetNBest_proofs Proofs.QOrd Proofs.PySeq_proofs.
From VL Require Gen.Core.
Import ListNotations.
Close Scope Q_scope.

(* ---- == on exact rationals is the equivalence of the order the model sorts by *)
Lemma py_eq_eqv a b : py_eq a b = eqv Qle_bool a b.
Proof.
  unfold py_eq, eqv. destruct (Qeq_bool a b) eqn:E.
  - apply Qeq_bool_iff in E. symmetry. apply andb_true_iff. split; apply Qle_bool_iff; rewrite E; apply Qle_refl.
  - destruct (Qle_bool a b) eqn:L1, (Qle_bool b a) eqn:L2; try reflexivity.
    apply Qle_bool_iff in L1, L2. assert (Q : (a == b)%Q) by (apply Qle_antisym; assumption).
    apply Qeq_bool_iff in Q. congruence.
Qed.
Lemma py_eq_eqv' a b : py_eq a b = eqv Qle_bool b a.
Proof. rewrite py_eq_eqv. unfold eqv. apply andb_comm. Qed.

(* ---- util.sorted_votes *)
Lemma tie_sorted_votes_desc : forall votes, Gen.Core.sorted_votes votes true = sort_desc Qle_bool votes.
Proof. intros votes. unfold Gen.Core.sorted_votes. apply (py_sorted_desc Qle_bool Qle_bool_total Qle_bool_trans). Qed.
Print Assumptions tie_sorted_votes_desc.

Lemma tie_sorted_votes_asc : forall votes, Gen.Core.sorted_votes votes false = sort_asc Qle_bool votes.
Proof. intros votes. unfold Gen.Core.sorted_votes. apply (py_sorted_asc Qle_bool Qle_bool_total Qle_bool_trans). Qed.
Print Assumptions tie_sorted_votes_asc.

(* ---- core.get_n_best *)
(* one iteration of the collecting loop, pointwise: whatever the loop body looks like, on a state (tied, first) and an
   item (i, (cand, n_votes)) it appends cand and keeps the first index exactly when n_votes is level with thr *)
Ltac step_tac thr :=
  let t := fresh "t" in let nu := fresh "nu" in let i := fresh "i" in let c := fresh "c" in let v := fresh "v" in
  intros [t nu] [i [c v]]; cbn [fst snd];
  rewrite ?(py_eq_eqv v thr), ?(py_eq_eqv' thr v);
  destruct (eqv Qle_bool v thr); destruct nu; reflexivity.

(* the loop of the generated code, whatever its body: (the candidates level with thr, the index of the first one) *)
Ltac loop_tac thr :=
  match goal with
  | |- context [fold_left ?step (py_enumerate ?s) (?t0, ?n0)] =>
      rewrite (fold_enum_char (fun it : C * Q => eqv Qle_bool (snd it) thr) (@fst C Q) step ltac:(step_tac thr) s)
  end; cbn [fst snd].

Lemma cands_map (l : list (C * Q)) (f : C * Q -> C) :
  (forall it, f it = fst it) -> map (@Cand C) (map f l) = map (fun it => Cand (fst it)) l.
Proof. intros H. rewrite map_map. apply map_ext. intros it. rewrite H. reflexivity. Qed.

(* lists of plain winners: every spelling of "the candidates of these items" *)
Ltac cands_tac := apply cands_map; intros [? ?]; reflexivity.

Lemma gnb_no_seats (votes : list (C * Q)) : get_n_best Qle_bool votes 0 = [].
Proof.
  unfold get_n_best. cbv zeta. destruct (sort_desc Qle_bool votes) as [|[c v] t]; [reflexivity|].
  cbn [length Nat.ltb Nat.leb Nat.sub nth_error first_eq_index snd].
  unfold eqv. rewrite (leb_refl Qle_bool Qle_bool_total). reflexivity.
Qed.

Lemma tie_get_n_best : forall votes n, (0 <=? n)%Z = true ->
  Gen.Core.get_n_best votes n = inl (get_n_best Qle_bool votes (Z.to_nat n)).
Proof.
  intros votes n Hn. apply Z.leb_le in Hn.
  unfold Gen.Core.get_n_best. cbv zeta. rewrite tie_sorted_votes_desc.
  rewrite ?Z.leb_antisym, ?negb_involutive.     (* every test on the length reads n <? len, possibly under negb *)
  destruct (Z.eq_dec n 0) as [->|N0].
  - (* no seats: the threshold is read at index -1 (the LAST item); whichever way the tie test goes the result is [] *)
    change (Z.to_nat 0) with 0%nat. rewrite gnb_no_seats.
    set (s := sort_desc Qle_bool votes). rewrite (py_len_lt_nat s 0 Hn). change (Z.to_nat 0) with 0%nat.
    destruct (Nat.ltb 0 (length s)) eqn:L; cbn [negb].
    2: { apply Nat.ltb_ge in L. destruct s; [reflexivity | cbn [length] in L; lia]. }
    apply Nat.ltb_lt in L.
    change (0 - 1)%Z with (-1)%Z. rewrite py_index_last, (py_index_nonneg s 0) by lia. change (Z.to_nat 0) with 0%nat.
    destruct (nth_error s (length s - 1)) as [[cl vl]|] eqn:El; [|apply nth_error_None in El; lia].
    clearbody s. destruct s as [|[c0 v0] t]; [cbn [length] in L; lia|].
    cbn [nth_error snd].
    rewrite ?(py_eq_eqv v0 vl), ?(py_eq_eqv' vl v0).
    destruct (eqv Qle_bool v0 vl) eqn:T; cbn [negb].
    + loop_tac vl. cbn [find_index snd]. rewrite T. cbn [option_map].
      change (Z.of_nat 0) with 0%Z. rewrite ?py_list_mul_single, ?map_const_range.
      change (0 - 0)%Z with 0%Z. reflexivity.
    + reflexivity.
  - unfold get_n_best. cbv zeta. set (s := sort_desc Qle_bool votes).
    rewrite (py_len_lt_nat s n Hn).
    destruct (Nat.ltb (Z.to_nat n) (length s)) eqn:L; cbn [negb].
    2: { f_equal. cands_tac. }
    apply Nat.ltb_lt in L.
    rewrite (py_index_nonneg s (n - 1)), (py_index_nonneg s n) by lia.
    replace (Z.to_nat (n - 1)) with (Z.to_nat n - 1)%nat by lia.
    destruct (nth_error s (Z.to_nat n - 1)) as [[c1 thr]|] eqn:E1; [|apply nth_error_None in E1; lia].
    destruct (nth_error s (Z.to_nat n)) as [[c2 nxt]|] eqn:E2; [|apply nth_error_None in E2; lia].
    cbn [snd]. rewrite ?(py_eq_eqv nxt thr), ?(py_eq_eqv' thr nxt).
    destruct (eqv Qle_bool nxt thr) eqn:T; cbn [negb].
    + (* tie across the cut *)
      loop_tac thr.
      rewrite (find_index_first_eq Qle_bool thr s) by (exists (c2, nxt); split; [eapply nth_error_In; exact E2 | exact T]).
      cbn [option_map]. f_equal.
      rewrite py_slice_to_nat, ?py_list_mul_single, ?map_const_range. f_equal; [cands_tac|].
      f_equal. lia.
    + f_equal. rewrite (py_slice_to_nonneg s n Hn). cands_tac.
Qed.
Print Assumptions tie_get_n_best.

(* ---- Plurality.evaluate hands over to get_n_best *)
Lemma tie_plurality : forall votes n, (0 <=? n)%Z = true ->
  Gen.Core.Plurality_evaluate votes n = inl (get_n_best Qle_bool votes (Z.to_nat n)).
Proof. intros votes n Hn. unfold Gen.Core.Plurality_evaluate. exact (tie_get_n_best votes n Hn). Qed.
Print Assumptions tie_plurality.

Theorem GenTie_Core_sorted :
  (forall votes, Gen.Core.sorted_votes votes true = sort_desc Qle_bool votes) /\
  (forall votes, Gen.Core.sorted_votes votes false = sort_asc Qle_bool votes).
Proof. exact (conj tie_sorted_votes_desc tie_sorted_votes_asc). Qed.

Theorem GenTie_Core_get_n_best : forall votes n, (0 <=? n)%Z = true ->
  Gen.Core.get_n_best votes n = inl (get_n_best Qle_bool votes (Z.to_nat n)).
Proof. exact tie_get_n_best. Qed.

(* in terms of a natural number of seats: every n, 0 and n > number of candidates included *)
Corollary GenTie_Core_get_n_best_nat : forall votes (n : nat),
  Gen.Core.get_n_best votes (Z.of_nat n) = inl (get_n_best Qle_bool votes n).
Proof.
  intros votes n. rewrite tie_get_n_best by (apply Z.leb_le; lia). rewrite Nat2Z.id. reflexivity.
Qed.

Theorem GenTie_Core_plurality : forall votes n, (0 <=? n)%Z = true ->
  Gen.Core.Plurality_evaluate votes n = inl (get_n_best Qle_bool votes (Z.to_nat n)).
Proof. exact tie_plurality. Qed.

(* non-vacuity: a tie at the cut, no seats, more seats than candidates; stability of the sort *)
Example gen_core_example :
  let votes := [(1%positive, 5#1); (2%positive, 7#2); (3%positive, 7#2); (4%positive, 14#4); (5%positive, 1#1)]%Q in
  Gen.Core.get_n_best votes 2 = inl [Cand 1%positive; TieR [2%positive; 3%positive; 4%positive]] /\
  Gen.Core.get_n_best votes 0 = inl [] /\
  Gen.Core.get_n_best votes 9 = inl (map (@Cand C) [1; 2; 3; 4; 5]%positive) /\
  Gen.Core.sorted_votes [(1%positive, 1#1); (2%positive, 2#1); (3%positive, 1#1); (4%positive, 2#1)]%Q true
    = [(2%positive, 2#1); (4%positive, 2#1); (1%positive, 1#1); (3%positive, 1#1)]%Q.
Proof. vm_compute. repeat split; reflexivity. Qed.

(* outside the model's domain (n_seats < 0) the generated code is what CPython 3.12 does with negative indices:
   get_n_best(votes, -1) drops the last candidate, -2 sees a tie between the items at -3 and -2 and keeps [1] + [Tie] * (-3),
   -6 is past the front: IndexError *)
Example gen_negative_seats :
  let votes := [(1%positive, 5#1); (2%positive, 7#2); (3%positive, 7#2); (4%positive, 14#4); (5%positive, 1#1)]%Q in
  Gen.Core.get_n_best votes (-1) = inl (map (@Cand C) [1; 2; 3; 4]%positive) /\
  Gen.Core.get_n_best votes (-2) = inl [Cand 1%positive] /\
  Gen.Core.get_n_best votes (-6) = inr PyIndexError /\
  Gen.Core.get_n_best [] (-1) = inr PyIndexError.
Proof. vm_compute. repeat split; reflexivity. Qed.

Print Assumptions GenTie_Core_sorted.
Print Assumptions GenTie_Core_get_n_best.
Print Assumptions GenTie_Core_get_n_best_nat.
Print Assumptions GenTie_Core_plurality.
