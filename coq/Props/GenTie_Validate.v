(* Translator tie for C20: the validation code that tools/py2v.py (part 6) reads from votelib/vote.py, votelib/candidate.py
   and votelib/convert.py (Gen/Validate.v: whole method bodies over the object grammar, exceptions as results) answers
   exactly as the model of Model/Validate.v does - acceptance, or a rejection of the same KIND (vote error / candidate
   error / TypeError crash) - for EVERY configuration and EVERY object of the grammar.
   [res_kind] (Prelude/PyObj.v) reads a generated result as a model result; it is undefined on any exception the model has
   no word for, so each theorem also says that no such exception can occur.

   The proofs execute the generated code symbolically: case analysis on the object and the flags, one sequencing lemma
   ([res_kind_bind]) per raising operation, one loop lemma per loop that is stated about an ARBITRARY loop body satisfying a
   per-item specification - so a rewrite of the source that keeps the behaviour of each step keeps the proofs. *)
From Coq Require Import ZArith QArith List Bool Lia.
From VL Require Import Model.Validate Proofs.Validate_proofs Prelude.PyObj Gen.Validate.
Import ListNotations.
Close Scope Q_scope.
Open Scope Z_scope.

(* ---- results *)
Lemma exn_kind_not_ok e r : exn_kind e = Some r -> r <> VOk.
Proof. destruct e; simpl; intros [= <-]; discriminate. Qed.

Lemma andthen_first a b : a <> VOk -> andthen a b = a.
Proof. destruct a; simpl; congruence. Qed.

Lemma andthen_assoc a b c : andthen a (andthen b c) = andthen (andthen a b) c.
Proof. destruct a; reflexivity. Qed.

Lemma andthen_ok_r a : andthen a VOk = a.
Proof. destruct a; reflexivity. Qed.

(* sequencing: a raising operation followed by the rest of the code *)
Lemma res_kind_bind {A B : Type} (r : A + pyvexn) (k : A -> B + pyvexn) a b :
  res_kind r = Some a -> (forall x, r = inl x -> a = VOk -> res_kind (k x) = Some b) ->
  res_kind (match r with inl x => k x | inr e => inr e end) = Some (andthen a b).
Proof.
  destruct r as [x|e]; simpl; intros H1 H2.
  - injection H1 as <-. simpl. apply H2; reflexivity.
  - rewrite andthen_first; [exact H1|]. eapply exn_kind_not_ok; exact H1.
Qed.

(* the same when the value of the operation is dropped and the code ends *)
Lemma res_kind_last {A : Type} (r : A + pyvexn) a :
  res_kind r = Some a -> res_kind (match r with inl _ => inl tt | inr e => inr e end) = Some a.
Proof. destruct r; simpl; trivial. Qed.

(* a loop without state over a body that judges each item *)
Lemma py_for_unit_kind {A : Type} (f : unit -> A -> unit + pyvexn) (g : A -> vresult) l :
  (forall x, In x l -> res_kind (f tt x) = Some (g x)) -> res_kind (py_for l f tt) = Some (all_checks g l).
Proof.
  induction l as [|x t IH]; intros H; [reflexivity|].
  cbn [py_for all_checks]. pose proof (H x (or_introl eq_refl)) as Hx.
  destruct (f tt x) as [[]|e]; simpl in Hx.
  - injection Hx as <-. simpl. apply IH. intros y Hy. apply H. right. exact Hy.
  - simpl. rewrite andthen_first; [exact Hx|]. eapply exn_kind_not_ok; exact Hx.
Qed.

Lemma py_for_unit_ok {A : Type} (f : unit -> A -> unit + pyvexn) (g : A -> vresult) l u :
  (forall x, In x l -> res_kind (f tt x) = Some (g x)) -> py_for l f tt = inl u -> all_checks g l = VOk.
Proof. intros H E. pose proof (py_for_unit_kind f g l H) as K. rewrite E in K. simpl in K. congruence. Qed.

(* ---- nominators: the isinstance cascade of each nominator class, against the table [nominate] *)
Theorem GenTie_nominator : forall nm o, res_kind (Nominator_validate nm o) = Some (check (nominate nm o) VCandError).
Proof.
  intros nm o. destruct nm as [ab|ai ab|ac ab]; destruct o as [k i|n d| |l|l|l]; try destruct k as [|hp| | |];
    repeat match goal with b : bool |- _ => destruct b end; reflexivity.
Qed.

(* ---- the magnitude checker: inclusive bounds, None = unchecked, a non-number against an active bound is a TypeError *)
Definition check_model (b : bounds) (v : pyobj) : vresult :=
  match num_of v with
  | Some x => check (in_bounds b x) VVoteError
  | None => if active b then VCrash else VOk
  end.

Theorem GenTie_checker : forall b v,
  res_kind (VoteMagnitudeChecker_check (fst b) (snd b) v) = Some (check_model b v).
Proof.
  intros [[lo|] [hi|]] v; unfold check_model, VoteMagnitudeChecker_check, VoteMagnitudeChecker_is_valid, in_bounds, active,
    py_ge, py_le, py_gt, py_lt, py_cmp; cbn [fst snd py_is_none negb]; destruct (num_of v) as [x|]; try reflexivity;
    repeat match goal with |- context [Qle_bool ?p ?q] => destruct (Qle_bool p q) end; reflexivity.
Qed.

Theorem GenTie_checker_active : forall b, VoteMagnitudeChecker___bool__ (fst b) (snd b) = active b.
Proof. intros [[lo|] [hi|]]; reflexivity. Qed.

Theorem GenTie_defaulted : forall kb k, DefaultedCheckers___getitem__ (fst kb) (snd kb) k = kb_get kb k.
Proof. intros kb k. reflexivity. Qed.

Lemma check_model_int b n : check_model b (py_int (Z.of_nat n)) = check (in_bounds b (qnat n)) VVoteError.
Proof. reflexivity. Qed.

Arguments Nominator_validate : simpl never.
Arguments VoteMagnitudeChecker_check : simpl never.
Arguments VoteMagnitudeChecker___bool__ : simpl never.
Arguments DefaultedCheckers___getitem__ : simpl never.
Arguments py_frozenset : simpl never.
Arguments py_sum : simpl never.
Arguments py_set_add : simpl never.
Arguments py_set_update : simpl never.
Arguments py_int : simpl never.
Arguments py_len_items : simpl never.
Arguments check_model : simpl never.

(* an object that is no instance of the container a validator asks for *)
Ltac not_container := try (match goal with k : ckind |- _ => destruct k end); reflexivity.

(* ---- SimpleVoteValidator *)
Theorem GenTie_simple : forall nm v, res_kind (SimpleVoteValidator_validate nm v) = Some (validate_simple nm v).
Proof. intros nm v. unfold SimpleVoteValidator_validate, validate_simple. apply res_kind_last, GenTie_nominator. Qed.

(* ---- ApprovalVoteValidator *)
Theorem GenTie_approval : forall nm cnt v,
  res_kind (ApprovalVoteValidator_validate nm cnt v) = Some (validate_approval nm cnt v).
Proof.
  intros nm cnt v. unfold ApprovalVoteValidator_validate, validate_approval.
  destruct v as [k i|n d| |l|l|l]; try not_container.
  simpl. apply res_kind_bind.
  - apply py_for_unit_kind. intros x _. cbv beta zeta. apply res_kind_last, GenTie_nominator.
  - intros _ _ _. apply res_kind_last. rewrite GenTie_checker. reflexivity.
Qed.

(* ---- score ballots.  The model of the base class is the model of Model/Validate.v without the rule of the subclass *)
Definition validate_score_base (nm : nominator) (nsc : bounds) (sums : keyed_bounds) (v : pyobj) : vresult :=
  match v with
  | OFrozen l =>
      andthen (check (in_bounds nsc (qnat (length l))) VVoteError)
     (andthen (all_checks (score_item_check nm) l)
     (andthen (check (nodup_objs (map scored_cand l)) VVoteError)
              (let sb := kb_get sums (Z.of_nat (length l)) in
               if active sb then
                 match sum_scores l with
                 | Some s => check (in_bounds sb s) VVoteError
                 | None => VCrash
                 end
               else VOk)))
  | _ => VVoteError
  end.
Definition score_rule_part (rule : score_rule) (l : list pyobj) : vresult :=
  match rule with
  | SEnum levels => all_checks (fun o => check (existsb (obj_eqb (score_of o)) levels) VVoteError) l
  | SRange b => all_checks (fun o => match num_of (score_of o) with
                                     | Some x => check (in_bounds b x) VVoteError
                                     | None => if active b then VCrash else VOk
                                     end) l
  end.
Lemma validate_score_split nm nsc sums rule v :
  validate_score nm nsc sums rule v =
  match v with OFrozen l => andthen (validate_score_base nm nsc sums v) (score_rule_part rule l) | _ => VVoteError end.
Proof.
  destruct v; try reflexivity. unfold validate_score, validate_score_base, score_rule_part.
  rewrite !andthen_assoc. reflexivity.
Qed.

Definition is_pair (nm : nominator) (o : pyobj) : Prop := exists c s, o = OTuple [c; s] /\ nominate nm c = true.

Lemma score_item_pair nm o : score_item_check nm o = VOk -> is_pair nm o.
Proof.
  unfold score_item_check, is_pair. destruct o as [| | |lo| |]; try discriminate.
  destruct lo as [|c [|s [|x t]]]; try discriminate. unfold check. destruct (nominate nm c) eqn:E; [|discriminate].
  intros _. exists c, s. split; [reflexivity|exact E].
Qed.

Lemma all_pairs nm l : all_checks (score_item_check nm) l = VOk -> Forall (is_pair nm) l.
Proof. intros H. apply all_checks_ok in H. eapply Forall_impl; [|exact H]. intros o. apply score_item_pair. Qed.

Lemma py_mapM_total {A B : Type} (f : A -> B + pyvexn) (g : A -> B) l :
  (forall x, In x l -> f x = inl (g x)) -> py_mapM f l = inl (map g l).
Proof.
  induction l as [|x t IH]; intros H; [reflexivity|]. cbn [py_mapM map].
  rewrite (H x (or_introl eq_refl)), IH; [reflexivity|]. intros y Hy. apply H. right. exact Hy.
Qed.

Lemma py_for_add_hashable xs : forall acc, forallb py_hashable xs = true ->
  py_for xs py_set_add acc = inl (fold_left (fun s o => add_set o s) xs acc).
Proof.
  induction xs as [|x t IH]; intros acc H; [reflexivity|]. cbn [forallb] in H. apply andb_true_iff in H. destruct H as [Hx Ht].
  cbn [py_for fold_left]. unfold py_set_add at 1. rewrite Hx. apply IH, Ht.
Qed.

Lemma distinct_le (xs : list pyobj) : forall s, (length (fold_left (fun s o => add_set o s) xs s) <= length s + length xs)%nat.
Proof.
  induction xs as [|x t IH]; intros s; simpl; [lia|]. specialize (IH (add_set x s)).
  unfold add_set in *. destruct (existsb (obj_eqb x) s); [lia|rewrite app_length in IH; simpl in IH; lia].
Qed.

Lemma nominate_hashable nm c : nominate nm c = true -> py_hashable c = true.
Proof. destruct c; try reflexivity; destruct nm; discriminate. Qed.

(* sum(): left to right from 0; the model adds from the right - the same number *)
Fixpoint sumopt (xs : list pyobj) : option Q :=
  match xs with
  | [] => Some 0%Q
  | x :: t => match num_of x, sumopt t with Some a, Some s => Some (a + s)%Q | _, _ => None end
  end.
Lemma sum_scores_sumopt l : sum_scores l = sumopt (map score_of l).
Proof. induction l as [|o t IH]; [reflexivity|]. simpl. rewrite IH. reflexivity. Qed.

Lemma num_of_py_num q : num_of (py_num q) = Some q.
Proof. destruct q; reflexivity. Qed.

Lemma py_for_add xs : forall acc qa, num_of acc = Some qa ->
  match sumopt xs with
  | Some s => exists v q, py_for xs py_add acc = inl v /\ num_of v = Some q /\ (q == qa + s)%Q
  | None => py_for xs py_add acc = inr PyTypeError
  end.
Proof.
  induction xs as [|x t IH]; intros acc qa Ha.
  - simpl. exists acc, qa. split; [reflexivity|]. split; [exact Ha|]. ring.
  - cbn [sumopt py_for]. unfold py_add at 1. unfold py_add at 2. rewrite Ha. destruct (num_of x) as [a|]; [|reflexivity].
    specialize (IH (py_num (qa + a)%Q) (qa + a)%Q (num_of_py_num _)).
    destruct (sumopt t) as [s|]; [|exact IH].
    destruct IH as (v & q & E & Hv & Hq). exists v, q. split; [exact E|]. split; [exact Hv|]. rewrite Hq. ring.
Qed.

Lemma in_bounds_compat b x y : (x == y)%Q -> in_bounds b x = in_bounds b y.
Proof.
  intros E. unfold in_bounds. destruct b as [[lo|] [hi|]]; cbn [fst snd]; try reflexivity;
    repeat match goal with
    | |- context [Qle_bool ?p ?q] =>
        let H := fresh in destruct (Qle_bool p q) eqn:H;
        [apply Qle_bool_iff in H | assert (~ (p <= q)%Q) by (intros H'; apply Qle_bool_iff in H'; congruence); clear H]
    end;
    try reflexivity; exfalso;
    repeat match goal with H : ~ _ |- _ => apply H; clear H end;
    try (rewrite E; assumption); try (rewrite <- E; assumption).
Qed.

Lemma py_sum_kind b xs :
  res_kind (match py_sum xs with inl v => VoteMagnitudeChecker_check (fst b) (snd b) v | inr e => inr e end) =
  Some (match sumopt xs with Some s => check (in_bounds b s) VVoteError | None => if active b then VCrash else VCrash end).
Proof.
  unfold py_sum. pose proof (py_for_add xs (py_int 0) 0%Q eq_refl) as H. destruct (sumopt xs) as [s|].
  - destruct H as (v & q & -> & Hv & Hq). rewrite GenTie_checker. unfold check_model. rewrite Hv.
    rewrite (in_bounds_compat b q s); [reflexivity|]. rewrite Hq. ring.
  - rewrite H. destruct (active b); reflexivity.
Qed.

Lemma nodup_check (xs : list pyobj) n (rest : unit + pyvexn) b :
  n = py_len_items xs -> res_kind rest = Some b ->
  res_kind (if (py_len_items (fold_left (fun s o => add_set o s) xs []) <? n)%Z then inr PyVoteError else rest)
  = Some (andthen (check (nodup_objs xs) VVoteError) b).
Proof.
  intros -> H. unfold py_len_items, nodup_objs. pose proof (distinct_le xs []) as Hle. cbn [length Nat.add] in Hle.
  destruct (Z.ltb_spec (Z.of_nat (length (fold_left (fun s o => add_set o s) xs []))) (Z.of_nat (length xs))) as [E|E].
  - assert (E2 : Nat.eqb (length (fold_left (fun s o => add_set o s) xs [])) (length xs) = false) by (apply Nat.eqb_neq; lia).
    rewrite E2. reflexivity.
  - assert (E2 : Nat.eqb (length (fold_left (fun s o => add_set o s) xs [])) (length xs) = true) by (apply Nat.eqb_eq; lia).
    rewrite E2. exact H.
Qed.

(* a loop that judges each item and collects one object per accepted item in a set *)
Lemma py_for_set_kind {A : Type} (f : list pyobj -> A -> list pyobj + pyvexn) (g : A -> vresult) (c : A -> pyobj) l :
  (forall s x, In x l -> match g x with
                         | VOk => f s x = inl (add_set (c x) s)
                         | r => exists e, f s x = inr e /\ exn_kind e = Some r
                         end) ->
  forall s, match all_checks g l with
            | VOk => py_for l f s = inl (fold_left (fun s o => add_set o s) (map c l) s)
            | r => exists e, py_for l f s = inr e /\ exn_kind e = Some r
            end.
Proof.
  induction l as [|x t IH]; intros H s; [reflexivity|].
  cbn [all_checks py_for map fold_left]. pose proof (H s x (or_introl eq_refl)) as Hx.
  assert (Ht : forall s y, In y t -> match g y with
                                     | VOk => f s y = inl (add_set (c y) s)
                                     | r => exists e, f s y = inr e /\ exn_kind e = Some r
                                     end) by (intros s0 y Hy; apply H; right; exact Hy).
  destruct (g x); cbn [andthen]; try (destruct Hx as (e & -> & He); exists e; split; [reflexivity|exact He]).
  rewrite Hx. apply IH, Ht.
Qed.

Lemma nominator_cases nm o :
  if nominate nm o then exists u, Nominator_validate nm o = inl u
  else exists e, Nominator_validate nm o = inr e /\ exn_kind e = Some VCandError.
Proof.
  pose proof (GenTie_nominator nm o) as H. unfold check in H. destruct (Nominator_validate nm o) as [u|e]; simpl in H.
  - destruct (nominate nm o); [exists u; reflexivity|discriminate].
  - destruct (nominate nm o); [destruct e; discriminate|exists e; split; trivial].
Qed.

(* the part after the duplicate test: the sum of the scores against the checker for this number of scorings *)
Ltac score_sum_part nm sums l H0 :=
  rewrite GenTie_checker_active;
  change (DefaultedCheckers___getitem__ (fst sums) (snd sums) (py_len_items l)) with (kb_get sums (Z.of_nat (length l)));
  cbv zeta; destruct (active (kb_get sums (Z.of_nat (length l)))) eqn:Ea; [|reflexivity];
  apply res_kind_last;
  erewrite (py_mapM_total _ score_of); [|intros x Hx; destruct (H0 x Hx) as (c & s & -> & _); reflexivity];
  let Hs := fresh "Hs" in
  pose proof (py_sum_kind (kb_get sums (Z.of_nat (length l))) (map score_of l)) as Hs;
  rewrite <- sum_scores_sumopt, Ea in Hs;
  destruct (py_sum (map score_of l)) as [sv|e]; [|exact Hs];
  destruct (sum_scores l); apply (res_kind_last _ _ Hs).

Theorem GenTie_score_base : forall nm nsc sums v,
  res_kind (ScoreVoteValidator_validate nm nsc sums v) = Some (validate_score_base nm nsc sums v).
Proof.
  intros nm nsc sums v. unfold ScoreVoteValidator_validate, validate_score_base.
  destruct v as [k i|n d| |l|l|l]; try not_container.
  simpl. apply res_kind_bind; [rewrite GenTie_checker; reflexivity|]. intros _ _ _.
  first
  [ (* the shape of the library: a pass over the items, then the set of the scored candidates from a generator expression *)
    apply res_kind_bind;
    [ apply (py_for_unit_kind _ (score_item_check nm)); intros x _; cbv beta zeta;
      destruct x as [k i|n d| |il|il|il]; try not_container;
      destruct il as [|c [|s [|y t]]]; try reflexivity;
      [ simpl; apply res_kind_last, GenTie_nominator
      | cbn [negb py_len]; cbv iota beta;
        destruct (Z.eqb_spec (py_len_items (c :: s :: y :: t)) 2) as [E|E];
        [unfold py_len_items in E; cbn [length] in E; lia|reflexivity] ]
    | intros u _ Hok; apply all_pairs in Hok;
      assert (H0 : forall x, In x l -> is_pair nm x) by (apply Forall_forall; exact Hok);
      erewrite (py_mapM_total _ scored_cand); [|intros x Hx; destruct (H0 x Hx) as (c & s & -> & _); reflexivity];
      unfold py_frozenset; rewrite py_for_add_hashable;
      [ apply nodup_check; [unfold py_len_items; rewrite map_length; reflexivity|];
        score_sum_part nm sums l H0
      | apply forallb_forall; intros c Hc; apply in_map_iff in Hc; destruct Hc as (x & <- & Hx);
        destruct (H0 x Hx) as (c & s & -> & Hn); simpl; eapply nominate_hashable; exact Hn ] ]
  | (* a single pass that also collects the scored candidates in a set *)
    match goal with |- context [py_for l ?f _] =>
      pose proof (py_for_set_kind f (score_item_check nm) scored_cand l) as Hloop end;
    match type of Hloop with ?P -> _ => assert (Hbody : P); [|specialize (Hloop Hbody []); clear Hbody] end;
    [ intros s0 x _; cbv beta zeta;
      destruct x as [k i|n d| |il|il|il];
      try (cbn [score_item_check]; exists PyVoteTypeError; split; [try destruct k; reflexivity|reflexivity]);
      destruct il as [|c [|s [|y t]]];
      try (cbn [score_item_check]; exists PyVoteMagnitudeError; split; [reflexivity|reflexivity]);
      [ cbn [score_item_check scored_cand]; unfold check; pose proof (nominator_cases nm c) as Hn; simpl;
        destruct (nominate nm c) eqn:En;
        [ destruct Hn as [u ->]; unfold py_set_add; rewrite (nominate_hashable nm c En); reflexivity
        | destruct Hn as (e & -> & He); exists e; split; [reflexivity|exact He] ]
      | cbn [score_item_check negb py_len]; cbv iota beta;
        destruct (Z.eqb_spec (py_len_items (c :: s :: y :: t)) 2) as [E|E];
        [unfold py_len_items in E; cbn [length] in E; lia|exists PyVoteMagnitudeError; split; reflexivity] ]
    | destruct (all_checks (score_item_check nm) l) eqn:Hok;
      try (destruct Hloop as (e & -> & He); exact He);
      rewrite Hloop; cbn [andthen]; apply all_pairs in Hok;
      assert (H0 : forall x, In x l -> is_pair nm x) by (apply Forall_forall; exact Hok);
      apply nodup_check; [unfold py_len_items; rewrite map_length; reflexivity|];
      score_sum_part nm sums l H0 ] ].
Qed.

Lemma base_ok_pairs nm nsc sums l : validate_score_base nm nsc sums (OFrozen l) = VOk -> forall x, In x l -> is_pair nm x.
Proof.
  unfold validate_score_base. intros H. apply andthen_ok in H. destruct H as [_ H]. apply andthen_ok in H. destruct H as [H _].
  apply Forall_forall, all_pairs, H.
Qed.

(* the subclass: the base class first, then the rule on every score *)
Ltac score_subclass nm nsc sums rule v :=
  rewrite (validate_score_split nm nsc sums rule v);
  pose proof (GenTie_score_base nm nsc sums v) as Hb;
  destruct v as [k i|n d| |l|l|l];
  try (destruct (ScoreVoteValidator_validate nm nsc sums _) as [u|e]; simpl in Hb; [discriminate|exact Hb]).

Theorem GenTie_enum : forall nm nsc sums levels v,
  res_kind (EnumScoreVoteValidator_validate nm nsc sums levels v) = Some (validate_score nm nsc sums (SEnum levels) v).
Proof.
  intros nm nsc sums levels v. unfold EnumScoreVoteValidator_validate. score_subclass nm nsc sums (SEnum levels) v.
  apply res_kind_bind; [exact Hb|]. intros u _ Hok. simpl. apply res_kind_last.
  apply py_for_unit_kind. intros x Hx. destruct (base_ok_pairs _ _ _ _ Hok x Hx) as (c & s & -> & _).
  simpl. unfold py_in_list. destruct (existsb (obj_eqb s) levels); reflexivity.
Qed.

Theorem GenTie_range : forall nm nsc sums rb v,
  res_kind (RangeVoteValidator_validate nm nsc sums rb v) = Some (validate_score nm nsc sums (SRange rb) v).
Proof.
  intros nm nsc sums rb v. unfold RangeVoteValidator_validate. score_subclass nm nsc sums (SRange rb) v.
  apply res_kind_bind; [exact Hb|]. intros u _ Hok. simpl. apply res_kind_last.
  apply py_for_unit_kind. intros x Hx. destruct (base_ok_pairs _ _ _ _ Hok x Hx) as (c & s & -> & _).
  simpl. apply res_kind_last. rewrite GenTie_checker. reflexivity.
Qed.

(* ---- ranked ballots: one pass collecting the set of candidates and the number of places, per-rank bounds on shared ranks *)
Lemma scan_cons ranks i o rest t c :
  ranked_scan ranks i (o :: rest) t c =
  match ranked_scan ranks i [o] t c with
  | (VOk, t', c') => ranked_scan ranks (i + 1) rest t' c'
  | r => r
  end.
Proof.
  destruct o; cbn [ranked_scan];
    repeat match goal with |- context [if ?b then _ else _] => destruct b end; reflexivity.
Qed.

(* what one round of the loop has to do, in terms of the model on a one-item ballot *)
Definition round_spec (ranks : keyed_bounds) (f : list pyobj * Z -> Z * pyobj -> (list pyobj * Z) + pyvexn) : Prop :=
  forall ac t i o,
    match ranked_scan ranks i [o] t ac with
    | (VOk, t', c') => f (ac, Z.of_nat t) (i, o) = inl (c', Z.of_nat t')
    | (r, _, _) => exists e, f (ac, Z.of_nat t) (i, o) = inr e /\ exn_kind e = Some r
    end.

Definition enum_from (k : nat) (items : list pyobj) : list (Z * pyobj) := combine (map Z.of_nat (seq k (length items))) items.

Lemma ranked_loop ranks f : round_spec ranks f -> forall items k t ac,
  match ranked_scan ranks (Z.of_nat k) items t ac with
  | (VOk, t', c') => py_for (enum_from k items) f (ac, Z.of_nat t) = inl (c', Z.of_nat t')
  | (r, _, _) => exists e, py_for (enum_from k items) f (ac, Z.of_nat t) = inr e /\ exn_kind e = Some r
  end.
Proof.
  intros Hf. induction items as [|o rest IH]; intros k t ac; [reflexivity|].
  rewrite scan_cons. pose proof (Hf ac t (Z.of_nat k) o) as H1.
  change (enum_from k (o :: rest)) with ((Z.of_nat k, o) :: enum_from (S k) rest). cbn [py_for].
  destruct (ranked_scan ranks (Z.of_nat k) [o] t ac) as [[r t'] c'].
  destruct r; try (destruct H1 as (e & -> & He); exists e; split; [reflexivity|exact He]).
  rewrite H1. replace (Z.of_nat k + 1) with (Z.of_nat (S k)) by lia. apply IH.
Qed.

Lemma checker_cases b v :
  match check_model b v with
  | VOk => exists u, VoteMagnitudeChecker_check (fst b) (snd b) v = inl u
  | r => exists e, VoteMagnitudeChecker_check (fst b) (snd b) v = inr e /\ exn_kind e = Some r
  end.
Proof.
  pose proof (GenTie_checker b v) as H. destruct (VoteMagnitudeChecker_check (fst b) (snd b) v) as [u|e]; simpl in H.
  - injection H as <-. exists u. reflexivity.
  - pose proof (exn_kind_not_ok _ _ H) as Hn. destruct (check_model b v); try congruence; exists e; split; trivial.
Qed.

Theorem GenTie_ranked : forall nm tot ranks v,
  res_kind (RankedVoteValidator_validate nm tot ranks v) = Some (validate_ranked nm tot ranks v).
Proof.
  intros nm tot ranks v. unfold RankedVoteValidator_validate, validate_ranked.
  destruct v as [k i|n d| |items|l|l]; try not_container.
  cbn [negb py_iter]. cbv iota beta zeta.
  match goal with |- context [py_for (py_enumerate items) ?f _] =>
    assert (Hround : round_spec ranks f); [|pose proof (ranked_loop ranks f Hround items 0%nat 0%nat []) as Hloop] end.
  { intros ac t i o. destruct o as [k j|n d| |lt|lf|ll]; [destruct k| | | | |].
    1-8,10: (cbv beta iota zeta; cbn [ranked_scan fst snd]; cbv iota beta zeta; unfold py_set_add, py_hashable;
      match goal with |- context [hashable ?x] => destruct (hashable x) end; cbv iota beta zeta;
      [f_equal; f_equal; lia | exists PyTypeError; split; reflexivity]).
    cbv beta iota zeta. cbn [ranked_scan fst snd py_len]. cbv iota beta zeta.
    change (DefaultedCheckers___getitem__ (fst ranks) (snd ranks) (i + 1)) with (kb_get ranks (i + 1)).
    pose proof (checker_cases (kb_get ranks (i + 1)) (py_int (py_len_items lf))) as Hc.
    unfold py_len_items in Hc at 1. rewrite check_model_int in Hc. unfold check in Hc.
    destruct (in_bounds (kb_get ranks (i + 1)) (qnat (length lf))).
    - destruct Hc as [u ->]. unfold py_set_update. f_equal. f_equal. unfold py_len_items. lia.
    - destruct Hc as (e & -> & He). exists e. split; [reflexivity|exact He]. }
  change (py_enumerate items) with (enum_from 0 items). change (Z.of_nat 0) with 0 in Hloop.
  destruct (ranked_scan ranks 0 items 0 []) as [[r total] cands].
  destruct r; try (destruct Hloop as (e & -> & He); exact He).
  rewrite Hloop. cbv iota beta zeta.
  apply res_kind_bind; [rewrite GenTie_checker; apply f_equal, check_model_int|]. intros _ _ _.
  unfold py_len_items. unfold check at 1.
  destruct (Z.ltb_spec (Z.of_nat (length cands)) (Z.of_nat total)) as [E|E].
  - assert (E2 : Nat.ltb (length cands) total = true) by (apply Nat.ltb_lt; lia). rewrite E2. reflexivity.
  - assert (E2 : Nat.ltb (length cands) total = false) by (apply Nat.ltb_ge; lia). rewrite E2. cbn [negb andthen].
    apply res_kind_last, py_for_unit_kind. intros x _. cbv beta zeta. apply res_kind_last, GenTie_nominator.
Qed.

(* ---- InvalidVoteEliminator.convert: ballots rejected with a VoteError are collected and deleted from a copy of the dictionary;
   any other exception of the validator propagates.  The dictionary is an association list with pairwise different keys. *)
Lemma obj_eqb_refl : forall o, obj_eqb o o = true.
Proof.
  fix IH 1. intros o.
  assert (HL : forall l : list pyobj, (forall x, In x l -> obj_eqb x x = true) ->
     (fix list_eqb (l m : list pyobj) {struct l} : bool :=
        match l, m with
        | [], [] => true
        | x :: l', y :: m' => obj_eqb x y && list_eqb l' m'
        | _, _ => false
        end) l l = true).
  { induction l as [|a t IHt]; intros H; [reflexivity|]. rewrite (H a (or_introl eq_refl)). apply IHt. intros x Hx. apply H. right. exact Hx. }
  destruct o as [k i|n d| |l|l|l]; cbn [obj_eqb].
  - destruct k as [|hp| | |]; cbn [ckind_eqb andb]; try apply Pos.eqb_refl. rewrite Bool.eqb_reflx. apply Pos.eqb_refl.
  - rewrite Z.eqb_refl. apply Pos.eqb_refl.
  - reflexivity.
  - apply HL. induction l as [|a t IHt]; intros x Hx; [destruct Hx|]. destruct Hx as [<-|Hx]; [apply IH|apply IHt, Hx].
  - apply HL. induction l as [|a t IHt]; intros x Hx; [destruct Hx|]. destruct Hx as [<-|Hx]; [apply IH|apply IHt, Hx].
  - apply HL. induction l as [|a t IHt]; intros x Hx; [destruct Hx|]. destruct Hx as [<-|Hx]; [apply IH|apply IHt, Hx].
Qed.

Fixpoint keys_distinct (votes : list (pyobj * Z)) : bool :=
  match votes with
  | [] => true
  | (k, _) :: t => forallb (fun e => negb (obj_eqb (fst e) k)) t && keys_distinct t
  end.

Definition elim_kind (r : list (pyobj * Z) + pyvexn) : option elim_result :=
  match r with
  | inl kept => Some (EOk kept)
  | inr PyCandidateError => Some ECandError
  | inr PyTypeError => Some ECrash
  | inr _ => None
  end.

Definition is_vote_error (r : vresult) : bool := match r with VVoteError => true | _ => false end.
Definition is_ok (r : vresult) : bool := match r with VOk => true | _ => false end.

(* deleting keys that all differ from the first key leaves the first entry in place *)
Lemma del_skip (k : pyobj) (n : Z) f : (forall d x, f d x = match py_dict_del d x with inl d' => inl d' | inr e => inr e end) ->
  forall ks d d', (forall k', In k' ks -> obj_eqb k' k = false) ->
  py_for ks f d = inl d' -> py_for ks f ((k, n) :: d) = inl ((k, n) :: d').
Proof.
  intros Hf. induction ks as [|x t IH]; intros d d' Hk H.
  - simpl in *. congruence.
  - cbn [py_for] in *. rewrite Hf in *. cbn [py_dict_del]. rewrite (Hk x (or_introl eq_refl)).
    destruct (py_dict_del d x) as [d1|e]; [|discriminate]. apply IH; [|exact H]. intros k' Hk'. apply Hk. right. exact Hk'.
Qed.

Lemma del_filter f : (forall d x, f d x = match py_dict_del d x with inl d' => inl d' | inr e => inr e end) ->
  forall (p : pyobj * Z -> bool) votes, keys_distinct votes = true ->
  py_for (map fst (filter p votes)) f votes = inl (filter (fun e => negb (p e)) votes).
Proof.
  intros Hf p. induction votes as [|[k n] t IH]; intros Hd; [reflexivity|].
  cbn [keys_distinct] in Hd. apply andb_true_iff in Hd. destruct Hd as [Hk Hd]. cbn [filter].
  destruct (p (k, n)); cbn [negb map fst py_for].
  - rewrite Hf. cbn [py_dict_del]. rewrite obj_eqb_refl. apply IH, Hd.
  - apply (del_skip k n f Hf); [|apply IH, Hd]. intros k' Hk'. apply in_map_iff in Hk'. destruct Hk' as (e & <- & He).
    apply filter_In in He. destruct He as [He _]. rewrite forallb_forall in Hk. apply negb_true_iff, Hk, He.
Qed.

(* the collecting loop, for any body that keeps the list on acceptance, appends the ballot on a VoteError and propagates the rest *)
Lemma collect_loop (validator : pyobj -> unit + pyvexn) (validate : pyobj -> vresult) f :
  (forall o, res_kind (validator o) = Some (validate o)) ->
  (forall acc o, f acc o = match validator o with
                           | inl _ => inl acc
                           | inr e => if is_vote_error (match exn_kind e with Some r => r | None => VOk end) then inl (acc ++ [o]) else inr e
                           end) ->
  forall votes acc,
  match eliminate validate votes with
  | EOk kept => py_for (map fst votes) f acc = inl (acc ++ map fst (filter (fun e => is_vote_error (validate (fst e))) votes))
                /\ kept = filter (fun e => negb (is_vote_error (validate (fst e)))) votes
  | ECandError => py_for (map fst votes) f acc = inr PyCandidateError
  | ECrash => py_for (map fst votes) f acc = inr PyTypeError
  end.
Proof.
  intros Hv Hf. induction votes as [|[b n] t IH]; intros acc.
  - simpl. rewrite app_nil_r. split; reflexivity.
  - cbn [eliminate map fst py_for filter]. rewrite Hf. pose proof (Hv b) as Hb.
    destruct (validator b) as [u|e]; simpl in Hb.
    + injection Hb as <-. cbn [is_vote_error negb]. specialize (IH acc).
      destruct (eliminate validate t) as [kept| |]; [|exact IH|exact IH]. destruct IH as [-> ->]. split; reflexivity.
    + rewrite Hb. destruct e; simpl in Hb; try discriminate; injection Hb as <-; cbn [is_vote_error negb]; try reflexivity;
        (specialize (IH (acc ++ [b])); destruct (eliminate validate t) as [kept| |]; [|exact IH|exact IH];
         destruct IH as [-> ->]; split; [rewrite <- app_assoc; reflexivity|reflexivity]).
Qed.

Theorem GenTie_eliminator : forall (validator : pyobj -> unit + pyvexn) (validate : pyobj -> vresult) votes,
  (forall o, res_kind (validator o) = Some (validate o)) -> keys_distinct votes = true ->
  elim_kind (InvalidVoteEliminator_convert validator votes) = Some (eliminate validate votes).
Proof.
  intros validator validate votes Hv Hd. unfold InvalidVoteEliminator_convert. cbv zeta.
  match goal with |- context [py_for (map fst votes) ?f _] =>
    pose proof (collect_loop validator validate f Hv) as Hloop end.
  match type of Hloop with ?P -> _ => assert (Hbody : P); [|specialize (Hloop Hbody votes []); clear Hbody] end.
  { intros acc o. cbv beta zeta. destruct (validator o) as [u|e]; [reflexivity|]. destruct e; reflexivity. }
  pose proof (eliminate_spec validate votes) as Hspec.
  destruct (eliminate validate votes) as [kept| |]; [|rewrite Hloop; reflexivity|rewrite Hloop; reflexivity].
  destruct Hloop as [-> Hkept]. cbn [app]. cbv beta iota zeta.
  destruct (negb (py_len_items (map fst (filter (fun e => is_vote_error (validate (fst e))) votes)) =? 0)) eqn:En.
  - match goal with |- context [py_for _ ?f votes] =>
      rewrite (del_filter f (fun d x => eq_refl) (fun e => is_vote_error (validate (fst e))) votes Hd) end.
    simpl. rewrite Hkept. reflexivity.
  - simpl. apply negb_false_iff, Z.eqb_eq in En. unfold py_len_items in En.
    destruct (filter (fun e => is_vote_error (validate (fst e))) votes) as [|x xs] eqn:Ef; [|simpl in En; lia].
    rewrite Hkept. f_equal. f_equal. clear - Ef. induction votes as [|a t IH]; [reflexivity|]. cbn [filter] in *.
    destruct (is_vote_error (validate (fst a))); [discriminate|]. cbn [negb]. f_equal. apply IH, Ef.
Qed.

(* the filter around each generated validator *)
Corollary GenTie_eliminator_simple : forall nm votes, keys_distinct votes = true ->
  elim_kind (InvalidVoteEliminator_convert (SimpleVoteValidator_validate nm) votes) = Some (eliminate (validate_simple nm) votes).
Proof. intros nm votes. apply GenTie_eliminator, GenTie_simple. Qed.
Corollary GenTie_eliminator_approval : forall nm cnt votes, keys_distinct votes = true ->
  elim_kind (InvalidVoteEliminator_convert (ApprovalVoteValidator_validate nm cnt) votes) = Some (eliminate (validate_approval nm cnt) votes).
Proof. intros nm cnt votes. apply GenTie_eliminator, GenTie_approval. Qed.
Corollary GenTie_eliminator_ranked : forall nm tot ranks votes, keys_distinct votes = true ->
  elim_kind (InvalidVoteEliminator_convert (RankedVoteValidator_validate nm tot ranks) votes)
  = Some (eliminate (validate_ranked nm tot ranks) votes).
Proof. intros nm tot ranks votes. apply GenTie_eliminator, GenTie_ranked. Qed.
Corollary GenTie_eliminator_enum : forall nm nsc sums levels votes, keys_distinct votes = true ->
  elim_kind (InvalidVoteEliminator_convert (EnumScoreVoteValidator_validate nm nsc sums levels) votes)
  = Some (eliminate (validate_score nm nsc sums (SEnum levels)) votes).
Proof. intros nm nsc sums levels votes. apply GenTie_eliminator, GenTie_enum. Qed.
Corollary GenTie_eliminator_range : forall nm nsc sums rb votes, keys_distinct votes = true ->
  elim_kind (InvalidVoteEliminator_convert (RangeVoteValidator_validate nm nsc sums rb) votes)
  = Some (eliminate (validate_score nm nsc sums (SRange rb)) votes).
Proof. intros nm nsc sums rb votes. apply GenTie_eliminator, GenTie_range. Qed.

(* non-vacuity: a two-ballot dictionary with different keys; the generated filter drops the ballot a stub validator rejects *)
Example GenTie_eliminator_example :
  keys_distinct [(OCand KStr 1, 3); (OCand KStr 2, 4)] = true /\
  InvalidVoteEliminator_convert (fun o => if obj_eqb o (OCand KStr 1) then inr PyVoteTypeError else inl tt)
    [(OCand KStr 1, 3); (OCand KStr 2, 4)] = inl [(OCand KStr 2, 4)].
Proof. split; reflexivity. Qed.

Print Assumptions GenTie_nominator.
Print Assumptions GenTie_checker.
Print Assumptions GenTie_checker_active.
Print Assumptions GenTie_defaulted.
Print Assumptions GenTie_simple.
Print Assumptions GenTie_approval.
Print Assumptions GenTie_ranked.
Print Assumptions GenTie_score_base.
Print Assumptions GenTie_enum.
Print Assumptions GenTie_range.
Print Assumptions GenTie_eliminator.
