(* Generated-vs-handwritten tie for approval.QuotaSelector.evaluate (approval.py L215-226): the quota comparison of the
   selection loop and the dictionary of candidates over the quota, regenerated from the source on every run
   (Gen/Approval.v), ARE [fulfills] and the [filter] of [qsel_evaluate] (Model/QuotaDistributor.v) that
   C16_quota_selector (Props/C16.v) is stated with, and the whole method IS [qsel_evaluate] for the two documented settings
   of on_more_over_quota (tie_qsel_whole). *)
From Coq Require Import String.
From Coq Require Import ZArith QArith List Bool Lia Lqa.
From VL Require Import Prelude.PyDict Prelude.PyNum Prelude.PyList Model.GetNBest Model.QuotaDistributor Proofs.QBool_tac.
From VL Require Gen.Approval.
Import ListNotations.
Close Scope Q_scope.

Lemma tie_qsel_test : forall ae qval v, Gen.Approval.QuotaSelector_test ae qval v = fulfills ae v qval.
Proof. intros ae qval v. unfold Gen.Approval.QuotaSelector_test. q_bool. Qed.
Print Assumptions tie_qsel_test.

Lemma tie_qsel_over_quota : forall quota ae votes n,
  Gen.Approval.QuotaSelector_over_quota quota ae votes n =
  filter (fun cv => fulfills ae (snd cv) (quota (qsumv votes) n)) votes.
Proof.
  intros quota ae votes n. unfold Gen.Approval.QuotaSelector_over_quota. cbv zeta.
  change (py_sum_values votes) with (qsumv votes).
  apply filter_ext. intros [c v]. cbn [fst snd]. q_bool.
Qed.
Print Assumptions tie_qsel_over_quota.

(* the model's selector, restated through the generated dictionary *)
Lemma tie_qsel_evaluate : forall quota ae select votes n,
  qsel_evaluate quota ae select votes n =
    let over := Gen.Approval.QuotaSelector_over_quota quota ae votes n in
    if (n <? Z.of_nat (length over))%Z && negb select then QS_vse
    else QS_ok (get_n_best Qle_bool over (Z.to_nat n)).
Proof. intros. cbv zeta. rewrite tie_qsel_over_quota. reflexivity. Qed.
Print Assumptions tie_qsel_evaluate.

(* the whole method, for the two documented settings of on_more_over_quota: VotingSystemError exactly when more candidates
   pass than seats and the setting is 'error', else get_n_best of the passing candidates (votelib.evaluate.core.get_n_best is read
   as [get_n_best Qle_bool], Model/GetNBest.v, tied by the C09 correspondence) *)
Definition qsel_setting (select : bool) : String.string := if select then "select"%string else "error"%string.
Definition qsel_result_of (r : qsel_result) : list (res C) + pyexn :=
  match r with QS_ok l => inl l | QS_vse => inr PyVotingSystemError end.

Lemma tie_qsel_whole : forall quota ae select votes n,
  Gen.Approval.QuotaSelector_evaluate quota ae (qsel_setting select) votes n = qsel_result_of (qsel_evaluate quota ae select votes n).
Proof.
  intros quota ae select votes n. unfold Gen.Approval.QuotaSelector_evaluate, qsel_evaluate. cbv zeta.
  change (py_sum_values votes) with (qsumv votes).
  match goal with |- context [filter ?p votes] =>
    rewrite (filter_ext p (fun cv => fulfills ae (snd cv) (quota (qsumv votes) n))) by (intros [c v]; cbn [fst snd]; q_bool) end.
  unfold py_len. set (over := filter _ votes).
  destruct select; cbn [qsel_setting negb andb];
    repeat match goal with |- context [String.eqb ?a ?b] => let v := eval vm_compute in (String.eqb a b) in change (String.eqb a b) with v end;
    cbn [negb]; destruct (n <? Z.of_nat (length over))%Z; reflexivity.
Qed.
Print Assumptions tie_qsel_whole.

(* C16_quota_selector, restated of the generated method *)
Corollary gen_C16_quota_selector : forall quota ae select votes n,
  Gen.Approval.QuotaSelector_evaluate quota ae (qsel_setting select) votes n =
    let over := filter (fun cv => fulfills ae (snd cv) (quota (py_sum_values votes) n)) votes in
    if (n <? Z.of_nat (length over))%Z && negb select then inr PyVotingSystemError
    else inl (get_n_best Qle_bool over (Z.to_nat n)).
Proof.
  intros quota ae select votes n. rewrite tie_qsel_whole. unfold qsel_evaluate. cbv zeta.
  change (py_sum_values votes) with (qsumv votes).
  destruct ((n <? Z.of_nat (length (filter (fun cv => fulfills ae (snd cv) (quota (qsumv votes) n)) votes)))%Z && negb select); reflexivity.
Qed.
Print Assumptions gen_C16_quota_selector.

Theorem GenTie_Approval :
  (forall ae qval v, Gen.Approval.QuotaSelector_test ae qval v = fulfills ae v qval) /\
  (forall quota ae votes n, Gen.Approval.QuotaSelector_over_quota quota ae votes n =
     filter (fun cv => fulfills ae (snd cv) (quota (qsumv votes) n)) votes) /\
  (forall quota ae select votes n,
     Gen.Approval.QuotaSelector_evaluate quota ae (qsel_setting select) votes n = qsel_result_of (qsel_evaluate quota ae select votes n)).
Proof. exact (conj tie_qsel_test (conj tie_qsel_over_quota tie_qsel_whole)). Qed.

Example gen_qsel_on_quota :
  Gen.Approval.QuotaSelector_test true (50 # 1)%Q (50 # 1)%Q = true /\ Gen.Approval.QuotaSelector_test false (50 # 1)%Q (50 # 1)%Q = false.
Proof. split; reflexivity. Qed.

Print Assumptions GenTie_Approval.
