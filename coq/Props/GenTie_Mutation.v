(* C18 - the generated alias-and-mutation table (Gen/Mutation.v, tools/py2v.py part 6 / tools/mutscan.py) tied to the property.
   Registered through GEN_TIES of harness/props/c18.py: an obligation only while the scan can read the whole package (otherwise the
   check falls back to the dynamic sweep).

   pure_table (a boolean over the finite generated table - one row per (function, parameter) of EVERY function and method of
   votelib/**/*.py, self / *args / **kwargs and the pseudo parameter <globals> included; the row count of a run is in Gen/STATUS.json):
   every row is Untouched or CopiedFirst, except
     (g1) `self` of a constructor;
     (g2) `self` / <globals> rows whose ONLY evidence is a callee resolved by name ("via:"): state reachable from the object or the
          module changed by some method of that name (the PAV coefficient cache, the Borda scorer - Props/C18.v proves those
          history-free; everything else about "no state carried between calls" is the history oracle of the sweep);
     (x)  the explicit list below, each entry with its reason; `direct = false` entries allow only "via:" evidence, so a statement
          that changes the argument IN the listed function itself still breaks the table.
   What the table means for the store model of Props/C18.v is at the end (scan_untouched_args_untouched). *)
From Coq Require Import ZArith List String Bool Arith Lia.
From VL Require Import Gen.Mutation Prelude.Sx Prelude.PyDict Model.Alias.
Import ListNotations.
Open Scope string_scope.

Definition ends_with (suf s : string) : bool :=
  let n := String.length s in let m := String.length suf in
  (m <=? n)%nat && String.eqb (substring (n - m) m s) suf.

Definition is_via (k : string) : bool := prefix "via:" k.

(* (module, qualified name, parameter, direct mutation allowed?, reason) *)
Definition exceptions : list (string * string * string * bool * string) := [
  ("votelib", "VotingSystem.evaluate", "args", false, "by-name call resolution cannot exclude that a method of that name changes this argument; evidence = argument snapshots of the dynamic sweep");
  ("votelib", "VotingSystem.evaluate", "kwargs", false, "by-name call resolution cannot exclude that a method of that name changes this argument; evidence = argument snapshots of the dynamic sweep");
  ("votelib.convert", "_subtract_lowest", "scores", true, "private in-place helper working on a container its caller has just created (the callers rows are judged on their own)");
  ("votelib.convert", "ScoreToSimpleVotes._correct_candidate_scores", "scores", true, "private in-place helper working on a container its caller has just created (the callers rows are judged on their own)");
  ("votelib.persist", "simple_serialization", "class_", true, "infrastructure (serialization decorators and registries, IO streams and iterators, plotting, generators): not an evaluator / converter / validator input; changed in place by design");
  ("votelib.persist", "factory_serialization", "factory", true, "infrastructure (serialization decorators and registries, IO streams and iterators, plotting, generators): not an evaluator / converter / validator input; changed in place by design");
  ("votelib.persist", "factory_serialization", "params", false, "infrastructure (serialization decorators and registries, IO streams and iterators, plotting, generators): not an evaluator / converter / validator input; handed to such a helper");
  ("votelib.persist", "factory_serialization.<locals>.add_to_dict", "func", true, "infrastructure (serialization decorators and registries, IO streams and iterators, plotting, generators): not an evaluator / converter / validator input; changed in place by design");
  ("votelib.persist", "serialize_value", "value", false, "infrastructure (serialization decorators and registries, IO streams and iterators, plotting, generators): not an evaluator / converter / validator input; handed to such a helper");
  ("votelib.persist", "_loadable_class_def", "clsdef", false, "infrastructure (serialization decorators and registries, IO streams and iterators, plotting, generators): not an evaluator / converter / validator input; handed to such a helper");
  ("votelib.persist", "deserialize_value", "value", false, "infrastructure (serialization decorators and registries, IO streams and iterators, plotting, generators): not an evaluator / converter / validator input; handed to such a helper");
  ("votelib.persist", "deserialize_typed", "typedef", false, "infrastructure (serialization decorators and registries, IO streams and iterators, plotting, generators): not an evaluator / converter / validator input; handed to such a helper");
  ("votelib.persist", "deserialize_class", "clsdef", false, "infrastructure (serialization decorators and registries, IO streams and iterators, plotting, generators): not an evaluator / converter / validator input; handed to such a helper");
  ("votelib.persist", "get_object", "identifier", true, "uses globals() to look a name up (read only); the scan refuses reflective functions, the dynamic sweep covers persistence round trips");
  ("votelib.persist", "get_object", "<globals>", true, "uses globals() to look a name up (read only); the scan refuses reflective functions, the dynamic sweep covers persistence round trips");
  ("votelib.persist", "from_dict", "value", false, "infrastructure (serialization decorators and registries, IO streams and iterators, plotting, generators): not an evaluator / converter / validator input; handed to such a helper");
  ("votelib.persist", "to_dict", "obj", false, "infrastructure (serialization decorators and registries, IO streams and iterators, plotting, generators): not an evaluator / converter / validator input; handed to such a helper");
  ("votelib.persist", "sequence_to_json_factory", "typeobj", false, "infrastructure (serialization decorators and registries, IO streams and iterators, plotting, generators): not an evaluator / converter / validator input; handed to such a helper");
  ("votelib.persist", "sequence_to_json_factory.<locals>.sequence_to_json", "seq", false, "infrastructure (serialization decorators and registries, IO streams and iterators, plotting, generators): not an evaluator / converter / validator input; handed to such a helper");
  ("votelib.util", "add_dict_to_dict", "dict1", true, "documented in-place helper: adds dict2 into dict1, which every caller creates itself (sum_dicts copies first)");
  ("votelib.util", "_select_n_random_int", "candidates", true, "private in-place helper working on a container its caller has just created (the callers rows are judged on their own)");
  ("votelib.util", "_select_n_random_int", "cum_weights", true, "private in-place helper working on a container its caller has just created (the callers rows are judged on their own)");
  ("votelib.vote", "EnumScoreVoteValidator.__init__", "sum_bounds", false, "by-name call resolution cannot exclude that a method of that name changes this argument; evidence = argument snapshots of the dynamic sweep");
  ("votelib.vote", "EnumScoreVoteValidator.__init__", "n_scorings_checker", false, "by-name call resolution cannot exclude that a method of that name changes this argument; evidence = argument snapshots of the dynamic sweep");
  ("votelib.vote", "EnumScoreVoteValidator.__init__", "sum_checkers", false, "by-name call resolution cannot exclude that a method of that name changes this argument; evidence = argument snapshots of the dynamic sweep");
  ("votelib.vote", "EnumScoreVoteValidator.__init__", "nominator", false, "by-name call resolution cannot exclude that a method of that name changes this argument; evidence = argument snapshots of the dynamic sweep");
  ("votelib.vote", "RangeVoteValidator.__init__", "sum_bounds", false, "by-name call resolution cannot exclude that a method of that name changes this argument; evidence = argument snapshots of the dynamic sweep");
  ("votelib.vote", "RangeVoteValidator.__init__", "n_scorings_checker", false, "by-name call resolution cannot exclude that a method of that name changes this argument; evidence = argument snapshots of the dynamic sweep");
  ("votelib.vote", "RangeVoteValidator.__init__", "sum_checkers", false, "by-name call resolution cannot exclude that a method of that name changes this argument; evidence = argument snapshots of the dynamic sweep");
  ("votelib.vote", "RangeVoteValidator.__init__", "nominator", false, "by-name call resolution cannot exclude that a method of that name changes this argument; evidence = argument snapshots of the dynamic sweep");
  ("votelib.component.core", "marker", "register", true, "infrastructure (serialization decorators and registries, IO streams and iterators, plotting, generators): not an evaluator / converter / validator input; changed in place by design");
  ("votelib.component.core", "marker.<locals>.mark_function", "<globals>", true, "infrastructure (serialization decorators and registries, IO streams and iterators, plotting, generators): not an evaluator / converter / validator input; changed in place by design");
  ("votelib.component.core", "register_functions", "args", false, "infrastructure (serialization decorators and registries, IO streams and iterators, plotting, generators): not an evaluator / converter / validator input; handed to such a helper");
  ("votelib.component.core", "register_functions", "kwargs", false, "infrastructure (serialization decorators and registries, IO streams and iterators, plotting, generators): not an evaluator / converter / validator input; handed to such a helper");
  ("votelib.component.rankscore", "Borda.set_n_candidates", "self", true, "documented setter of the scorer; C18_history_free_borda: conversions answer as a fresh scorer after any history");
  ("votelib.component.transfer", "distribute_n_random", "cand_weights", false, "by-name call resolution cannot exclude that a method of that name changes this argument; evidence = argument snapshots of the dynamic sweep");
  ("votelib.component.transfer", "Hare._subtract", "cand_alloc", true, "private in-place helper working on a container its caller has just created (the callers rows are judged on their own)");
  ("votelib.component.transfer", "Gregory._subtract", "cand_alloc", true, "private in-place helper working on a container its caller has just created (the callers rows are judged on their own)");
  ("votelib.crit.yee", "diagram", "evaluator", false, "infrastructure (serialization decorators and registries, IO streams and iterators, plotting, generators): not an evaluator / converter / validator input; handed to such a helper");
  ("votelib.crit.yee", "plot", "candidates", true, "infrastructure (serialization decorators and registries, IO streams and iterators, plotting, generators): not an evaluator / converter / validator input; changed in place by design");
  ("votelib.crit.yee", "plot", "ax", true, "infrastructure (serialization decorators and registries, IO streams and iterators, plotting, generators): not an evaluator / converter / validator input; changed in place by design");
  ("votelib.evaluate.approval", "ProportionalApproval.evaluate", "self", true, "the _coefs cache; C18_history_free_pav / C18_pav_table_invariant: history-free");
  ("votelib.evaluate.cardinal", "AllocatedScoreSelector.evaluate", "votes", false, "by-name call resolution cannot exclude that a method of that name changes this argument; evidence = argument snapshots of the dynamic sweep");
  ("votelib.evaluate.core", "MultistageDistributor.evaluate", "votes", false, "by-name call resolution cannot exclude that a method of that name changes this argument; evidence = argument snapshots of the dynamic sweep");
  ("votelib.evaluate.core", "MultistageDistributor.evaluate", "max_seats", false, "by-name call resolution cannot exclude that a method of that name changes this argument; evidence = argument snapshots of the dynamic sweep");
  ("votelib.evaluate.core", "MultistageDistributor._add_stage_results", "elected", true, "in-place accumulation into the dictionary evaluate() obtained from _copy_nested: Props/C18.v C18_args_untouched_multistage / _unused_votes prove the callers prev_gains unchanged for every depth");
  ("votelib.evaluate.core", "UnusedVotesDistributor.evaluate", "votes", false, "by-name call resolution cannot exclude that a method of that name changes this argument; evidence = argument snapshots of the dynamic sweep");
  ("votelib.evaluate.core", "AdjustedSeatCount.evaluate", "votes", false, "by-name call resolution cannot exclude that a method of that name changes this argument; evidence = argument snapshots of the dynamic sweep");
  ("votelib.evaluate.core", "AdjustedSeatCount.evaluate", "prev_gains", false, "by-name call resolution cannot exclude that a method of that name changes this argument; evidence = argument snapshots of the dynamic sweep");
  ("votelib.evaluate.core", "AdjustedSeatCount.evaluate", "max_seats", false, "by-name call resolution cannot exclude that a method of that name changes this argument; evidence = argument snapshots of the dynamic sweep");
  ("votelib.evaluate.core", "AllowOverhang.calculate", "votes", false, "by-name call resolution cannot exclude that a method of that name changes this argument; evidence = argument snapshots of the dynamic sweep");
  ("votelib.evaluate.core", "AllowOverhang.calculate", "max_seats", false, "by-name call resolution cannot exclude that a method of that name changes this argument; evidence = argument snapshots of the dynamic sweep");
  ("votelib.evaluate.core", "LevelOverhang.calculate", "votes", false, "by-name call resolution cannot exclude that a method of that name changes this argument; evidence = argument snapshots of the dynamic sweep");
  ("votelib.evaluate.core", "LevelOverhang.calculate", "max_seats", false, "by-name call resolution cannot exclude that a method of that name changes this argument; evidence = argument snapshots of the dynamic sweep");
  ("votelib.evaluate.core", "LevelOverhangByConstituency.calculate", "votes", false, "by-name call resolution cannot exclude that a method of that name changes this argument; evidence = argument snapshots of the dynamic sweep");
  ("votelib.evaluate.core", "LevelOverhangByConstituency.calculate", "prev_gains", false, "by-name call resolution cannot exclude that a method of that name changes this argument; evidence = argument snapshots of the dynamic sweep");
  ("votelib.evaluate.core", "LevelOverhangByConstituency.calculate", "max_seats", false, "by-name call resolution cannot exclude that a method of that name changes this argument; evidence = argument snapshots of the dynamic sweep");
  ("votelib.evaluate.core", "PostConverted.evaluate", "votes", false, "by-name call resolution cannot exclude that a method of that name changes this argument; evidence = argument snapshots of the dynamic sweep");
  ("votelib.evaluate.core", "PostConverted.evaluate", "args", false, "by-name call resolution cannot exclude that a method of that name changes this argument; evidence = argument snapshots of the dynamic sweep");
  ("votelib.evaluate.core", "PostConverted.evaluate", "kwargs", false, "by-name call resolution cannot exclude that a method of that name changes this argument; evidence = argument snapshots of the dynamic sweep");
  ("votelib.evaluate.core", "PreConverted.evaluate", "votes", false, "by-name call resolution cannot exclude that a method of that name changes this argument; evidence = argument snapshots of the dynamic sweep");
  ("votelib.evaluate.core", "PreConverted.evaluate", "args", false, "by-name call resolution cannot exclude that a method of that name changes this argument; evidence = argument snapshots of the dynamic sweep");
  ("votelib.evaluate.core", "PreConverted.evaluate", "kwargs", false, "by-name call resolution cannot exclude that a method of that name changes this argument; evidence = argument snapshots of the dynamic sweep");
  ("votelib.evaluate.core", "Conditioned.evaluate", "votes", false, "by-name call resolution cannot exclude that a method of that name changes this argument; evidence = argument snapshots of the dynamic sweep");
  ("votelib.evaluate.core", "Conditioned.evaluate", "prev_gains", false, "by-name call resolution cannot exclude that a method of that name changes this argument; evidence = argument snapshots of the dynamic sweep");
  ("votelib.evaluate.core", "Conditioned.evaluate", "kwargs", false, "by-name call resolution cannot exclude that a method of that name changes this argument; evidence = argument snapshots of the dynamic sweep");
  ("votelib.evaluate.core", "ByConstituency.evaluate", "votes", false, "by-name call resolution cannot exclude that a method of that name changes this argument; evidence = argument snapshots of the dynamic sweep");
  ("votelib.evaluate.core", "ByConstituency.evaluate", "n_seats", false, "by-name call resolution cannot exclude that a method of that name changes this argument; evidence = argument snapshots of the dynamic sweep");
  ("votelib.evaluate.core", "ByConstituency.evaluate", "prev_gains", false, "by-name call resolution cannot exclude that a method of that name changes this argument; evidence = argument snapshots of the dynamic sweep");
  ("votelib.evaluate.core", "ByConstituency.evaluate", "max_seats", false, "by-name call resolution cannot exclude that a method of that name changes this argument; evidence = argument snapshots of the dynamic sweep");
  ("votelib.evaluate.core", "ByConstituency._evaluate_district", "votes", false, "by-name call resolution cannot exclude that a method of that name changes this argument; evidence = argument snapshots of the dynamic sweep");
  ("votelib.evaluate.core", "ByConstituency._evaluate_district", "prev_gains", false, "by-name call resolution cannot exclude that a method of that name changes this argument; evidence = argument snapshots of the dynamic sweep");
  ("votelib.evaluate.core", "ByConstituency._evaluate_district", "max_seats", false, "by-name call resolution cannot exclude that a method of that name changes this argument; evidence = argument snapshots of the dynamic sweep");
  ("votelib.evaluate.core", "ByConstituency._preselect", "votes", false, "by-name call resolution cannot exclude that a method of that name changes this argument; evidence = argument snapshots of the dynamic sweep");
  ("votelib.evaluate.core", "ByConstituency._preselect", "n_seats", false, "by-name call resolution cannot exclude that a method of that name changes this argument; evidence = argument snapshots of the dynamic sweep");
  ("votelib.evaluate.core", "PreApportioned.evaluate", "votes", false, "by-name call resolution cannot exclude that a method of that name changes this argument; evidence = argument snapshots of the dynamic sweep");
  ("votelib.evaluate.core", "PreApportioned.evaluate", "n_seats", false, "by-name call resolution cannot exclude that a method of that name changes this argument; evidence = argument snapshots of the dynamic sweep");
  ("votelib.evaluate.core", "PreApportioned.evaluate", "prev_gains", false, "by-name call resolution cannot exclude that a method of that name changes this argument; evidence = argument snapshots of the dynamic sweep");
  ("votelib.evaluate.core", "PreApportioned.evaluate", "max_seats", false, "by-name call resolution cannot exclude that a method of that name changes this argument; evidence = argument snapshots of the dynamic sweep");
  ("votelib.evaluate.core", "RemovedApportionment.evaluate", "votes", false, "by-name call resolution cannot exclude that a method of that name changes this argument; evidence = argument snapshots of the dynamic sweep");
  ("votelib.evaluate.core", "RemovedApportionment.evaluate", "prev_gains", false, "by-name call resolution cannot exclude that a method of that name changes this argument; evidence = argument snapshots of the dynamic sweep");
  ("votelib.evaluate.core", "RemovedApportionment.evaluate", "max_seats", false, "by-name call resolution cannot exclude that a method of that name changes this argument; evidence = argument snapshots of the dynamic sweep");
  ("votelib.evaluate.core", "ByParty.evaluate", "votes", false, "by-name call resolution cannot exclude that a method of that name changes this argument; evidence = argument snapshots of the dynamic sweep");
  ("votelib.evaluate.core", "ByParty.evaluate", "prev_gains", false, "by-name call resolution cannot exclude that a method of that name changes this argument; evidence = argument snapshots of the dynamic sweep");
  ("votelib.evaluate.core", "ByParty.evaluate", "max_seats", false, "by-name call resolution cannot exclude that a method of that name changes this argument; evidence = argument snapshots of the dynamic sweep");
  ("votelib.evaluate.core", "FixedSeatCount.evaluate", "votes", false, "by-name call resolution cannot exclude that a method of that name changes this argument; evidence = argument snapshots of the dynamic sweep");
  ("votelib.evaluate.core", "FixedSeatCount.evaluate", "kwargs", false, "by-name call resolution cannot exclude that a method of that name changes this argument; evidence = argument snapshots of the dynamic sweep");
  ("votelib.evaluate.core", "PartyListEvaluator.evaluate", "votes", false, "by-name call resolution cannot exclude that a method of that name changes this argument; evidence = argument snapshots of the dynamic sweep");
  ("votelib.evaluate.core", "PartyListEvaluator.evaluate", "party_lists", false, "by-name call resolution cannot exclude that a method of that name changes this argument; evidence = argument snapshots of the dynamic sweep");
  ("votelib.evaluate.core", "PartyListEvaluator.evaluate", "list_votes", false, "by-name call resolution cannot exclude that a method of that name changes this argument; evidence = argument snapshots of the dynamic sweep");
  ("votelib.evaluate.core", "PartyListEvaluator.evaluate", "kwargs", false, "by-name call resolution cannot exclude that a method of that name changes this argument; evidence = argument snapshots of the dynamic sweep");
  ("votelib.evaluate.core", "TieBreaking.evaluate", "votes", false, "by-name call resolution cannot exclude that a method of that name changes this argument; evidence = argument snapshots of the dynamic sweep");
  ("votelib.evaluate.core", "TieBreaking.evaluate", "args", false, "by-name call resolution cannot exclude that a method of that name changes this argument; evidence = argument snapshots of the dynamic sweep");
  ("votelib.evaluate.core", "TieBreaking.evaluate", "kwargs", false, "by-name call resolution cannot exclude that a method of that name changes this argument; evidence = argument snapshots of the dynamic sweep");
  ("votelib.evaluate.core", "TieBreaking._replace_distr_ties", "result", true, "private in-place helper working on a container its caller has just created (the callers rows are judged on their own)");
  ("votelib.evaluate.core", "TieBreaking._replace_sel_ties", "result", true, "private in-place helper working on a container its caller has just created (the callers rows are judged on their own)");
  ("votelib.evaluate.core", "apportion", "n_seats", false, "by-name call resolution cannot exclude that a method of that name changes this argument; evidence = argument snapshots of the dynamic sweep");
  ("votelib.evaluate.core", "apportion", "apportioner", false, "by-name call resolution cannot exclude that a method of that name changes this argument; evidence = argument snapshots of the dynamic sweep");
  ("votelib.evaluate.openlist", "ThresholdOpenList.__init__", "quota_function", false, "by-name call resolution cannot exclude that a method of that name changes this argument; evidence = argument snapshots of the dynamic sweep");
  ("votelib.evaluate.openlist", "ListOrderTieBreaker.evaluate", "votes", false, "by-name call resolution cannot exclude that a method of that name changes this argument; evidence = argument snapshots of the dynamic sweep");
  ("votelib.evaluate.proportional", "VotesPerSeat.evaluate", "<globals>", true, "`entitlement -= ...` on a number that may be the float constant INF: rebinding, floats are immutable");
  ("votelib.evaluate.proportional", "VotesPerSeat._decimal_entitlement", "self", true, "sets .rounding on the decimal.localcontext() object, a fresh local context");
  ("votelib.evaluate.proportional", "QuotaDistributor._subtract_overaward", "selected", true, "private in-place helper working on a container its caller has just created (the callers rows are judged on their own)");
  ("votelib.evaluate.proportional", "LargestRemainder.evaluate", "votes", false, "by-name call resolution cannot exclude that a method of that name changes this argument; evidence = argument snapshots of the dynamic sweep");
  ("votelib.evaluate.proportional", "LargestRemainder.evaluate", "prev_gains", false, "by-name call resolution cannot exclude that a method of that name changes this argument; evidence = argument snapshots of the dynamic sweep");
  ("votelib.evaluate.proportional", "LargestRemainder.evaluate", "max_seats", false, "by-name call resolution cannot exclude that a method of that name changes this argument; evidence = argument snapshots of the dynamic sweep");
  ("votelib.evaluate.proportional", "BiproportionalEvaluator.evaluate", "self", true, "_verif_trace: the VOTELIB_VERIF instrumentation hook (fixes/C08-hook), off by default");
  ("votelib.evaluate.proportional", "BiproportionalEvaluator.evaluate", "votes", false, "by-name call resolution cannot exclude that a method of that name changes this argument; evidence = argument snapshots of the dynamic sweep");
  ("votelib.evaluate.proportional", "BiproportionalEvaluator.evaluate", "n_seats", false, "by-name call resolution cannot exclude that a method of that name changes this argument; evidence = argument snapshots of the dynamic sweep");
  ("votelib.evaluate.proportional", "BiproportionalEvaluator._augment_result", "result", true, "private in-place helper working on a container its caller has just created (the callers rows are judged on their own)");
  ("votelib.evaluate.proportional", "BiproportionalEvaluator._augment_result", "districts_labeled", true, "private in-place helper working on a container its caller has just created (the callers rows are judged on their own)");
  ("votelib.evaluate.proportional", "BiproportionalEvaluator._augment_result", "parties_labeled", true, "private in-place helper working on a container its caller has just created (the callers rows are judged on their own)");
  ("votelib.evaluate.proportional", "BiproportionalEvaluator._initial_solution", "votes", false, "by-name call resolution cannot exclude that a method of that name changes this argument; evidence = argument snapshots of the dynamic sweep");
  ("votelib.evaluate.proportional", "BiproportionalEvaluator._initial_solution", "n_seats", false, "by-name call resolution cannot exclude that a method of that name changes this argument; evidence = argument snapshots of the dynamic sweep");
  ("votelib.evaluate.sequential", "TransferableVoteDistributor.next_count", "self", true, "self.transferer.subtract(...) is the transferers own method (its rows are judged on their own), not Counter.subtract");
  ("votelib.evaluate.sequential", "TransferableVoteDistributor.next_count", "allocation", false, "by-name call resolution cannot exclude that a method of that name changes this argument; evidence = argument snapshots of the dynamic sweep");
  ("votelib.evaluate.sequential", "initial_allocation", "<globals>", true, "in-place step on a working copy owned by the caller inside the library (the public callers rows are judged on their own)");
  ("votelib.evaluate.sequential", "TransferableVoteSelector.next_count", "allocation", false, "by-name call resolution cannot exclude that a method of that name changes this argument; evidence = argument snapshots of the dynamic sweep");
  ("votelib.evaluate.sequential", "PreferenceAddition._add_round_votes", "total_votes", true, "private in-place helper working on a container its caller has just created (the callers rows are judged on their own)");
  ("votelib.evaluate.sequential", "TidemanAlternative.evaluate", "votes", false, "by-name call resolution cannot exclude that a method of that name changes this argument; evidence = argument snapshots of the dynamic sweep");
  ("votelib.evaluate.sequential", "TidemanAlternative.run_tier", "votes", false, "by-name call resolution cannot exclude that a method of that name changes this argument; evidence = argument snapshots of the dynamic sweep");
  ("votelib.evaluate.sequential", "TidemanAlternative.get_winner_set", "votes", false, "by-name call resolution cannot exclude that a method of that name changes this argument; evidence = argument snapshots of the dynamic sweep");
  ("votelib.evaluate.sequential", "Benham.evaluate", "votes", false, "by-name call resolution cannot exclude that a method of that name changes this argument; evidence = argument snapshots of the dynamic sweep");
  ("votelib.evaluate.sequential", "Benham.get_condorcet_winner", "votes", false, "by-name call resolution cannot exclude that a method of that name changes this argument; evidence = argument snapshots of the dynamic sweep");
  ("votelib.evaluate.threshold", "CoalitionMemberBracketer.evaluate", "votes", false, "by-name call resolution cannot exclude that a method of that name changes this argument; evidence = argument snapshots of the dynamic sweep");
  ("votelib.evaluate.threshold", "PropertyBracketer.evaluate", "votes", false, "by-name call resolution cannot exclude that a method of that name changes this argument; evidence = argument snapshots of the dynamic sweep");
  ("votelib.evaluate.threshold", "AlternativeThresholds.evaluate", "votes", false, "by-name call resolution cannot exclude that a method of that name changes this argument; evidence = argument snapshots of the dynamic sweep");
  ("votelib.evaluate.threshold", "AlternativeThresholds.evaluate", "prev_gains", false, "by-name call resolution cannot exclude that a method of that name changes this argument; evidence = argument snapshots of the dynamic sweep");
  ("votelib.evaluate.threshold", "PreviousGainThreshold.evaluate", "prev_gains", false, "by-name call resolution cannot exclude that a method of that name changes this argument; evidence = argument snapshots of the dynamic sweep");
  ("votelib.io.blt", "load_lines", "blt_lines", true, "infrastructure (serialization decorators and registries, IO streams and iterators, plotting, generators): not an evaluator / converter / validator input; changed in place by design");
  ("votelib.io.core", "dumpers", "line_dumper", true, "infrastructure (serialization decorators and registries, IO streams and iterators, plotting, generators): not an evaluator / converter / validator input; changed in place by design");
  ("votelib.io.core", "dumpers.<locals>.dump", "blt_file", true, "infrastructure (serialization decorators and registries, IO streams and iterators, plotting, generators): not an evaluator / converter / validator input; changed in place by design");
  ("votelib.io.core", "dumpers.<locals>.dump", "args", true, "infrastructure (serialization decorators and registries, IO streams and iterators, plotting, generators): not an evaluator / converter / validator input; changed in place by design");
  ("votelib.io.core", "dumpers.<locals>.dump", "kwargs", true, "infrastructure (serialization decorators and registries, IO streams and iterators, plotting, generators): not an evaluator / converter / validator input; changed in place by design");
  ("votelib.io.core", "dumpers.<locals>.dump", "<globals>", true, "infrastructure (serialization decorators and registries, IO streams and iterators, plotting, generators): not an evaluator / converter / validator input; changed in place by design");
  ("votelib.io.stv", "load_lines", "lines", false, "infrastructure (serialization decorators and registries, IO streams and iterators, plotting, generators): not an evaluator / converter / validator input; handed to such a helper");
  ("votelib.io.stv", "load_lines", "<globals>", true, "infrastructure (serialization decorators and registries, IO streams and iterators, plotting, generators): not an evaluator / converter / validator input; changed in place by design")
].

Definition excepted (r : mrow) (kind : string) : bool :=
  existsb (fun e => match e with (m, q, p, direct, _) =>
             String.eqb m (r_module r) && String.eqb q (r_qual r) && String.eqb p (r_param r) && (direct || is_via kind) end) exceptions.

Definition generic_ok (r : mrow) (kind : string) : bool :=
  (String.eqb (r_param r) "self" && ends_with ".__init__" (r_qual r))
  || ((String.eqb (r_param r) "self" || String.eqb (r_param r) "<globals>") && is_via kind).

Definition pure_row (r : mrow) : bool :=
  match r_class r with
  | Untouched | CopiedFirst _ => true
  | MayMutate _ kind => generic_ok r kind || excepted r kind
  end.

Definition listed (m q p : string) : bool :=
  existsb (fun e => match e with (m', q', p', _, _) => String.eqb m m' && String.eqb q q' && String.eqb p p' end) exceptions.

Definition pure_table : bool :=
  forallb pure_row mutation_table
  && forallb (fun e => match e with (m, q, p) => listed m q p end) not_propagated.

(* the obligation: decided by evaluation over the generated table *)
Theorem C18_pure_table : pure_table = true.
Proof. vm_compute. reflexivity. Qed.

(* read back: every parameter of every public evaluate / convert / validate / calculate / transfer / subtract method and every
   parameter with a shared mutable default object is Untouched or CopiedFirst unless it is one of the stated exceptions *)
Theorem C18_public_and_default_parameters_pure : forall r,
  In r mutation_table -> (r_public r || r_mutdefault r) = true ->
  match r_class r with
  | Untouched | CopiedFirst _ => True
  | MayMutate _ kind => generic_ok r kind = true \/ excepted r kind = true
  end.
Proof.
  intros r Hin _.
  pose proof C18_pure_table as H. unfold pure_table in H. apply andb_prop in H. destruct H as [H _].
  rewrite forallb_forall in H. specialize (H r Hin). unfold pure_row in H.
  destruct (r_class r); auto. apply orb_prop in H. exact H.
Qed.

(* the same for EVERY function of the package (private helpers, module-level functions, nested functions) *)
Theorem C18_every_parameter_pure_or_listed : forall r,
  In r mutation_table ->
  match r_class r with
  | Untouched | CopiedFirst _ => True
  | MayMutate _ kind => generic_ok r kind = true \/ excepted r kind = true
  end.
Proof.
  intros r Hin.
  pose proof C18_pure_table as H. unfold pure_table in H. apply andb_prop in H. destruct H as [H _].
  rewrite forallb_forall in H. specialize (H r Hin). unfold pure_row in H.
  destruct (r_class r); auto. apply orb_prop in H. exact H.
Qed.

(* ---------------------------------------------------------------- what a row means in the store model of Props/C18.v
   A call is a sequence of primitive store operations: writes to existing locations (sput) and allocations (salloc).  The scan's
   claim for an Untouched parameter: no write goes to a location reachable from the argument (R = that set of locations, any
   superset will do).  SOUNDNESS ASSUMPTION of the scan (not proved - the scan is a Python program): its may-alias closure
   over-approximates the run (intraprocedural points-to with by-name call summaries; no setattr / exec / globals() - such functions
   are rejected; callable components leave their arguments alone; dictionary keys and parameters annotated as scalars are
   immutable).  Under it, "Untouched" gives exactly the statement `args_untouched` of Props/C18.v for that argument: every location
   reachable from it holds the same dictionary after the call; CopiedFirst likewise (writes go to fresh locations only). *)
Inductive sop := SWrite (l : loc) (d : sdict) | SAlloc (d : sdict).
Definition sstep (st : store) (o : sop) : store :=
  match o with SWrite l d => sput st l d | SAlloc d => fst (salloc st d) end.
Definition srun (st : store) (ops : list sop) : store := fold_left sstep ops st.
Definition avoids (R : loc -> bool) (ops : list sop) : bool :=
  forallb (fun o => match o with SWrite l _ => negb (R l) | SAlloc _ => true end) ops.

Lemma sput_other : forall st l d l', l' <> l -> sget (sput st l d) l' = sget st l'.
Proof.
  unfold sget. induction st as [|x t IH]; intros l d l' Hne; destruct l; destruct l'; simpl; auto; try congruence.
Qed.

Lemma salloc_old : forall st d l, (l < List.length st)%nat -> sget (fst (salloc st d)) l = sget st l.
Proof. intros st d l Hl. unfold salloc, sget. simpl. apply nth_error_app1. exact Hl. Qed.

Lemma sput_length : forall st l d, List.length (sput st l d) = List.length st.
Proof. induction st as [|x t IH]; intros l d; destruct l; simpl; auto. Qed.

Lemma sstep_length : forall st o, (List.length st <= List.length (sstep st o))%nat.
Proof.
  intros st o. destruct o as [l d|d]; simpl.
  - rewrite sput_length. lia.
  - rewrite app_length. simpl. lia.
Qed.

Theorem scan_untouched_args_untouched : forall (R : loc -> bool) ops st l,
  avoids R ops = true -> R l = true -> (l < List.length st)%nat -> sget (srun st ops) l = sget st l.
Proof.
  intros R ops. induction ops as [|o t IH]; intros st l Hav HR Hl; simpl; auto.
  simpl in Hav. apply andb_prop in Hav. destruct Hav as [Ho Ht].
  change (sget (srun (sstep st o) t) l = sget st l).
  rewrite (IH (sstep st o) l Ht HR).
  - destruct o as [l' d|d]; simpl.
    + apply sput_other. intro E. subst l'. rewrite HR in Ho. discriminate.
    + apply salloc_old. exact Hl.
  - pose proof (sstep_length st o). lia.
Qed.

(* the form used for the table: an Untouched row + the soundness of the scan for that row and that run *)
Definition scan_sound_for (r : mrow) (R : loc -> bool) (ops : list sop) : Prop :=
  r_class r = Untouched -> avoids R ops = true.

Theorem C18_untouched_row_args_untouched : forall r R ops st,
  In r mutation_table -> r_class r = Untouched -> scan_sound_for r R ops ->
  forall l, R l = true -> (l < List.length st)%nat -> sget (srun st ops) l = sget st l.
Proof. intros r R ops st _ Hc Hs l HR Hl. exact (scan_untouched_args_untouched R ops st l (Hs Hc) HR Hl). Qed.

(* CopiedFirst: all writes go to locations allocated during the call - the caller's whole store is as before *)
Theorem C18_copied_first_store_untouched : forall ops st,
  avoids (fun l => l <? List.length st)%nat ops = true ->
  forall l, (l < List.length st)%nat -> sget (srun st ops) l = sget st l.
Proof.
  intros ops st Hav l Hl. apply (scan_untouched_args_untouched (fun l => l <? List.length st)%nat ops st l Hav); auto.
  apply Nat.ltb_lt. exact Hl.
Qed.

(* non-vacuity: a run that allocates a copy, writes into the copy and leaves location 0 (the argument) alone *)
Example C18_scan_model_example :
  let st := [[(1%positive, VInt 1)]] in
  let ops := [SAlloc [(1%positive, VInt 1)]; SWrite 1%nat [(1%positive, VInt 2)]] in
  avoids (fun l => (l <? 1)%nat) ops = true /\ sget (srun st ops) 0%nat = sget st 0%nat /\ sget (srun st ops) 1%nat = Some [(1%positive, VInt 2)].
Proof. vm_compute. repeat split; reflexivity. Qed.

Print Assumptions C18_pure_table.
Print Assumptions C18_public_and_default_parameters_pure.
Print Assumptions C18_every_parameter_pure_or_listed.
Print Assumptions scan_untouched_args_untouched.
Print Assumptions C18_untouched_row_args_untouched.
Print Assumptions C18_copied_first_store_untouched.
