(* C12 - Approval and score family evaluators match their defining optimisation.
   Property theorems only.  Model: Model/Cardinal.v; proofs: Proofs/Cardinal_proofs.v.

   Proved for every approval profile / every seat count: the PAV committee is the unique maximiser
   of the harmonic satisfaction over ALL n-subsets (the itertools.combinations scan is complete
   and sound); every SPAV round elects the strictly best reweighted candidate; score voting and
   majority judgment rank through get_n_best of the exact aggregate (so the C09 theorems apply).
   Majority judgment (every seat count, both tie-breakers): whoever is elected has a (lower) median at
   least that of whoever is not; single seat: the plus tie-break elects the member of the tie with strictly
   the most scores at or above the shared median, the default tie-break elects the strict leader after
   rounds of median removal among the candidates still level, and the winner never falls behind on the way
   (C12_mj_tiebreak_documented; the pinned tree kept the candidates that fell behind in the loop - repaired,
   fixes/C12-mj-default-reentry.diff).
   Justified representation of the PAV committee for weighted ballots: C12_pav_jr (Aziz et al. 2017 swap
   argument; the sharper bound weight * (n+1) <= total is C12_pav_jr_bound).
   STAR (Model/Star.v, default configuration), one seat, two untied finalists: the winner is one of the two top
   scorers and strictly more ballot weight places it above the other finalist (C12_star_runoff); other run-off
   sizes are modelled and compared with the code only.
   Allocated score (Model/AllocScore.v: AllocatedScoreDistributor / AllocatedScoreSelector as coded): every round
   without a tie elects the candidate with strictly the greatest weighted score sum among the candidates still
   scored (in the selector nobody who holds a seat is), and takes exactly min(quota, weight of its supporters)
   from its strongest supporters first (C12_alloc_strongest_first, C12_alloc_round, C12_alloc_every_round,
   C12_alloc_select_round); the subtraction loop raises ValueError exactly when a ballot is empty or every ballot
   supports the winner and they weigh less than the quota (C12_alloc_*_refuted: ordinary elections crash; ties are
   resolved by set iteration order, or one tie entry stands for several seats). *)
From Coq Require Import ZArith QArith Qminmax List.
From VL Require Import Prelude.PyDict Model.GetNBest Model.Convert Model.Cardinal Proofs.Cardinal_proofs
     Proofs.MJ_proofs Proofs.JR_proofs Model.Condorcet Model.Star Proofs.Star_proofs
     Model.Quota Model.AllocScore Proofs.AllocScore_proofs Proofs.MJ_removal_proofs Proofs.MJ_seats_proofs Proofs.Shape2_proofs Proofs.Star_seats_proofs Proofs.ScoreDict_proofs Proofs.Truncation_proofs
     Proofs.Repair_proofs Proofs.TruncRepair_proofs Proofs.MJ_repair_proofs Proofs.AllocRepair_proofs.
From Coq Require Import Permutation.
Import ListNotations.
Close Scope Q_scope.
Close Scope Z_scope.

Theorem C12_combinations_complete : forall l n s, subseq s l -> length s = n -> In s (combos l n).
Proof. exact combos_complete. Qed.
Theorem C12_combinations_sound : forall l n s, In s (combos l n) -> subseq s l /\ length s = n.
Proof. exact combos_sound. Qed.

Theorem C12_pav_optimal : forall votes cands n alt,
  pav_best votes cands n = [alt] ->
  In alt (combos cands n) /\
  forall s, subseq s cands -> length s = n ->
    (satisfaction votes s <= satisfaction votes alt)%Q /\
    ((satisfaction votes s == satisfaction votes alt)%Q -> s = alt).
Proof. exact pav_best_optimal. Qed.

(* pav answers exactly when the maximiser is unique, and refuses otherwise *)
Theorem C12_pav_refusal : forall votes n,
  pav votes n = AR_nie <-> (forall alt, pav_best votes (canon_set (flat_map fst votes)) n <> [alt]).
Proof.
  intros votes n. unfold pav. destruct (pav_best votes (canon_set (flat_map fst votes)) n) as [|a [|b t]].
  - split; [intros _ alt H; discriminate|reflexivity].
  - split; [discriminate|intros H; exfalso; apply (H a); reflexivity].
  - split; [intros _ alt H; discriminate|reflexivity].
Qed.

Theorem C12_spav_round : forall votes elected c rest,
  get_n_best Qle_bool (spav_round votes elected) 1 = Cand c :: rest ->
  rest = [] /\ exists v, In (c, v) (spav_round votes elected) /\
    forall c' v', In (c', v') (spav_round votes elected) -> c' <> c -> (v' < v)%Q.
Proof. exact spav_round_argmax. Qed.

Theorem C12_spav_extends : forall votes fuel n elected r,
  spav_loop fuel votes n elected = Some r -> exists added, r = elected ++ added.
Proof. intros votes. exact (spav_round_rule votes). Qed.

(* score voting = top-n of the exact aggregate *)
Theorem C12_score_rank : forall cf votes n agg,
  score_to_simple cf votes = inl agg -> score_voting cf votes n = inl (get_n_best Qle_bool agg n).
Proof. intros cf votes n agg H. unfold score_voting. rewrite H. reflexivity. Qed.

Example C12_example :
  pav [([1%positive; 2%positive], 3#1); ([3%positive], 2#1)]%Q 2 = AR_ok [Cand 1%positive; Cand 2%positive] \/
  pav [([1%positive; 2%positive], 3#1); ([3%positive], 2#1)]%Q 2 = AR_nie.
Proof. vm_compute. right. reflexivity. Qed.

(* ---- majority judgment: the elected candidates have the highest (lower) medians.
   [med] is the exact lower median of every candidate's corrected scores; nobody who is not elected has a
   higher median than somebody who is (any seat count, either tie-breaker, ties left in the answer included) *)
Theorem C12_mj_highest_median : forall plus cf votes n sc med r,
  1 <= n ->
  corrected_scores cf votes = inl sc -> aggregate FMedianLow sc = inl med ->
  majority_judgment plus cf votes n = inl r ->
  forall c, In (Cand c) r ->
    exists vc, In (c, vc) med /\
      forall c' vc', In (c', vc') med -> ~ In (Cand c') r -> (vc' <= vc)%Q.
Proof. exact mj_highest_median. Qed.

(* single seat: the winner's median is the highest of all *)
Theorem C12_mj_single_highest_median : forall plus cf votes sc med c,
  corrected_scores cf votes = inl sc -> aggregate FMedianLow sc = inl med ->
  majority_judgment plus cf votes 1 = inl [Cand c] ->
  exists vc, In (c, vc) med /\ forall c' vc', In (c', vc') med -> (vc' <= vc)%Q.
Proof. exact mj_single_highest_median. Qed.

(* equal medians, single seat.
   plus ("the highest amount of scores higher or equal to the median"): every other candidate with the same
   median has strictly fewer scores at or above it.
   default ("removes median scores from tied candidates until the median of the remaining scores differs among
   them, and then selects the one with the highest new median score"): either the winner leads outright, or it
   is the strict leader of the medians in the last state of the removal rounds [mj_rounds].  One round
   [mj_round]: the candidates T sharing the highest median stay, everybody else leaves the contest, and
   mj_ch >= 1 copies of the current median grade are removed from each of T (C12_mj_round_level,
   C12_mj_round_removes). *)
Theorem C12_mj_tiebreak : forall cf votes sc med c,
  corrected_scores cf votes = inl sc -> aggregate FMedianLow sc = inl med ->
  (majority_judgment true cf votes 1 = inl [Cand c] ->
     forall vc d c' vc' d', In (c, vc) med -> In (c, d) sc ->
       In (c', vc') med -> In (c', d') sc -> c' <> c -> (vc' == vc)%Q ->
       (counts_over d' vc < counts_over d vc)%Z) /\
  (majority_judgment false cf votes 1 = inl [Cand c] ->
     (exists v, In (c, v) med /\ forall c' v', In (c', v') med -> c' <> c -> (v' < v)%Q) \/
     (exists tied sub' medians' v,
        get_n_best Qle_bool med 1 = [TieR tied] /\
        mj_rounds (mj_level sc tied) sub' /\
        aggregate FMedianLow sub' = inl medians' /\
        In (c, v) medians' /\ forall c' v', In (c', v') medians' -> c' <> c -> (v' < v)%Q)).
Proof.
  intros cf votes sc med c Hsc Hmed. split.
  - intros Hr. exact (mj_plus_rule cf votes sc med c Hsc Hmed Hr).
  - intros Hr. exact (mj_default_tiebreak cf votes sc med c Hsc Hmed Hr).
Qed.

(* the documented default rule: in EVERY state the removal rounds go through (the first and the last included) the
   eventual winner is still in the contest and nobody in the contest has a higher median - the winner never falls
   behind.  (Refuted for the pinned tree, where candidates that fell behind stayed in the loop: known finding
   C12-mj-default-reentry, repaired by fixes/C12-mj-default-reentry.diff; the model mirrors the repaired code.) *)
Theorem C12_mj_tiebreak_documented : forall cf votes sc med tied c sub1 medians1,
  corrected_scores cf votes = inl sc -> aggregate FMedianLow sc = inl med ->
  get_n_best Qle_bool med 1 = [TieR tied] ->
  majority_judgment false cf votes 1 = inl [Cand c] ->
  mj_rounds (mj_level sc tied) sub1 ->
  aggregate FMedianLow sub1 = inl medians1 ->
  exists v, In (c, v) medians1 /\ forall c' v', In (c', v') medians1 -> (v' <= v)%Q.
Proof. exact mj_default_tiebreak_documented. Qed.

(* who is still in the contest after a round: candidates of the previous state whose median was the highest there;
   a candidate that falls behind the shared lead is out for good *)
Theorem C12_mj_round_level : forall sub medians T c,
  aggregate FMedianLow sub = inl medians -> get_n_best Qle_bool medians 1 = [TieR T] ->
  In c (map fst (mj_round sub medians T)) ->
  In c (map fst sub) /\ exists v, In (c, v) medians /\ forall c' v', In (c', v') medians -> (v' <= v)%Q.
Proof. exact mj_round_level. Qed.

(* every round removes at least one copy of the median grade *)
Theorem C12_mj_round_removes : forall sub medians, (1 <= mj_ch sub medians)%Z.
Proof. exact mj_ch_pos. Qed.

(* the witness of the repaired defect: grades A = 0,0,1,2,2  B = 0,1,1,1,1  C = 0,1,1,1,2 share the median 1; after one
   removal A (1) is behind, B (2) and C (3) go on and C wins (the pinned tree elected A) *)
Example C12_mj_reentry_example :
  let cf := {| sc_fn := FMedianLow; sc_unscored := UNone; sc_min_count := 0%Z; sc_trunc := 0%Q; sc_bottom := 0%Q |} in
  let b (x y z : Z) : sballot * Z := ([(1%positive, inject_Z x); (2%positive, inject_Z y); (3%positive, inject_Z z)], 1%Z) in
  majority_judgment false cf [b 0 0 0; b 0 1 1; b 1 1 1; b 2 1 1; b 2 1 2]%Z 1 = inl [Cand 3%positive].
Proof. vm_compute. reflexivity. Qed.

(* ---- justified representation of the PAV committee (weighted ballots).
   No group G of voters who all approve a common candidate c and none of whom approves any member of the
   committee W weighs total / n or more; in fact weight(G) * (n + 1) <= total. *)
Theorem C12_pav_jr_bound : forall votes n W,
  (forall bw, In bw votes -> (0 <= snd bw)%Q /\ NoDup (fst bw)) ->
  pav_best votes (canon_set (flat_map fst votes)) n = [W] ->
  forall G c, subseq G votes ->
    (forall bw, In bw G -> In c (fst bw) /\ forall w, In w W -> ~ In w (fst bw)) ->
    (qsum (map snd G) * inject_Z (Z.of_nat (n + 1)) <= qsum (map snd votes))%Q.
Proof. exact pav_jr_groups. Qed.

Theorem C12_pav_jr : forall votes n W,
  (forall bw, In bw votes -> (0 <= snd bw)%Q /\ NoDup (fst bw)) ->
  pav_best votes (canon_set (flat_map fst votes)) n = [W] ->
  forall G c, subseq G votes ->
    (forall bw, In bw G -> In c (fst bw) /\ forall w, In w W -> ~ In w (fst bw)) ->
    (0 < qsum (map snd G))%Q ->
    (qsum (map snd G) * inject_Z (Z.of_nat n) < qsum (map snd votes))%Q.
Proof. exact pav_jr. Qed.

(* the same about what pav answers: the answer lists exactly the maximising committee *)
Theorem C12_pav_committee : forall votes n r, pav votes n = AR_ok r ->
  exists W s, pav_best votes (canon_set (flat_map fst votes)) n = [W] /\ Permutation s W /\ r = map Cand s.
Proof. exact pav_committee. Qed.

Theorem C12_pav_jr_answer : forall votes n r,
  (forall bw, In bw votes -> (0 <= snd bw)%Q /\ NoDup (fst bw)) ->
  pav votes n = AR_ok r ->
  forall G c, subseq G votes ->
    (forall bw, In bw G -> In c (fst bw) /\ forall w, In (Cand w) r -> ~ In w (fst bw)) ->
    (0 < qsum (map snd G))%Q ->
    (qsum (map snd G) * inject_Z (Z.of_nat n) < qsum (map snd votes))%Q.
Proof.
  intros votes n r Hv Hr G c HG Hgrp Hpos.
  destruct (pav_committee votes n r Hr) as (W & s & Hbest & Hp & ->).
  apply (pav_jr votes n W Hv Hbest G c HG); [|exact Hpos].
  intros bw Hbw. destruct (Hgrp bw Hbw) as [H1 H2]. split; [exact H1|].
  intros w Hw. apply H2. apply in_map. apply (Permutation_in _ (Permutation_sym Hp) Hw).
Qed.

(* the hypotheses are met by an ordinary profile, which has a committee (not a refusal) *)
Example C12_jr_example :
  let votes := [([1%positive; 2%positive], 3#1); ([3%positive], 2#1); ([1%positive; 3%positive], 1#1)]%Q in
  pav votes 2 = AR_ok [Cand 1%positive; Cand 3%positive] /\
  (forall bw, In bw votes -> (0 <= snd bw)%Q /\ NoDup (fst bw)).
Proof.
  split; [vm_compute; reflexivity|].
  intros bw [<-|[<-|[<-|[]]]]; (split; [discriminate|repeat constructor; simpl; intuition discriminate]).
Qed.

(* ---- STAR (default configuration), one seat.  [a] and [b] are the run-off: the two highest score sums, not tied
   with the third.  [support votes x y] is the ballot weight that scores x and scores y lower or not at all.
   [order] is the iteration order of the candidate set inside Schulze.widest_paths (any order of the finalists). *)
Theorem C12_star_support : forall votes a b, a <> b ->
  pget0 (star_pairwise votes [a; b]) (a, b) = support votes a b /\
  pget0 (star_pairwise votes [a; b]) (b, a) = support votes b a.
Proof. exact pairwise_support. Qed.

Theorem C12_star_runoff : forall votes order agg a b c,
  score_to_simple star_cfg votes = inl agg ->
  get_n_best Qle_bool agg 2 = [Cand a; Cand b] ->
  (forall x, In x order -> x = a \/ x = b) ->
  star votes order 1 = inl [Cand c] ->
  (c = a /\ (support votes b a < support votes a b)%Z) \/ (c = b /\ (support votes a b < support votes b a)%Z).
Proof. exact star_runoff. Qed.

(* the same for the order the wire wrapper uses (first appearance in the pairwise dictionary) *)
Theorem C12_star_auto_runoff : forall votes agg a b c,
  score_to_simple star_cfg votes = inl agg ->
  get_n_best Qle_bool agg 2 = [Cand a; Cand b] ->
  star_auto votes 1 = inl [Cand c] ->
  (c = a /\ (support votes b a < support votes a b)%Z) \/ (c = b /\ (support votes a b < support votes b a)%Z).
Proof. exact star_auto_runoff. Qed.

(* a profile on which the top scorer (1: 9 points against 8) loses the run-off to 2 (preferred by 3 voters to 2) *)
Example C12_star_example :
  let votes : sprofile := [([(1%positive, 5#1); (2%positive, 0#1); (3%positive, 0#1)], 1%Z);
                           ([(1%positive, 4#1); (2%positive, 2#1)], 1%Z);
                           ([(1%positive, 0#1); (2%positive, 2#1); (3%positive, 1#1)], 3%Z)]%Q in
  (exists agg, score_to_simple star_cfg votes = inl agg /\ get_n_best Qle_bool agg 2 = [Cand 1%positive; Cand 2%positive]) /\
  star_auto votes 1 = inl [Cand 2%positive].
Proof. split; [eexists; split; vm_compute; reflexivity|vm_compute; reflexivity]. Qed.

(* ---- allocated score (Model/AllocScore.v).  [wprofile] = the remaining ballots with their (rational) weights;
   supporters of c = the ballots that score c; [cut_at c t f cur] = cur after c's supporters above level t are
   exhausted, those at level t keep the share f of their weight (nothing when f = 0) and all others keep theirs;
   [wpos] = all weights positive (wposb is its boolean form).

   The subtraction loop (_fraction_out_elected) on positive weights and a positive amount [ss]:
   - it never runs out of fuel and raises nothing but ValueError, and that EXACTLY when some ballot is empty or
     every ballot supports c and all of them together weigh less than ss (crash_cond);
   - otherwise the result is a cut: strongest supporters first, the last level reached reduced proportionally
     (0 <= f < 1), and the total weight goes down by exactly min(ss, weight of c's supporters). *)
Theorem C12_alloc_strongest_first : forall c fuel cur ss, wpos cur -> (length cur < fuel)%nat -> (0 < ss)%Q ->
  match fraction_out fuel cur c ss with
  | inr AE_value => crash_cond c cur ss
  | inr _ => False
  | inl cur' =>
      ~ crash_cond c cur ss /\
      exists t f, cur' = cut_at c t f cur /\ (0 <= f)%Q /\ (f < 1)%Q /\ (no_supporters c cur \/ has_score c cur t) /\
                  (wtotal cur' == wtotal cur - Qmin ss (asupport c cur))%Q
  end.
Proof. exact fraction_out_spec. Qed.

(* what a cut means ballot by ballot *)
Theorem C12_alloc_cut_members : forall c t f cur b' w',
  In (b', w') (cut_at c t f cur) <->
  exists w, In (b', w) cur /\
    (   (dget b' c = None /\ w' = w)
     \/ (exists s, dget b' c = Some s /\ (s < t)%Q /\ w' = w)
     \/ (exists s, dget b' c = Some s /\ (s == t)%Q /\ ~ (f == 0)%Q /\ w' = Qred (w * f))).
Proof. exact cut_at_members. Qed.

(* ... when a supporter loses anything, every supporter who scored the winner strictly higher is exhausted *)
Theorem C12_alloc_cut_order : forall c t f (bw1 bw2 : sballot * Q) s1 s2,
  dget (fst bw1) c = Some s1 -> dget (fst bw2) c = Some s2 -> (s2 < s1)%Q ->
  cut_one c t f bw2 <> [bw2] -> cut_one c t f bw1 = [].
Proof. exact cut_one_order. Qed.

(* the winner of a round without a tie has strictly the greatest weighted score sum among the candidates scored
   on some remaining ballot *)
Theorem C12_alloc_winner : forall cur c rest,
  get_n_best Qle_bool (sum_scores cur) 1 = Cand c :: rest ->
  scored c cur /\ forall d, scored d cur -> d <> c -> (wscore cur d < wscore cur c)%Q.
Proof. exact alloc_winner_greatest. Qed.

(* one round without a tie of AllocatedScoreDistributor.evaluate (any prev_gains / max_seats): the winner, the
   removal of one quota from its strongest supporters (removal_spec: a cut that takes min(quota, support)), the
   elimination of the winner from the ballots when it reached max_seats, the exact condition of the crash *)
Theorem C12_alloc_round : forall cf cur el rem c rest, wpos cur -> (0 < ac_quota cf)%Q -> (0 < rem)%nat ->
  get_n_best Qle_bool (sum_scores cur) 1 = Cand c :: rest ->
  (scored c cur /\ forall d, scored d cur -> d <> c -> (wscore cur d < wscore cur c)%Q) /\
  match alloc_step cf cur el rem with
  | AS_next cur' el' rem' =>
      el' = eincr el c /\ rem' = (rem - 1)%nat /\ ~ crash_cond c cur (ac_quota cf) /\
      exists mid, removal_spec c (ac_quota cf) cur mid /\
                  cur' = (if eliminated (gained_of cf el c) (dget (ac_max cf) c) then subset_out c mid else mid) /\
                  (wtotal cur' == wtotal cur - Qmin (ac_quota cf) (asupport c cur))%Q /\ wpos cur'
  | AS_err e => e = AE_value /\ crash_cond c cur (ac_quota cf)
  | AS_done _ => False
  end.
Proof. exact alloc_round. Qed.

(* lifted to every state the loop goes through (areach: the states reached from the initial votes) *)
Theorem C12_alloc_every_round : forall cf votes n cur el rem c rest, wpos votes -> (0 < ac_quota cf)%Q ->
  areach cf votes [] n cur el rem -> (0 < rem)%nat ->
  get_n_best Qle_bool (sum_scores cur) 1 = Cand c :: rest ->
  (scored c cur /\ forall d, scored d cur -> d <> c -> (wscore cur d < wscore cur c)%Q) /\
  match alloc_step cf cur el rem with
  | AS_next cur' el' rem' =>
      el' = eincr el c /\ rem' = (rem - 1)%nat /\ ~ crash_cond c cur (ac_quota cf) /\
      exists mid, removal_spec c (ac_quota cf) cur mid /\
                  cur' = (if eliminated (gained_of cf el c) (dget (ac_max cf) c) then subset_out c mid else mid) /\
                  (wtotal cur' == wtotal cur - Qmin (ac_quota cf) (asupport c cur))%Q /\ wpos cur'
  | AS_err e => e = AE_value /\ crash_cond c cur (ac_quota cf)
  | AS_done _ => False
  end.
Proof. exact alloc_every_round. Qed.

(* AllocatedScoreSelector (no prev_gains, max_seats = 1 for every candidate): in every round without a tie the
   winner holds no seat yet, nobody who holds a seat is scored any more, the winner has strictly the greatest score
   sum, one quota (or all they have) leaves its strongest supporters first, then the winner leaves every ballot
   while the other candidates' score sums over the cut ballots stay as they are *)
Theorem C12_alloc_select_round : forall votes cf n cur el rem c rest cur' el' rem',
  sel_like votes cf -> wpos votes -> (0 < ac_quota cf)%Q ->
  areach cf votes [] n cur el rem -> (0 < rem)%nat ->
  get_n_best Qle_bool (sum_scores cur) 1 = Cand c :: rest ->
  alloc_step cf cur el rem = AS_next cur' el' rem' ->
  eget el c = 0%Z /\ (forall x, eget el x <> 0%Z -> ~ scored x cur) /\
  (scored c cur /\ forall d, scored d cur -> d <> c -> (wscore cur d < wscore cur c)%Q) /\
  el' = eincr el c /\ rem' = (rem - 1)%nat /\
  exists mid, removal_spec c (ac_quota cf) cur mid /\ cur' = subset_out c mid /\
              (wtotal cur' == wtotal cur - Qmin (ac_quota cf) (asupport c cur))%Q /\
              ~ scored c cur' /\ forall x, x <> c -> (wscore cur' x == wscore mid x)%Q.
Proof. exact alloc_select_round. Qed.

(* the answer of evaluate is the dictionary of the last state reached; the model's fuel is enough; the only
   exceptions are the ValueError of the subtraction loop, the IndexError of get_n_best(..)[0] on ballots without
   scores, and ZeroDivisionError of the Hare quota for no seats *)
Theorem C12_alloc_run : forall qs orders votes n prev mx,
  let cf := alloc_cfg qs orders votes n prev mx in
  wpos votes -> (0 < ac_quota cf)%Q ->
  match alloc_distribute qs orders votes n prev mx with
  | inl e => exists cur el rem, areach cf votes [] n cur el rem /\ alloc_step cf cur el rem = AS_done e
  | inr AE_fuel => False
  | inr AE_zerodiv => n = 0%nat
  | inr e => exists cur el rem, areach cf votes [] n cur el rem /\ alloc_step cf cur el rem = AS_err e
  end.
Proof. exact alloc_distribute_run. Qed.

(* Hare (1) and Droop (3) quotas of a non-empty electorate with positive weights are positive *)
Theorem C12_alloc_quota_positive : forall i orders votes n prev mx,
  (i = 1 \/ i = 3)%Z -> wpos votes -> votes <> [] -> (1 <= n)%nat ->
  (0 < ac_quota (alloc_cfg (QNamed i) orders votes n prev mx))%Q.
Proof. exact alloc_quota_pos. Qed.

(* the hypotheses hold on a run of three rounds *)
Example C12_alloc_example :
  wposb w_example = true /\
  alloc_select (QNamed 3) [] w_example 3 = inl [Cand 1%positive; Cand 3%positive; Cand 2%positive] /\
  alloc_select (QNamed 1) [] w_example 2 = inl [Cand 1%positive; Cand 3%positive].
Proof. exact alloc_example. Qed.

(* ---- where the code leaves "one quota of the strongest supporters per seat" (replayed on the implementation).
   An ordinary two-party election (4 voters A:5, 2 voters B:5; two seats; Hare - and 2 + 1 voters under Droop):
   ValueError instead of [A, B] (known finding C12-allocated-score-crash) *)
Theorem C12_alloc_crash_refuted : exists votes votes' : wprofile,
  wposb votes = true /\ alloc_select (QNamed 1) [] votes 2 = inr AE_value /\
  alloc_select (QNamed 3) [] votes' 2 = inr AE_value.
Proof. exists w_crash. eexists. exact alloc_crash_witness. Qed.

(* three candidates level for two seats: a single tie entry for both seats (known finding C08-allocated-score-shape) *)
Theorem C12_alloc_tie_shape_refuted : exists votes : wprofile,
  alloc_select (QNamed 1) [] votes 2 = inl [TieR [1%positive; 2%positive; 3%positive]].
Proof. exists w_tie3. exact alloc_tie_shape_witness. Qed.

(* two candidates level for two seats: both are elected, in the iteration order of the Tie frozenset - one order
   crashes, the other answers (known finding C10-allocated-score) *)
Theorem C12_alloc_tie_order_refuted : exists votes : wprofile,
  alloc_select (QNamed 1) [[1%positive; 2%positive]] votes 2 = inr AE_value /\
  alloc_select (QNamed 1) [[2%positive; 1%positive]] votes 2 = inl [Cand 2%positive; Cand 1%positive].
Proof. exists w_order. exact alloc_tie_order_witness. Qed.

(* ... and the second of them is seated although, at that moment, it is scored on no remaining ballot while another
   candidate has a positive score sum: the tie branch does not re-run the maximum *)
Theorem C12_alloc_tie_second_refuted : exists votes : wprofile,
  let cf := alloc_cfg (QNamed 1) [[2%positive; 1%positive]] votes 2 [] (map (fun c => (c, 1%Z)) (all_scored votes)) in
  alloc_select (QNamed 1) [[2%positive; 1%positive]] votes 2 = inl [Cand 2%positive; Cand 1%positive] /\
  exists cur1 el1, elect_one cf votes [] 2%positive = inl (cur1, el1) /\
                   (wscore cur1 1%positive < wscore cur1 3%positive)%Q /\ (wscore cur1 1%positive == 0)%Q.
Proof. exists w_second. exact alloc_tie_second_witness. Qed.

(* positive weights are needed: a ballot of weight 0 on the winner's top level stops the subtraction *)
Theorem C12_alloc_zero_weight_refuted : exists cur : wprofile,
  fraction_out 4 cur 1%positive 2 = inl cur /\ (asupport 1%positive cur == 2)%Q /\ wposb cur = false.
Proof. exists w_zero. exact alloc_zero_weight_witness. Qed.


(* ---- majority judgment, default tie-break: the multi-copy removal step is the documented one-at-a-time rule.
   [sub]: candidate -> (grade -> count); cs_ok = counts >= 0 and the grades of a dictionary distinct as numbers
   (dictionaries built by cs_set are); [mj_successive k]: k times, recompute every candidate's lower median and
   remove ONE copy of it from each.  One round of the loop (mj_round: the candidates T on the shared highest
   median stay and mj_ch copies of that grade leave each of them at once) equals mj_ch such single rounds among T;
   while fewer than mj_ch copies are gone every candidate of T still has the median it had (so nobody falls behind
   or gets ahead in between and the intermediate comparisons the code skips could not have decided anything);
   the state after the round satisfies the hypotheses again. *)
Theorem C12_mj_multi_copy : forall sub medians T,
  NoDup (map fst sub) -> Forall cs_ok sub -> aggregate FMedianLow sub = inl medians ->
  let lvl := mj_level sub T in
  let ch := mj_ch lvl medians in
  mj_successive (Z.to_nat ch) lvl = inl (mj_round sub medians T) /\
  (forall j, (0 <= j < ch)%Z -> medians_of (mj_remove lvl medians j) medians) /\
  NoDup (map fst (mj_round sub medians T)) /\ Forall cs_ok (mj_round sub medians T).
Proof. exact mj_round_successive. Qed.

(* the same for any set of candidates whose current medians [medians] holds *)
Theorem C12_mj_multi_copy_general : forall sub medians,
  NoDup (map fst sub) -> Forall cs_ok sub -> medians_of sub medians ->
  (forall j, (0 <= j < mj_ch sub medians)%Z -> medians_of (mj_remove sub medians j) medians) /\
  mj_successive (Z.to_nat (mj_ch sub medians)) sub = inl (mj_remove sub medians (mj_ch sub medians)).
Proof. exact mj_multi_copy_successive. Qed.

Example C12_mj_multi_copy_example :
  NoDup (map fst ex_sub) /\ Forall cs_ok ex_sub /\ aggregate FMedianLow ex_sub = inl ex_med /\
  mj_ch ex_sub ex_med = 2%Z /\ mj_successive 2 ex_sub = inl (mj_remove ex_sub ex_med 2).
Proof. exact mj_multi_copy_example. Qed.

(* ---- majority judgment for ANY number of seats against an independent reference order (Proofs/MJ_seats_proofs.v).
   The reference is per candidate: the removal sequence (majority value) of the grade counts [d] -
   [mj_seq k d] = the lower median of d after k single removals of the then current lower median (None once the
   candidate has run out of grades); [mj_lex_lt d' d] = the sequence of d' is lexicographically below that of d:
   they agree (as numbers) on the entries before some k, both have an entry k, and there d' is strictly lower.
   Default tie-break, every seat count n >= 1, every configuration: an answer contains no tie object, has
   min(n, number of candidates) distinct entries, all of them candidates of the votes, and EVERY elected candidate is
   lexicographically strictly above EVERY candidate left out - the answer is exactly the top-n set of the reference
   order (for n = 1: the unique lexicographic maximum).  cs_ok (counts >= 0, grades of one candidate numerically
   distinct) is the well-formedness of the score dictionaries; cs_okb decides it (C12_mj_seats_example). *)
Theorem C12_mj_seats_default : forall cf votes n sc r,
  1 <= n -> corrected_scores cf votes = inl sc -> Forall cs_ok sc ->
  majority_judgment false cf votes n = inl r ->
  (forall x, In x r -> exists c, x = Cand c) /\ length r = Nat.min n (length sc) /\ NoDup r /\
  (forall c, In (Cand c) r -> In c (map fst sc)) /\
  (forall c d c' d', In (Cand c) r -> In (c, d) sc -> In (c', d') sc -> ~ In (Cand c') r -> mj_lex_lt d' d).
Proof. exact mj_default_seats_rule. Qed.

(* the tie-breaker itself (MajorityJudgment._tiebreak_default, recursion over the seats included) on any set of
   candidates: same statement *)
Theorem C12_mj_seats_tiebreaker : forall fuel sub n r,
  NoDup (map fst sub) -> Forall cs_ok sub -> 1 <= n ->
  mj_default fuel sub n = inl r ->
  (forall x, In x r -> exists c, x = Cand c) /\ length r = Nat.min n (length sub) /\ NoDup r /\
  (forall c d c' d', In (Cand c) r -> In (c, d) sub -> In (c', d') sub -> ~ In (Cand c') r -> mj_lex_lt d' d).
Proof.
  intros fuel sub n r Hnd Hok Hn Hr. destruct (mj_default_seats fuel sub n r Hnd Hok Hn Hr) as [H1 H2].
  destruct (mj_default_seats_count fuel sub n r Hnd Hn Hr) as [H3 H4]. repeat split; assumption.
Qed.

(* plus rule, every seat count: the answer has min(n, candidates) entries; a candidate listed plainly has strictly
   more grades at or above the shared median than every candidate with the same median that is not; the members of a
   reported tie have at least as many as any such candidate, and exactly as many as each other *)
Theorem C12_mj_seats_plus : forall cf votes n sc med r,
  1 <= n -> corrected_scores cf votes = inl sc -> aggregate FMedianLow sc = inl med ->
  majority_judgment true cf votes n = inl r ->
  length r = Nat.min n (length sc) /\
  forall c vc d c' vc' d', In (c, vc) med -> In (c, d) sc -> In (c', vc') med -> In (c', d') sc -> (vc' == vc)%Q ->
    ~ In (Cand c') r ->
    (In (Cand c) r -> (counts_over d' vc < counts_over d vc)%Z) /\
    (forall T, In (TieR T) r -> In c T ->
       (counts_over d' vc <= counts_over d vc)%Z /\ (In c' T -> counts_over d' vc = counts_over d vc)).
Proof. exact mj_plus_seats_rule. Qed.

(* the removal sequence while the loop removes several copies at once: the first mj_ch entries of every candidate still
   level are the shared median, and what the loop keeps is the dictionary after mj_ch single removals *)
Theorem C12_mj_seats_round : forall sub medians T c dn,
  NoDup (map fst sub) -> Forall cs_ok sub -> aggregate FMedianLow sub = inl medians ->
  In (c, dn) (mj_round sub medians T) ->
  exists d m, In (c, d) sub /\ In c T /\ In (c, m) medians /\
    mj_rmk (Z.to_nat (mj_ch (mj_level sub T) medians)) d = inl dn /\
    forall j, j < Z.to_nat (mj_ch (mj_level sub T) medians) -> mj_seq j d = Some m.
Proof. intros sub medians T c dn Hnd Hok Ha Hin. exact (mj_round_seq sub medians T Hnd Hok Ha c dn Hin). Qed.

Example C12_mj_seats_example :
  majority_judgment false ex_seats_cfg ex_seats_votes 2 = inl [Cand 2%positive; Cand 3%positive] /\
  exists sc, corrected_scores ex_seats_cfg ex_seats_votes = inl sc /\ Forall cs_ok sc /\
    mj_seq 0 (dget_or sc 1%positive []) = Some 1%Q /\ mj_seq 0 (dget_or sc 2%positive []) = Some 1%Q /\
    mj_seq 1 (dget_or sc 1%positive []) = Some 0%Q /\ mj_seq 1 (dget_or sc 2%positive []) = Some 1%Q.
Proof. exact mj_seats_example. Qed.

(* ---- STAR against its definition, any number of seats (Proofs/Star_seats_proofs.v).
   The run-off table: for run-off members x, y the pairwise dictionary holds exactly the ballot weight that places x
   above y (unscored below every scored candidate), and the candidates Schulze sees are exactly the members that some
   ballot separates from another member ([separated]). *)
Theorem C12_star_table : forall votes members,
  NoDup members ->
  (forall x y, In x members -> In y members -> pget0 (star_pairwise votes members) (x, y) = support votes x y) /\
  (forall x, In x (candidates (star_pairwise votes members)) <-> In x members /\ separated votes members x = true).
Proof.
  intros votes members Hnd. split.
  - intros x y Hx Hy. exact (star_pairwise_support votes members x y Hnd Hx Hy).
  - intros x. exact (star_candidates votes members x).
Qed.

(* STAR for n seats is Schulze over that table of the run-off members [star_finalists agg n] (the plain entries among the
   n + 1 highest score sums; distinct); it returns min(n, number of separated members) entries.  The silently shorter
   answers (known finding C08-star-short) are EXACTLY the class [star_shortb]: fewer than n run-off members are separated
   from another member by some ballot (decidable; includes a tied finalist cut, which empties or shrinks the run-off);
   in the class the answer lists just the separated members, plainly; outside it the answer is a well-shaped selection
   of n (nform: distinct plain winners, then at most one tie object repeated for the open seats, with more members than
   open seats) among the separated members.  Schulze itself on such a table: C05_schulze_score / _strongest_paths. *)
Theorem C12_star_seats : forall votes order agg n r,
  1 <= n -> score_to_simple star_cfg votes = inl agg -> star votes order n = inl r ->
  r = schulze (star_pairwise votes (star_finalists agg n)) order n /\
  NoDup (star_finalists agg n) /\
  length r = Nat.min n (length (star_contest votes agg n)) /\
  (length r < n <-> star_shortb votes agg n = true) /\
  (star_shortb votes agg n = false -> nform (star_contest votes agg n) n r) /\
  (star_shortb votes agg n = true -> exists s, Permutation s (star_contest votes agg n) /\ r = map Cand s).
Proof. intros votes order agg n r Hn Ha Hr. exact (star_seats votes order agg n r Hn Ha Hr). Qed.

(* one seat, every profile with positive ballot weights - the complete table: two untied finalists a, b (the two highest
   score sums, not level with the third): the one placed above the other by strictly more ballot weight wins; equal
   positive weights: the tie of the two; no ballot separates them: nothing (the short class).  No two untied finalists
   (a tie at the finalist cut, or a single candidate): nothing. *)
Theorem C12_star_single_exact : forall votes agg,
  (forall bw, In bw votes -> (0 < snd bw)%Z) ->
  score_to_simple star_cfg votes = inl agg ->
  match get_n_best Qle_bool agg 2 with
  | [Cand a; Cand b] =>
      ((support votes b a < support votes a b)%Z -> star_auto votes 1 = inl [Cand a]) /\
      ((support votes a b < support votes b a)%Z -> star_auto votes 1 = inl [Cand b]) /\
      (support votes a b = support votes b a -> (0 < support votes a b)%Z ->
         star_auto votes 1 = inl [TieR [a; b]] \/ star_auto votes 1 = inl [TieR [b; a]]) /\
      (support votes a b = 0%Z -> support votes b a = 0%Z -> star_auto votes 1 = inl [])
  | _ => star_auto votes 1 = inl []
  end.
Proof. exact star_single_exact. Qed.

(* both sides of the class are inhabited: C12_star_example's profile is outside it, the recorded witness of C08-star-short
   (two voters A:5 B:5 D:3) is inside *)
Example C12_star_short_example :
  (exists agg, score_to_simple star_cfg star_short_votes = inl agg /\ star_shortb star_short_votes agg 1 = true) /\
  star_auto star_short_votes 1 = inl [] /\
  let votes : sprofile := [([(1%positive, 5#1); (2%positive, 0#1); (3%positive, 0#1)], 1%Z);
                           ([(1%positive, 4#1); (2%positive, 2#1)], 1%Z);
                           ([(1%positive, 0#1); (2%positive, 2#1); (3%positive, 1#1)], 3%Z)]%Q in
  exists agg, score_to_simple star_cfg votes = inl agg /\ star_shortb votes agg 1 = false /\ star_shortb votes agg 2 = false /\
    star_auto votes 2 = inl [Cand 2%positive; Cand 3%positive].
Proof.
  split; [eexists; split; vm_compute; reflexivity|]. split; [vm_compute; reflexivity|].
  eexists. split; [vm_compute; reflexivity|]. repeat split; vm_compute; reflexivity.
Qed.

(* ---- the well-formedness hypothesis of the majority-judgment theorems is met by every real input: for every configuration
   (unscored_value, min_count, truncation) the corrected score dictionaries have counts >= 0 and numerically distinct
   grades whenever the ballot counts are >= 0 and no ballot scores a candidate twice (profile_ok) *)
Theorem C12_corrected_scores_ok : forall cf votes sc,
  profile_ok votes -> corrected_scores cf votes = inl sc -> Forall cs_ok sc.
Proof. exact corrected_scores_ok. Qed.

(* ... so the n-seat default rule holds with hypotheses on the ballots only *)
Theorem C12_mj_seats_default_wf : forall cf votes n sc r,
  1 <= n -> profile_ok votes -> corrected_scores cf votes = inl sc ->
  majority_judgment false cf votes n = inl r ->
  (forall x, In x r -> exists c, x = Cand c) /\ length r = Nat.min n (length sc) /\ NoDup r /\
  (forall c, In (Cand c) r -> In c (map fst sc)) /\
  (forall c d c' d', In (Cand c) r -> In (c, d) sc -> In (c', d') sc -> ~ In (Cand c') r -> mj_lex_lt d' d).
Proof.
  intros cf votes n sc r Hn Hv Hsc Hr.
  exact (mj_default_seats_rule cf votes n sc r Hn Hsc (corrected_scores_ok cf votes sc Hv Hsc) Hr).
Qed.

Example C12_profile_ok_example : profile_ok ex_seats_votes.
Proof.
  intros bn Hin. unfold ex_seats_votes in Hin. cbn [In] in Hin.
  repeat (destruct Hin as [<-|Hin]; [split; [cbn; discriminate|cbn [fst map]; repeat constructor; cbn [In]; intuition discriminate]|]).
  destruct Hin.
Qed.

(* ---- score aggregation: the corrections of ScoreToSimpleVotes against their definition (Proofs/Truncation_proofs.v).
   [d]: one candidate's score -> count dictionary (counts >= 0, scores numerically distinct: cs_okd; C12_corrected_scores_ok
   gives it for the dictionaries the converter builds); [expand d]: the list of its scores; cnt p l = length (filter p l);
   lev t y: y <= t; gev t y: t <= y.
   Truncation with cut-off c >= 0: the sweep over the ascending keys removes EXACTLY the c lowest scores - for every
   threshold t the number of scores <= t drops by min(c, that number) - and the sweep over the descending keys exactly
   the c highest of what is left; no KeyError. *)
Theorem C12_score_truncation : forall d c, cs_okd d -> (0 <= c)%Z ->
  let keys := sort_q (map fst d) in
  exists d2 d3, subtract_lowest d keys c 0 = Some d2 /\ subtract_lowest d2 (rev keys) c 0 = Some d3 /\ cs_okd d3 /\
    (forall t, Z.of_nat (cnt (lev t) (expand d2)) = Z.max 0 (Z.of_nat (cnt (lev t) (expand d)) - c)) /\
    (forall t, Z.of_nat (cnt (gev t) (expand d3)) = Z.max 0 (Z.of_nat (cnt (gev t) (expand d2)) - c)).
Proof.
  intros d c Hd Hc keys. destruct (truncation_spec d c Hd Hc) as (d2 & d3 & E2 & E3 & Hd3 & H2 & H3).
  exists d2, d3. split; [exact E2|]. split; [exact E3|]. split; [exact Hd3|].
  split; intros t; rewrite !cnt_expand; [apply H2|apply H3].
Qed.

(* correct_scores clause by clause: min_count (fewer scores -> min_count copies of bottom_value), unscored_value (the voters
   that did not score the candidate add their number of copies of the configured value, or of the candidate's lowest
   score), no truncation, truncation with the cut-off trunc_cutoff (an absolute count when truncation >= 1, else
   floor(voters * truncation)): the c lowest, then the c highest scores are dropped *)
Theorem C12_score_corrections : forall cf d n_votes, cs_okd d -> (cs_total d <= n_votes)%Z ->
  ((cs_total d < sc_min_count cf)%Z -> correct_scores cf d n_votes = inl [(sc_bottom cf, sc_min_count cf)]) /\
  ((sc_min_count cf <= cs_total d)%Z ->
     (forall d1, unscored_fill cf d n_votes = inl d1 ->
        cs_okd d1 /\
        forall p, (forall x y, (x == y)%Q -> p x = p y) ->
          wcnt p d1 = wcnt p d + match sc_unscored cf with
                                 | UNone => 0
                                 | UConst v => if p v then Z.to_nat (n_votes - cs_total d) else 0
                                 | UMin => match list_min (expand d) with
                                           | Some v => if p v then Z.to_nat (n_votes - cs_total d) else 0
                                           | None => 0
                                           end
                                 end) /\
     (Qle_bool (sc_trunc cf) 0 = true -> correct_scores cf d n_votes = unscored_fill cf d n_votes) /\
     (Qle_bool (sc_trunc cf) 0 = false -> (0 <= n_votes)%Z ->
        forall d1, unscored_fill cf d n_votes = inl d1 ->
          let c := trunc_cutoff cf d n_votes in
          (0 <= c)%Z /\
          exists d2 d3, correct_scores cf d n_votes = inl d3 /\ cs_okd d3 /\
            (forall t, Z.of_nat (wcnt (lev t) d2) = Z.max 0 (Z.of_nat (wcnt (lev t) d1) - c)) /\
            (forall t, Z.of_nat (wcnt (gev t) d3) = Z.max 0 (Z.of_nat (wcnt (gev t) d2) - c)))).
Proof. exact correct_scores_spec. Qed.

(* 1,1,2,3,3,5 with cut-off 2: 2 and 3 are left *)
Example C12_score_truncation_example :
  let d : cscores := [(1, 2%Z); (2, 1%Z); (3, 2%Z); (5, 1%Z)]%Q in
  cs_okd d /\ exists d2, subtract_lowest d (sort_q (map fst d)) 2 0 = Some d2 /\
    exists d3, subtract_lowest d2 (rev (sort_q (map fst d))) 2 0 = Some d3 /\ sort_q (expand d3) = [2; 3]%Q.
Proof.
  split.
  - split; [repeat constructor; cbn; discriminate|]. apply cs_distinctb_ok. vm_compute. reflexivity.
  - eexists. split; [vm_compute; reflexivity|]. eexists. split; vm_compute; reflexivity.
Qed.

(* the short class in words: either the finalist cut is tied so that fewer than n plain run-off members remain, or no ballot
   orders any two run-off members; and the contest is all of the run-off or nobody (being level on a ballot is transitive) *)
Theorem C12_star_short_class : forall votes agg n, 1 <= n ->
  (star_shortb votes agg n = true <->
   length (star_finalists agg n) < n \/
   (forall x y bw, In x (star_finalists agg n) -> In y (star_finalists agg n) -> In bw votes -> prefers (fst bw) x y = false)) /\
  (star_contest votes agg n = star_finalists agg n \/ star_contest votes agg n = []).
Proof.
  intros votes agg n Hn. split; [exact (star_short_iff votes agg n Hn)|].
  destruct (star_contest_all_or_none votes agg n) as [E|[E _]]; [left|right]; exact E.
Qed.

(* ================================================================ wave 6: the repaired score family
   (fixes/C12-truncation-middle, C12-mj-default-exhausted, C12-score-counted, C12-allocated-score-exhausted,
   C12-allocated-score-tie-seats).  Model/Cardinal.v [repairs] / Model/AllocScore.v [arepairs] flag the definitions: no
   repair = the pinned definitions above (theorems C12_pinned_score_family, C12_pinned_allocated_score), all repairs = the code the correspondence runs against. *)
Theorem C12_pinned_score_family : forall plus cf votes n,
  score_voting_x pinned cf votes n = score_voting cf votes n /\
  majority_judgment_x pinned plus cf votes n = majority_judgment plus cf votes n.
Proof. intros. split; [reflexivity|apply majority_judgment_x_pinned]. Qed.

Theorem C12_pinned_allocated_score : forall qs orders votes n prev mx,
  alloc_distribute_x apinned qs orders votes n prev mx = alloc_distribute qs orders votes n prev mx /\
  alloc_select_x apinned qs orders votes n = alloc_select qs orders votes n.
Proof. intros. split; [apply alloc_distribute_x_pinned|apply alloc_select_x_pinned]. Qed.

(* ---- fixes/C12-score-counted: the aggregates computed from the (score -> count) dictionary (util._counted_sum / _mean /
   _middle) are the aggregates of the list with one element per voter - same rational, same representation, same
   error - for every dictionary with counts >= 0 and numerically distinct scores; likewise the minimum for
   unscored_value = 'min'.  Hence every theorem about [aggregate_one] speaks about the repaired code at any magnitude. *)
Theorem C12_counted_aggregate : forall fn d, cs_okd d ->
  aggregate_one_w fn d = aggregate_one fn d /\ list_min (pos_keys d) = list_min (expand d).
Proof. intros fn d Hd. split; [exact (okd_counted fn d Hd)|apply list_min_counted]. Qed.

Example C12_counted_example :
  let d : cscores := [(3, 2000000000000%Z); (0, 1000000000000%Z); (2, 5%Z)]%Q in
  aggregate_one_w FSum d = inl (6000000000010 # 1)%Q /\ aggregate_one_w FMean d = inl (2 # 1)%Q /\ aggregate_one_w FMedianLow d = inl 3%Q.
Proof. vm_compute. repeat split; reflexivity. Qed.

(* ---- fixes/C12-truncation-middle.  The cut-off is capped at (scores - 1) // 2 ([mid_cutoff]): on a well-formed dictionary
   that holds a score the two sweeps remove exactly the c' lowest and the c' highest scores (c' the capped cut-off) and at
   least one score stays *)
Theorem C12_truncation_keeps_middle : forall d c, cs_okd d -> (1 <= cs_total d)%Z ->
  let c' := mid_cutoff c (cs_total d) in
  exists d2 d3, subtract_lowest d (sort_q (map fst d)) c' 0 = Some d2 /\ subtract_lowest d2 (rev (sort_q (map fst d))) c' 0 = Some d3 /\
    cs_okd d3 /\ cs_total d3 = (cs_total d - 2 * c')%Z /\ (1 <= cs_total d3)%Z /\
    (forall t, Z.of_nat (wcnt (lev t) d2) = Z.max 0 (Z.of_nat (wcnt (lev t) d) - c')) /\
    (forall t, Z.of_nat (wcnt (gev t) d3) = Z.max 0 (Z.of_nat (wcnt (gev t) d2) - c')).
Proof. exact truncation_keeps_middle. Qed.

(* every configuration: a candidate that holds a score keeps one through min_count / unscored_value / truncation *)
Theorem C12_corrections_keep_a_score : forall rp cf d n_votes, rp_trunc rp = true ->
  cs_okd d -> (sc_unscored cf = UNone \/ (cs_total d <= n_votes)%Z) -> (1 <= cs_total d)%Z ->
  exists d3, correct_scores_x rp cf d n_votes = inl d3 /\ cs_okd d3 /\ (1 <= cs_total d3)%Z.
Proof. exact correct_scores_x_keeps. Qed.

(* the repair does what the configuration says whenever that leaves a score (the capped cut-off is the configured one) *)
Theorem C12_truncation_conservative : forall rp cf d n_votes d1,
  cs_okd d -> (sc_unscored cf = UNone \/ (cs_total d <= n_votes)%Z) -> (0 <= n_votes)%Z ->
  unscored_fill cf d n_votes = inl d1 -> (2 * trunc_cutoff cf d n_votes < cs_total d1)%Z ->
  correct_scores_x rp cf d n_votes = correct_scores cf d n_votes.
Proof. exact correct_scores_x_conservative. Qed.

(* score voting answers: every configuration, every number of seats, every profile with positive ballot counts in
   which no ballot scores a candidate twice - no ZeroDivisionError / StatisticsError / KeyError / ValueError *)
Theorem C12_score_voting_answers : forall rp cf votes n, rp_trunc rp = true -> profile_pos votes ->
  exists r, score_voting_x rp cf votes n = inl r.
Proof. exact score_voting_x_answers. Qed.

(* the pinned behaviour, for the record (known finding C12-truncation-empties, now fixed): {A:3} x 2, {B:1} x 5, truncation 2 *)
Theorem C12_truncation_empties_pinned_refuted : exists votes,
  let cf := Build_score_cfg FMean UNone 0 2 0 in
  profile_pos votes /\
  score_voting_x pinned cf votes 1 = inr SE_zerodiv /\ score_voting_x repaired cf votes 1 = inl [Cand 1%positive] /\
  majority_judgment_x pinned false cf votes 1 = inr SE_stats /\ majority_judgment_x repaired false cf votes 1 = inl [Cand 1%positive].
Proof.
  exists [([(1%positive, 3%Q)], 2%Z); ([(2%positive, 1%Q)], 5%Z)]. split.
  - intros bn [<-|[<-|[]]]; split; try reflexivity; repeat constructor; intros [].
  - vm_compute. repeat split; reflexivity.
Qed.

(* ---- fixes/C12-mj-default-exhausted.  Reference order: the removal sequences (mj_seq) compared lexicographically where a
   sequence that ENDS - the candidate has no grade left - is below one that goes on: [mj_lex_below d' d] = the sequences
   agree before entry k, d has entry k, and d' has a strictly lower entry k or none at all.
   The repaired tie-break for any number of seats: an answer holds no tie object, n distinct winners, and every winner is
   above every candidate of the contest left out. *)
Theorem C12_mj_exhausted_seats : forall rp fuel sub n r, rp_mj rp = true ->
  NoDup (map fst sub) -> Forall cs_ok sub -> 1 <= n ->
  mj_default_x rp fuel sub n = inl r ->
  (forall x, In x r -> exists c, x = Cand c) /\ length r = n /\ NoDup r /\
  (forall c d c' d', In (Cand c) r -> In (c, d) sub -> In (c', d') sub -> ~ In (Cand c') r -> mj_lex_below d' d).
Proof.
  intros rp fuel sub n r Hrp Hnd Hok Hn Hr.
  destruct (mj_default_x_seats rp Hrp fuel sub n r (conj Hnd Hok) Hn Hr) as (H1 & H2).
  destruct (mj_default_x_seats_count rp Hrp fuel sub n r (conj Hnd Hok) Hn Hr) as (H3 & H4). auto.
Qed.

(* the evaluator (default rule, every configuration, hypotheses on the ballots only) *)
Theorem C12_mj_exhausted_rule : forall rp cf votes n sc r, rp_mj rp = true -> 1 <= n -> profile_ok votes ->
  corrected_scores_x rp cf votes = inl sc ->
  majority_judgment_x rp false cf votes n = inl r ->
  (forall x, In x r -> exists c, x = Cand c) /\ length r = Nat.min n (length sc) /\ NoDup r /\
  (forall c, In (Cand c) r -> In c (map fst sc)) /\
  (forall c d c' d', In (Cand c) r -> In (c, d) sc -> In (c', d') sc -> ~ In (Cand c') r -> mj_lex_below d' d).
Proof.
  intros rp cf votes n sc r Hrp Hn Hv Hsc Hr.
  exact (mj_x_default_rule rp cf votes n sc r Hrp Hn Hsc (corrected_scores_x_ok rp cf votes sc Hv Hsc) Hr).
Qed.

(* the order extends the one of C12_mj_seats_default; an exhausted candidate is below every candidate with a grade *)
Theorem C12_mj_lex_below_extends : forall d' d,
  (mj_lex_lt d' d -> mj_lex_below d' d) /\
  (forall v, aggregate_one FMedianLow d = inl v -> cs_nonneg d' -> cs_total d' = 0%Z -> mj_lex_below d' d).
Proof. intros d' d. split; [apply mj_lex_lt_below|intros v; apply mj_below_empty]. Qed.

(* no StatisticsError any more: with the truncation and the tie-break repaired, majority judgment (either rule) answers or
   refuses a lasting tie (VotingSystemError); SE_fuel is the model's own out-of-fuel mark *)
Theorem C12_mj_no_crash : forall rp plus cf votes n, rp_trunc rp = true -> rp_mj rp = true -> 1 <= n -> profile_pos votes ->
  match majority_judgment_x rp plus cf votes n with inl _ => True | inr e => e = SE_vse \/ e = SE_fuel end.
Proof. exact majority_judgment_x_no_crash. Qed.

(* the pinned behaviour, for the record (known finding C12-mj-default-stats, now fixed): {A:1} x 1, {B:1} x 3 - A runs out of
   grades after one removal; and a lasting tie stays a refusal: {A:1,B:1} x 1, {C:1} x 2 -> C, and A / B for a second seat: VSE *)
Theorem C12_mj_default_stats_pinned_refuted : exists votes votes',
  let cf := Build_score_cfg FMedianLow UNone 0 0 0 in
  profile_pos votes /\ profile_pos votes' /\
  majority_judgment_x pinned false cf votes 1 = inr SE_stats /\ majority_judgment_x repaired false cf votes 1 = inl [Cand 2%positive] /\
  majority_judgment_x repaired false cf votes' 1 = inl [Cand 3%positive] /\ majority_judgment_x repaired false cf votes' 2 = inr SE_vse.
Proof.
  exists [([(1%positive, 1%Q)], 1%Z); ([(2%positive, 1%Q)], 3%Z)],
         [([(1%positive, 1%Q); (2%positive, 1%Q)], 1%Z); ([(3%positive, 1%Q)], 2%Z)]. split; [|split].
  - intros bn [<-|[<-|[]]]; split; try reflexivity; repeat constructor; intros [].
  - intros bn [<-|[<-|[]]]; split; try reflexivity; repeat constructor; cbn; intuition discriminate.
  - vm_compute. repeat split; reflexivity.
Qed.

(* ---- fixes/C12-allocated-score-exhausted.  The subtraction loop without the overall-minimum bootstrap: on positive weights
   it never fails and removes min(amount, support) from the strongest supporters first - whatever the ballots look like
   (empty ballots, nothing left): the crash condition of C12_alloc_strongest_first is gone *)
Theorem C12_alloc_strongest_first_repaired : forall c fuel cur ss, wpos cur -> (length cur < fuel)%nat -> (0 < ss)%Q ->
  match fraction_out_r fuel cur c ss with
  | inr _ => False
  | inl cur' =>
      exists t f, cur' = cut_at c t f cur /\ (0 <= f)%Q /\ (f < 1)%Q /\ (no_supporters c cur \/ has_score c cur t) /\
                  (wtotal cur' == wtotal cur - Qmin ss (asupport c cur))%Q
  end.
Proof. exact fraction_out_r_spec. Qed.

(* a round of the repaired loop without a tie: the winner is strictly greatest among the candidates still scored - or, when
   no remaining ballot scores anybody, the ONLY candidate that may still gain a seat - and one quota (or all they hold)
   leaves its strongest supporters *)
Theorem C12_alloc_round_repaired : forall ra cands cf cur el rem c rest, ra_exhausted ra = true -> NoDup cands ->
  wpos cur -> (0 < ac_quota cf)%Q -> (0 < rem)%nat ->
  get_n_best Qle_bool (round_scores ra cands cf cur el) 1 = Cand c :: rest ->
  ((sum_scores cur <> [] -> scored c cur /\ forall d, scored d cur -> d <> c -> (wscore cur d < wscore cur c)%Q) /\
   (sum_scores cur = [] -> In c cands /\ may_gain cf el c = true /\ forall d, In d cands -> may_gain cf el d = true -> d = c)) /\
  exists cur', alloc_step_x ra cands cf cur el rem = AS_next cur' (eincr el c) (rem - 1) /\
    exists mid, removal_spec c (ac_quota cf) cur mid /\
                cur' = (if eliminated (gained_of cf el c) (dget (ac_max cf) c) then subset_out c mid else mid) /\
                (wtotal cur' == wtotal cur - Qmin (ac_quota cf) (asupport c cur))%Q /\ wpos cur'.
Proof. exact alloc_round_x. Qed.

(* no error outcome: distributor (any prev_gains / max_seats) and selector answer for every profile with positive weights
   and a positive quota (Hare / Droop of a non-empty electorate: C12_alloc_quota_positive) *)
Theorem C12_alloc_answers : forall ra qs orders votes n prev mx, ra_exhausted ra = true ->
  wpos votes -> (0 < ac_quota (alloc_cfg qs orders votes n prev mx))%Q ->
  quota_divides_by_seats qs && Nat.eqb n 0 = false ->
  (exists el, alloc_distribute_x ra qs orders votes n prev mx = inl el) /\
  (prev = [] -> mx = map (fun c => (c, 1%Z)) (all_scored votes) -> exists r, alloc_select_x ra qs orders votes n = inl r).
Proof.
  intros ra qs orders votes n prev mx Hra Hp Hq Hz. split; [exact (alloc_distribute_x_answers ra Hra qs orders votes n prev mx Hp Hq Hz)|].
  intros -> ->. exact (alloc_select_x_answers ra Hra qs orders votes n Hp Hq Hz).
Qed.

(* ... and whatever the pinned distributor answered, the repaired one answers the same *)
Theorem C12_alloc_conservative : forall ra qs orders votes n prev mx e,
  alloc_distribute qs orders votes n prev mx = inl e -> alloc_distribute_x ra qs orders votes n prev mx = inl e.
Proof. exact alloc_distribute_x_conservative. Qed.

(* the recorded crash witnesses answer now; a candidate that no remaining ballot scores stands at zero *)
Example C12_alloc_repaired_example :
  alloc_select_x arepaired (QNamed 1) [] w_crash 2 = inl [Cand 1%positive; Cand 2%positive] /\
  alloc_select (QNamed 1) [] w_crash 2 = inr AE_value /\
  alloc_select_x arepaired (QNamed 1) [] [(b1 [(1%positive, 5%Z); (2%positive, 1%Z)], 1%Q); (b1 [(1%positive, 4%Z)], 3%Q)] 2
    = inl [Cand 1%positive; Cand 2%positive] /\
  alloc_select_x arepaired (QNamed 1) [] w_tie3 2 = inl [TieR [1; 2; 3]%positive; TieR [1; 2; 3]%positive].
Proof. vm_compute. repeat split; reflexivity. Qed.

(* ---- the repairs change no answer the pinned code gave (every set of repairs [rp]): score voting by mean / low median,
   majority judgment with either rule - wherever the pinned evaluator answered, the repaired one returns the same list.
   (The sum of a candidate whose scores the truncation wiped out was 0 and is now the sum of its middle scores: the one
   answer that changes, C11_scale_score_truncation_sum_capped_refuted.) *)
Theorem C12_score_family_conservative : forall rp plus cf votes n r, profile_ok votes -> 1 <= n ->
  (sc_fn cf <> FSum -> score_voting cf votes n = inl r -> score_voting_x rp cf votes n = inl r) /\
  (majority_judgment plus cf votes n = inl r -> majority_judgment_x rp plus cf votes n = inl r).
Proof.
  intros rp plus cf votes n r Hv Hn. split.
  - intros Hfn. exact (score_voting_x_conservative rp cf votes n r Hv Hfn).
  - exact (majority_judgment_x_conservative rp plus cf votes n r Hv Hn).
Qed.

(* the tie-break itself: wherever the pinned loop does not end in StatisticsError the repaired loop does the same *)
Theorem C12_mj_tiebreak_conservative : forall rp fuel sub n, NoDup (map fst sub) -> Forall cs_ok sub -> 1 <= n <= length sub ->
  mj_default fuel sub n <> inr SE_stats -> mj_default_x rp fuel sub n = mj_default fuel sub n.
Proof. intros rp fuel sub n Hnd Hok Hn. exact (mj_default_x_conservative rp fuel sub n (conj Hnd Hok) Hn). Qed.

(* ---- the fuel of the repaired tie-break is enough: the number of scores held by the candidates of the contest goes down in
   every pass (a seated candidate leaves with its scores; a shared lead costs every level candidate at least one), so the loop
   started with that number + 1 never runs out; the evaluator hands over that number + 2.  Hence the sharp form of
   C12_mj_no_crash: majority judgment ANSWERS or refuses a lasting tie (VotingSystemError) - nothing else, SE_fuel included *)
Theorem C12_mj_fuel_sufficient : forall rp fuel sub n, rp_mj rp = true -> NoDup (map fst sub) -> Forall cs_ok sub ->
  (Z.to_nat (stot sub) < fuel)%nat -> mj_default_x rp fuel sub n <> inr SE_fuel.
Proof. intros rp fuel sub n Hrp Hnd Hok. exact (mj_default_x_fuel rp Hrp fuel sub n (conj Hnd Hok)). Qed.

Theorem C12_mj_answers_or_refuses : forall rp plus cf votes n, rp_trunc rp = true -> rp_mj rp = true -> 1 <= n -> profile_pos votes ->
  match majority_judgment_x rp plus cf votes n with inl _ => True | inr e => e = SE_vse end.
Proof. exact majority_judgment_x_answers_or_refuses. Qed.

Print Assumptions C12_combinations_complete.
Print Assumptions C12_combinations_sound.
Print Assumptions C12_pav_optimal.
Print Assumptions C12_pav_refusal.
Print Assumptions C12_spav_round.
Print Assumptions C12_spav_extends.
Print Assumptions C12_score_rank.
Print Assumptions C12_mj_highest_median.
Print Assumptions C12_mj_single_highest_median.
Print Assumptions C12_mj_tiebreak.
Print Assumptions C12_mj_tiebreak_documented.
Print Assumptions C12_mj_round_level.
Print Assumptions C12_mj_round_removes.
Print Assumptions C12_pav_jr_bound.
Print Assumptions C12_pav_jr.
Print Assumptions C12_pav_committee.
Print Assumptions C12_pav_jr_answer.
Print Assumptions C12_star_support.
Print Assumptions C12_star_runoff.
Print Assumptions C12_star_auto_runoff.
Print Assumptions C12_alloc_strongest_first.
Print Assumptions C12_alloc_cut_members.
Print Assumptions C12_alloc_cut_order.
Print Assumptions C12_alloc_winner.
Print Assumptions C12_alloc_round.
Print Assumptions C12_alloc_every_round.
Print Assumptions C12_alloc_select_round.
Print Assumptions C12_alloc_run.
Print Assumptions C12_alloc_quota_positive.
Print Assumptions C12_alloc_crash_refuted.
Print Assumptions C12_alloc_tie_shape_refuted.
Print Assumptions C12_alloc_tie_order_refuted.
Print Assumptions C12_alloc_tie_second_refuted.
Print Assumptions C12_alloc_zero_weight_refuted.
Print Assumptions C12_mj_multi_copy.
Print Assumptions C12_mj_multi_copy_general.
Print Assumptions C12_mj_seats_default.
Print Assumptions C12_mj_seats_tiebreaker.
Print Assumptions C12_mj_seats_plus.
Print Assumptions C12_mj_seats_round.
Print Assumptions C12_star_table.
Print Assumptions C12_star_seats.
Print Assumptions C12_star_single_exact.
Print Assumptions C12_corrected_scores_ok.
Print Assumptions C12_mj_seats_default_wf.
Print Assumptions C12_score_truncation.
Print Assumptions C12_score_corrections.
Print Assumptions C12_star_short_class.
Print Assumptions C12_pinned_score_family.
Print Assumptions C12_pinned_allocated_score.
Print Assumptions C12_counted_aggregate.
Print Assumptions C12_truncation_keeps_middle.
Print Assumptions C12_corrections_keep_a_score.
Print Assumptions C12_truncation_conservative.
Print Assumptions C12_score_voting_answers.
Print Assumptions C12_truncation_empties_pinned_refuted.
Print Assumptions C12_mj_exhausted_seats.
Print Assumptions C12_mj_exhausted_rule.
Print Assumptions C12_mj_lex_below_extends.
Print Assumptions C12_mj_no_crash.
Print Assumptions C12_mj_default_stats_pinned_refuted.
Print Assumptions C12_alloc_strongest_first_repaired.
Print Assumptions C12_alloc_round_repaired.
Print Assumptions C12_alloc_answers.
Print Assumptions C12_alloc_conservative.
Print Assumptions C12_score_family_conservative.
Print Assumptions C12_mj_tiebreak_conservative.
Print Assumptions C12_mj_fuel_sufficient.
Print Assumptions C12_mj_answers_or_refuses.
