(* C12 - Approval and score family evaluators match their defining optimisation.
   Property theorems only.  Model: Model/Cardinal.v; proofs: Proofs/Cardinal_proofs.v.

   Proved for every approval profile / every seat count: the PAV committee is the unique maximiser
   of the harmonic satisfaction over ALL n-subsets (the itertools.combinations scan is complete
   and sound); every SPAV round elects the strictly best reweighted candidate; score voting and
   majority judgment rank through get_n_best of the exact aggregate (so the C09 theorems apply).
   Majority judgment (every seat count, both tie-breakers): whoever is elected has a (lower) median at
   least that of whoever is not; single seat: the plus tie-break elects the member of the tie with strictly
   the most scores at or above the shared median, the default tie-break elects the strict leader after
   rounds of median removal among the candidates still level, and the winner never falls behind on the way
   (C12_mj_tiebreak_documented; the pinned tree kept the candidates that fell behind in the loop - repaired,
   fixes/C12-mj-default-reentry.diff).
   Justified representation of the PAV committee for weighted ballots: C12_pav_jr (Aziz et al. 2017 swap
   argument; the sharper bound weight * (n+1) <= total is C12_pav_jr_bound).
   STAR (Model/Star.v, default configuration), one seat, two untied finalists: the winner is one of the two top
   scorers and strictly more ballot weight places it above the other finalist (C12_star_runoff); other run-off
   sizes are modelled and compared with the code only.
   Allocated score is decided per explored case against an independent reference (evidence: partial). *)
From Coq Require Import ZArith QArith List.
From VL Require Import Prelude.PyDict Model.GetNBest Model.Convert Model.Cardinal Proofs.Cardinal_proofs
     Proofs.MJ_proofs Proofs.JR_proofs Model.Condorcet Model.Star Proofs.Star_proofs.
From Coq Require Import Permutation.
Import ListNotations.
Close Scope Q_scope.
Close Scope Z_scope.

Theorem C12_combinations_complete : forall l n s, subseq s l -> length s = n -> In s (combos l n).
Proof. exact combos_complete. Qed.
Theorem C12_combinations_sound : forall l n s, In s (combos l n) -> subseq s l /\ length s = n.
Proof. exact combos_sound. Qed.

Theorem C12_pav_optimal : forall votes cands n alt,
  pav_best votes cands n = [alt] ->
  In alt (combos cands n) /\
  forall s, subseq s cands -> length s = n ->
    (satisfaction votes s <= satisfaction votes alt)%Q /\
    ((satisfaction votes s == satisfaction votes alt)%Q -> s = alt).
Proof. exact pav_best_optimal. Qed.

(* pav answers exactly when the maximiser is unique, and refuses otherwise *)
Theorem C12_pav_refusal : forall votes n,
  pav votes n = AR_nie <-> (forall alt, pav_best votes (canon_set (flat_map fst votes)) n <> [alt]).
Proof.
  intros votes n. unfold pav. destruct (pav_best votes (canon_set (flat_map fst votes)) n) as [|a [|b t]].
  - split; [intros _ alt H; discriminate|reflexivity].
  - split; [discriminate|intros H; exfalso; apply (H a); reflexivity].
  - split; [intros _ alt H; discriminate|reflexivity].
Qed.

Theorem C12_spav_round : forall votes elected c rest,
  get_n_best Qle_bool (spav_round votes elected) 1 = Cand c :: rest ->
  rest = [] /\ exists v, In (c, v) (spav_round votes elected) /\
    forall c' v', In (c', v') (spav_round votes elected) -> c' <> c -> (v' < v)%Q.
Proof. exact spav_round_argmax. Qed.

Theorem C12_spav_extends : forall votes fuel n elected r,
  spav_loop fuel votes n elected = Some r -> exists added, r = elected ++ added.
Proof. intros votes. exact (spav_round_rule votes). Qed.

(* score voting = top-n of the exact aggregate *)
Theorem C12_score_rank : forall cf votes n agg,
  score_to_simple cf votes = inl agg -> score_voting cf votes n = inl (get_n_best Qle_bool agg n).
Proof. intros cf votes n agg H. unfold score_voting. rewrite H. reflexivity. Qed.

Example C12_example :
  pav [([1%positive; 2%positive], 3#1); ([3%positive], 2#1)]%Q 2 = AR_ok [Cand 1%positive; Cand 2%positive] \/
  pav [([1%positive; 2%positive], 3#1); ([3%positive], 2#1)]%Q 2 = AR_nie.
Proof. vm_compute. right. reflexivity. Qed.

(* ---- majority judgment: the elected candidates have the highest (lower) medians.
   [med] is the exact lower median of every candidate's corrected scores; nobody who is not elected has a
   higher median than somebody who is (any seat count, either tie-breaker, ties left in the answer included) *)
Theorem C12_mj_highest_median : forall plus cf votes n sc med r,
  1 <= n ->
  corrected_scores cf votes = inl sc -> aggregate FMedianLow sc = inl med ->
  majority_judgment plus cf votes n = inl r ->
  forall c, In (Cand c) r ->
    exists vc, In (c, vc) med /\
      forall c' vc', In (c', vc') med -> ~ In (Cand c') r -> (vc' <= vc)%Q.
Proof. exact mj_highest_median. Qed.

(* single seat: the winner's median is the highest of all *)
Theorem C12_mj_single_highest_median : forall plus cf votes sc med c,
  corrected_scores cf votes = inl sc -> aggregate FMedianLow sc = inl med ->
  majority_judgment plus cf votes 1 = inl [Cand c] ->
  exists vc, In (c, vc) med /\ forall c' vc', In (c', vc') med -> (vc' <= vc)%Q.
Proof. exact mj_single_highest_median. Qed.

(* equal medians, single seat.
   plus ("the highest amount of scores higher or equal to the median"): every other candidate with the same
   median has strictly fewer scores at or above it.
   default ("removes median scores from tied candidates until the median of the remaining scores differs among
   them, and then selects the one with the highest new median score"): either the winner leads outright, or it
   is the strict leader of the medians in the last state of the removal rounds [mj_rounds].  One round
   [mj_round]: the candidates T sharing the highest median stay, everybody else leaves the contest, and
   mj_ch >= 1 copies of the current median grade are removed from each of T (C12_mj_round_level,
   C12_mj_round_removes). *)
Theorem C12_mj_tiebreak : forall cf votes sc med c,
  corrected_scores cf votes = inl sc -> aggregate FMedianLow sc = inl med ->
  (majority_judgment true cf votes 1 = inl [Cand c] ->
     forall vc d c' vc' d', In (c, vc) med -> In (c, d) sc ->
       In (c', vc') med -> In (c', d') sc -> c' <> c -> (vc' == vc)%Q ->
       (counts_over d' vc < counts_over d vc)%Z) /\
  (majority_judgment false cf votes 1 = inl [Cand c] ->
     (exists v, In (c, v) med /\ forall c' v', In (c', v') med -> c' <> c -> (v' < v)%Q) \/
     (exists tied sub' medians' v,
        get_n_best Qle_bool med 1 = [TieR tied] /\
        mj_rounds (mj_level sc tied) sub' /\
        aggregate FMedianLow sub' = inl medians' /\
        In (c, v) medians' /\ forall c' v', In (c', v') medians' -> c' <> c -> (v' < v)%Q)).
Proof.
  intros cf votes sc med c Hsc Hmed. split.
  - intros Hr. exact (mj_plus_rule cf votes sc med c Hsc Hmed Hr).
  - intros Hr. exact (mj_default_tiebreak cf votes sc med c Hsc Hmed Hr).
Qed.

(* the documented default rule: in EVERY state the removal rounds go through (the first and the last included) the
   eventual winner is still in the contest and nobody in the contest has a higher median - the winner never falls
   behind.  (Refuted for the pinned tree, where candidates that fell behind stayed in the loop: known finding
   C12-mj-default-reentry, repaired by fixes/C12-mj-default-reentry.diff; the model mirrors the repaired code.) *)
Theorem C12_mj_tiebreak_documented : forall cf votes sc med tied c sub1 medians1,
  corrected_scores cf votes = inl sc -> aggregate FMedianLow sc = inl med ->
  get_n_best Qle_bool med 1 = [TieR tied] ->
  majority_judgment false cf votes 1 = inl [Cand c] ->
  mj_rounds (mj_level sc tied) sub1 ->
  aggregate FMedianLow sub1 = inl medians1 ->
  exists v, In (c, v) medians1 /\ forall c' v', In (c', v') medians1 -> (v' <= v)%Q.
Proof. exact mj_default_tiebreak_documented. Qed.

(* who is still in the contest after a round: candidates of the previous state whose median was the highest there;
   a candidate that falls behind the shared lead is out for good *)
Theorem C12_mj_round_level : forall sub medians T c,
  aggregate FMedianLow sub = inl medians -> get_n_best Qle_bool medians 1 = [TieR T] ->
  In c (map fst (mj_round sub medians T)) ->
  In c (map fst sub) /\ exists v, In (c, v) medians /\ forall c' v', In (c', v') medians -> (v' <= v)%Q.
Proof. exact mj_round_level. Qed.

(* every round removes at least one copy of the median grade *)
Theorem C12_mj_round_removes : forall sub medians, (1 <= mj_ch sub medians)%Z.
Proof. exact mj_ch_pos. Qed.

(* the witness of the repaired defect: grades A = 0,0,1,2,2  B = 0,1,1,1,1  C = 0,1,1,1,2 share the median 1; after one
   removal A (1) is behind, B (2) and C (3) go on and C wins (the pinned tree elected A) *)
Example C12_mj_reentry_example :
  let cf := {| sc_fn := FMedianLow; sc_unscored := UNone; sc_min_count := 0%Z; sc_trunc := 0%Q; sc_bottom := 0%Q |} in
  let b (x y z : Z) : sballot * Z := ([(1%positive, inject_Z x); (2%positive, inject_Z y); (3%positive, inject_Z z)], 1%Z) in
  majority_judgment false cf [b 0 0 0; b 0 1 1; b 1 1 1; b 2 1 1; b 2 1 2]%Z 1 = inl [Cand 3%positive].
Proof. vm_compute. reflexivity. Qed.

(* ---- justified representation of the PAV committee (weighted ballots).
   No group G of voters who all approve a common candidate c and none of whom approves any member of the
   committee W weighs total / n or more; in fact weight(G) * (n + 1) <= total. *)
Theorem C12_pav_jr_bound : forall votes n W,
  (forall bw, In bw votes -> (0 <= snd bw)%Q /\ NoDup (fst bw)) ->
  pav_best votes (canon_set (flat_map fst votes)) n = [W] ->
  forall G c, subseq G votes ->
    (forall bw, In bw G -> In c (fst bw) /\ forall w, In w W -> ~ In w (fst bw)) ->
    (qsum (map snd G) * inject_Z (Z.of_nat (n + 1)) <= qsum (map snd votes))%Q.
Proof. exact pav_jr_groups. Qed.

Theorem C12_pav_jr : forall votes n W,
  (forall bw, In bw votes -> (0 <= snd bw)%Q /\ NoDup (fst bw)) ->
  pav_best votes (canon_set (flat_map fst votes)) n = [W] ->
  forall G c, subseq G votes ->
    (forall bw, In bw G -> In c (fst bw) /\ forall w, In w W -> ~ In w (fst bw)) ->
    (0 < qsum (map snd G))%Q ->
    (qsum (map snd G) * inject_Z (Z.of_nat n) < qsum (map snd votes))%Q.
Proof. exact pav_jr. Qed.

(* the same about what pav answers: the answer lists exactly the maximising committee *)
Theorem C12_pav_committee : forall votes n r, pav votes n = AR_ok r ->
  exists W s, pav_best votes (canon_set (flat_map fst votes)) n = [W] /\ Permutation s W /\ r = map Cand s.
Proof. exact pav_committee. Qed.

Theorem C12_pav_jr_answer : forall votes n r,
  (forall bw, In bw votes -> (0 <= snd bw)%Q /\ NoDup (fst bw)) ->
  pav votes n = AR_ok r ->
  forall G c, subseq G votes ->
    (forall bw, In bw G -> In c (fst bw) /\ forall w, In (Cand w) r -> ~ In w (fst bw)) ->
    (0 < qsum (map snd G))%Q ->
    (qsum (map snd G) * inject_Z (Z.of_nat n) < qsum (map snd votes))%Q.
Proof.
  intros votes n r Hv Hr G c HG Hgrp Hpos.
  destruct (pav_committee votes n r Hr) as (W & s & Hbest & Hp & ->).
  apply (pav_jr votes n W Hv Hbest G c HG); [|exact Hpos].
  intros bw Hbw. destruct (Hgrp bw Hbw) as [H1 H2]. split; [exact H1|].
  intros w Hw. apply H2. apply in_map. apply (Permutation_in _ (Permutation_sym Hp) Hw).
Qed.

(* the hypotheses are met by an ordinary profile, which has a committee (not a refusal) *)
Example C12_jr_example :
  let votes := [([1%positive; 2%positive], 3#1); ([3%positive], 2#1); ([1%positive; 3%positive], 1#1)]%Q in
  pav votes 2 = AR_ok [Cand 1%positive; Cand 3%positive] /\
  (forall bw, In bw votes -> (0 <= snd bw)%Q /\ NoDup (fst bw)).
Proof.
  split; [vm_compute; reflexivity|].
  intros bw [<-|[<-|[<-|[]]]]; (split; [discriminate|repeat constructor; simpl; intuition discriminate]).
Qed.

(* ---- STAR (default configuration), one seat.  [a] and [b] are the run-off: the two highest score sums, not tied
   with the third.  [support votes x y] is the ballot weight that scores x and scores y lower or not at all.
   [order] is the iteration order of the candidate set inside Schulze.widest_paths (any order of the finalists). *)
Theorem C12_star_support : forall votes a b, a <> b ->
  pget0 (star_pairwise votes [a; b]) (a, b) = support votes a b /\
  pget0 (star_pairwise votes [a; b]) (b, a) = support votes b a.
Proof. exact pairwise_support. Qed.

Theorem C12_star_runoff : forall votes order agg a b c,
  score_to_simple star_cfg votes = inl agg ->
  get_n_best Qle_bool agg 2 = [Cand a; Cand b] ->
  (forall x, In x order -> x = a \/ x = b) ->
  star votes order 1 = inl [Cand c] ->
  (c = a /\ (support votes b a < support votes a b)%Z) \/ (c = b /\ (support votes a b < support votes b a)%Z).
Proof. exact star_runoff. Qed.

(* the same for the order the wire wrapper uses (first appearance in the pairwise dictionary) *)
Theorem C12_star_auto_runoff : forall votes agg a b c,
  score_to_simple star_cfg votes = inl agg ->
  get_n_best Qle_bool agg 2 = [Cand a; Cand b] ->
  star_auto votes 1 = inl [Cand c] ->
  (c = a /\ (support votes b a < support votes a b)%Z) \/ (c = b /\ (support votes a b < support votes b a)%Z).
Proof. exact star_auto_runoff. Qed.

(* a profile on which the top scorer (1: 9 points against 8) loses the run-off to 2 (preferred by 3 voters to 2) *)
Example C12_star_example :
  let votes : sprofile := [([(1%positive, 5#1); (2%positive, 0#1); (3%positive, 0#1)], 1%Z);
                           ([(1%positive, 4#1); (2%positive, 2#1)], 1%Z);
                           ([(1%positive, 0#1); (2%positive, 2#1); (3%positive, 1#1)], 3%Z)]%Q in
  (exists agg, score_to_simple star_cfg votes = inl agg /\ get_n_best Qle_bool agg 2 = [Cand 1%positive; Cand 2%positive]) /\
  star_auto votes 1 = inl [Cand 2%positive].
Proof. split; [eexists; split; vm_compute; reflexivity|vm_compute; reflexivity]. Qed.

Print Assumptions C12_combinations_complete.
Print Assumptions C12_combinations_sound.
Print Assumptions C12_pav_optimal.
Print Assumptions C12_pav_refusal.
Print Assumptions C12_spav_round.
Print Assumptions C12_spav_extends.
Print Assumptions C12_score_rank.
Print Assumptions C12_mj_highest_median.
Print Assumptions C12_mj_single_highest_median.
Print Assumptions C12_mj_tiebreak.
Print Assumptions C12_mj_tiebreak_documented.
Print Assumptions C12_mj_round_level.
Print Assumptions C12_mj_round_removes.
Print Assumptions C12_pav_jr_bound.
Print Assumptions C12_pav_jr.
Print Assumptions C12_pav_committee.
Print Assumptions C12_pav_jr_answer.
Print Assumptions C12_star_support.
Print Assumptions C12_star_runoff.
Print Assumptions C12_star_auto_runoff.
