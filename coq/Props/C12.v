(* C12 - Approval and score family evaluators match their defining optimisation.
   Property theorems only.  Model: Model/Cardinal.v; proofs: Proofs/Cardinal_proofs.v.

   Proved for every approval profile / every seat count: the PAV committee is the unique maximiser
   of the harmonic satisfaction over ALL n-subsets (the itertools.combinations scan is complete
   and sound); every SPAV round elects the strictly best reweighted candidate; score voting and
   majority judgment rank through get_n_best of the exact aggregate (so the C09 theorems apply).
   STAR, allocated score, the MJ tie-breakers' defining clauses and justified representation are
   decided per explored case against independent references (evidence: partial). *)
From Coq Require Import ZArith QArith List.
From VL Require Import Prelude.PyDict Model.GetNBest Model.Convert Model.Cardinal Proofs.Cardinal_proofs.
Import ListNotations.
Close Scope Q_scope.

Theorem C12_combinations_complete : forall l n s, subseq s l -> length s = n -> In s (combos l n).
Proof. exact combos_complete. Qed.
Theorem C12_combinations_sound : forall l n s, In s (combos l n) -> subseq s l /\ length s = n.
Proof. exact combos_sound. Qed.

Theorem C12_pav_optimal : forall votes cands n alt,
  pav_best votes cands n = [alt] ->
  In alt (combos cands n) /\
  forall s, subseq s cands -> length s = n ->
    (satisfaction votes s <= satisfaction votes alt)%Q /\
    ((satisfaction votes s == satisfaction votes alt)%Q -> s = alt).
Proof. exact pav_best_optimal. Qed.

(* pav answers exactly when the maximiser is unique, and refuses otherwise *)
Theorem C12_pav_refusal : forall votes n,
  pav votes n = AR_nie <-> (forall alt, pav_best votes (canon_set (flat_map fst votes)) n <> [alt]).
Proof.
  intros votes n. unfold pav. destruct (pav_best votes (canon_set (flat_map fst votes)) n) as [|a [|b t]].
  - split; [intros _ alt H; discriminate|reflexivity].
  - split; [discriminate|intros H; exfalso; apply (H a); reflexivity].
  - split; [intros _ alt H; discriminate|reflexivity].
Qed.

Theorem C12_spav_round : forall votes elected c rest,
  get_n_best Qle_bool (spav_round votes elected) 1 = Cand c :: rest ->
  rest = [] /\ exists v, In (c, v) (spav_round votes elected) /\
    forall c' v', In (c', v') (spav_round votes elected) -> c' <> c -> (v' < v)%Q.
Proof. exact spav_round_argmax. Qed.

Theorem C12_spav_extends : forall votes fuel n elected r,
  spav_loop fuel votes n elected = Some r -> exists added, r = elected ++ added.
Proof. intros votes. exact (spav_round_rule votes). Qed.

(* score voting = top-n of the exact aggregate *)
Theorem C12_score_rank : forall cf votes n agg,
  score_to_simple cf votes = inl agg -> score_voting cf votes n = inl (get_n_best Qle_bool agg n).
Proof. intros cf votes n agg H. unfold score_voting. rewrite H. reflexivity. Qed.

Example C12_example :
  pav [([1%positive; 2%positive], 3#1); ([3%positive], 2#1)]%Q 2 = AR_ok [Cand 1%positive; Cand 2%positive] \/
  pav [([1%positive; 2%positive], 3#1); ([3%positive], 2#1)]%Q 2 = AR_nie.
Proof. vm_compute. right. reflexivity. Qed.

Print Assumptions C12_combinations_complete.
Print Assumptions C12_combinations_sound.
Print Assumptions C12_pav_optimal.
Print Assumptions C12_pav_refusal.
Print Assumptions C12_spav_round.
Print Assumptions C12_spav_extends.
Print Assumptions C12_score_rank.
