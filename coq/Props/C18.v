(* C18 - Evaluation is pure: inputs untouched, no state carried between calls.
   Property theorems only.  Models: Model/State.v (instance state machines), Model/Alias.v (store
   model of the copy-before-modify sites); proofs: Proofs/State_proofs.v, Proofs/Alias_proofs.v.

   Reading.  "No state carried between calls": for every call list cs (any length, any mix of
   inputs) and every call c, what c returns on an object that already served cs equals what it
   returns on a fresh object.  "Inputs untouched": the caller's objects live in a store; after the
   call the store is THE SAME store (so every location reachable from the arguments - and every
   shared default-argument object, which is just another store location - has the same contents).

   PARTIAL (kept as a statement, decided by the snapshot oracle of harness/props/c18.py, a test):
   the full property speaks about EVERY evaluator / converter / validator; the theorems cover the
   objects that keep state and the copy-before-modify sites named in the anchors. *)
From Coq Require Import ZArith QArith List Bool Arith.
From VL Require Import Prelude.Sx Prelude.PyDict Model.GetNBest Model.Convert Model.Cardinal Model.State Model.Alias
     Proofs.State_proofs Proofs.Alias_proofs.
Import ListNotations.

(* ---------------------------------------------------------------- generic principle *)
(* an invariant of the state that fixes the output of the probed calls makes the object history-free *)
Theorem C18_history_free : forall (St Call Out : Type) (step : St -> Call -> St * Out) (init : St)
    (Inv : St -> Prop) (probe : Call -> Prop),
  Inv init -> (forall s c, Inv s -> Inv (fst (step s c))) ->
  (forall s c, Inv s -> probe c -> snd (step s c) = snd (step init c)) ->
  forall cs c, probe c -> out_after step init cs c = out_after step init [] c.
Proof. intros St Call Out step init Inv probe H1 H2 H3. exact (history_free_generic step init Inv probe H1 H2 H3). Qed.

(* ---------------------------------------------------------------- one theorem per stateful object *)
(* ProportionalApproval (repaired comparison): _coefs is always a prefix of the harmonic table, the
   outcome reads it at indices 0..n_seats only *)
Theorem C18_history_free_pav : forall cs c,
  out_after (pav_step false) pav_init cs c = out_after (pav_step false) pav_init [] c.
Proof. exact pav_history_free. Qed.

Theorem C18_pav_table_invariant : forall cs, harm_prefix (run (pav_step false) pav_init cs).
Proof. exact pav_state_inv. Qed.

(* the pinned comparison (len(_coefs) < n_seats) was history dependent: fixed by commit 664831f *)
Theorem C18_history_free_pav_pinned_refuted :
  exists cs c, out_after (pav_step true) pav_init cs c <> out_after (pav_step true) pav_init [] c.
Proof. exact pav_pinned_history_dependent. Qed.

(* Borda scorer shared by a RankedToPositionalVotes converter: whatever was set or converted before
   (set_n_candidates, scores, other profiles), a conversion answers as a fresh scorer would - and
   that answer is the pure converter the C13 theorems are about *)
Theorem C18_history_free_borda : forall base cs c, is_convert c = true ->
  out_after (borda_step base) borda_init cs c = out_after (borda_step base) borda_init [] c.
Proof. exact borda_history_free. Qed.

Theorem C18_borda_is_pure_converter : forall base s votes,
  snd (borda_step base s (BConvert votes)) =
  BO_conv (oconv (img_positional (Borda base) (length (cands_ranked votes))) votes).
Proof. exact borda_convert_is_C13_model. Qed.

(* seeded random components (Sortitor, RandomUnrankedBallotSelector, Hare transferer ...): for EVERY
   generator oracle (state after random.seed(s), state after random.seed(None), draws) and EVERY
   body, a seeded call answers the same after any history of seeded / unseeded / foreign users of
   the process-wide generator and from any initial generator state *)
Theorem C18_history_free_seeded : forall (G : Type) (seedf : Z -> G) (entropy : G -> G)
    (In Out : Type) (body : G -> In -> Out * G) (g0 g1 : G) cs c,
  is_seeded G c = true ->
  out_after (rstep G seedf entropy body) g0 cs c = out_after (rstep G seedf entropy body) g1 [] c.
Proof. intros. apply seeded_history_free. assumption. Qed.

Theorem C18_seeded_repeats : forall (G : Type) (seedf : Z -> G) (entropy : G -> G)
    (In Out : Type) (body : G -> In -> Out * G) g0 g1 cs1 cs2 s i,
  out_after (rstep G seedf entropy body) g0 cs1 (RSeeded G s i) =
  out_after (rstep G seedf entropy body) g1 cs2 (RSeeded G s i).
Proof. intros. apply seeded_repeats. Qed.

(* ---------------------------------------------------------------- arguments untouched *)
(* generic site: copy n levels of the argument, then ANY sequence of in-place operations at nesting
   depth <= n: the caller's store is unchanged *)
Theorem C18_args_untouched_copy_then_mutate : forall levels st arg plan st' t',
  (forall t, Forall (fun m => length (fst m) < levels) (plan t)) ->
  copy_then_mutate levels st arg plan = Ok (st', t') -> st' = st.
Proof. exact copy_then_mutate_frame. Qed.

Theorem C18_args_untouched_highest_averages : forall st prev awards st' t',
  ha_site st prev awards = Ok (st', t') -> st' = st.
Proof. exact ha_site_frame. Qed.

Theorem C18_args_untouched_tie_breaking : forall st main_result broken st' t',
  tb_site st main_result broken = Ok (st', t') -> st' = st.
Proof. exact tb_site_frame. Qed.

Theorem C18_args_untouched_invalid_vote_eliminator : forall st votes to_remove st' t',
  ive_site st votes to_remove = Ok (st', t') -> st' = st.
Proof. exact ive_site_frame. Qed.

Theorem C18_args_untouched_transfer_subtract : forall st allocation edits st' t',
  subtract_site st allocation edits = Ok (st', t') -> st' = st.
Proof. exact subtract_site_frame. Qed.

Theorem C18_args_untouched_transfer_transfer : forall st allocation moves removed st' t',
  transfer_site st allocation moves removed = Ok (st', t') -> st' = st.
Proof. exact transfer_site_frame. Qed.

(* MultistageDistributor, repaired (_copy_nested to the nesting depth): for every depth, every
   iteration order of the key sets, every list of (pure) stages *)
Theorem C18_args_untouched_multistage : forall korder stages d st prev st' t',
  ms_evaluate korder stages true d st prev = Ok (st', t') -> st' = st.
Proof. exact ms_repaired_frame. Qed.

(* the pinned shallow copy: fine for depth 1 ... *)
Theorem C18_args_untouched_multistage_pinned_depth1 : forall korder stages st prev st' t',
  ms_evaluate korder stages false 0 st prev = Ok (st', t') -> st' = st.
Proof. exact ms_pinned_flat_frame. Qed.

(* ... refuted for depth 2: the caller's inner dictionary {A: 1} comes back as {A: 2, B: 1} *)
Theorem C18_args_untouched_multistage_pinned_refuted :
  exists st' t', ms_evaluate union_order [ms_witness_stage] false 1 ms_witness_store 1 = Ok (st', t')
                 /\ sget st' 0 = Some [(1%positive, VInt 2); (2%positive, VInt 1)]
                 /\ sget ms_witness_store 0 = Some [(1%positive, VInt 1)].
Proof. exact ms_pinned_nested_mutates. Qed.

Theorem C18_args_untouched_unused_votes : forall korder stage_results max_seats_given d st prev st' t',
  uv_evaluate korder stage_results max_seats_given d st prev = Ok (st', t') -> st' = st.
Proof. exact uv_frame. Qed.

(* shared default arguments: the object behind `prev_gains={}` is one more store location.  Called
   WITH the default itself as prev_gains, the repaired distributor leaves it empty; and whatever
   argument a modelled site is called with, a default object elsewhere in the store stays as it was *)
Theorem C18_default_stays_empty_multistage : forall korder stages d st dflt st' t',
  sget st dflt = Some [] ->
  ms_evaluate korder stages true d st dflt = Ok (st', t') -> sget st' dflt = Some [].
Proof.
  intros korder stages d st dflt st' t' He H.
  rewrite (ms_repaired_frame korder stages d st dflt st' t' H). exact He.
Qed.

Theorem C18_defaults_untouched_copy_then_mutate : forall levels st arg plan st' t' dflt,
  (forall t, Forall (fun m => length (fst m) < levels) (plan t)) ->
  copy_then_mutate levels st arg plan = Ok (st', t') -> sget st' dflt = sget st dflt.
Proof.
  intros levels st arg plan st' t' dflt Hp H.
  rewrite (copy_then_mutate_frame levels st arg plan st' t' Hp H). reflexivity.
Qed.

(* hypotheses are satisfiable by a non-trivial input: the repaired code on the refutation witness
   succeeds, returns {N: {A: 2, B: 1}} and leaves the store alone *)
Example C18_multistage_example :
  exists t', ms_evaluate union_order [ms_witness_stage] true 1 ms_witness_store 1 = Ok (ms_witness_store, t')
             /\ read_tree 2 ms_witness_store t' = L [L [A 5%Z; L [L [A 1%Z; A 2%Z]; L [A 2%Z; A 1%Z]]]].
Proof. exact ms_repaired_witness. Qed.

Example C18_pav_example :
  out_after (pav_step false) pav_init [([([1%positive; 2%positive], 3%Q); ([3%positive], 2%Q)], 2)]
            ([([1%positive], 1%Q)], 1) = PO_ok [Cand 1%positive].
Proof. vm_compute. reflexivity. Qed.

(* ---------------------------------------------------------------- the full property *)
(* Every evaluator / converter / validator object of the library, seen as a machine over a store:
   any call leaves the store unchanged and answers as a fresh object.  Proved above for the
   modelled objects and sites; for the rest of the library it is decided per run by the snapshot
   and history oracles of the harness (a test) - PARTIAL. *)
Definition C18_full_statement : Prop :=
  forall (Obj Call Out : Type) (library_step : Obj -> store -> Call -> Obj * store * Out) (fresh : Obj),
  forall (st : store) (cs : list Call) (c : Call),
    let run_all := fold_left (fun os c' => let '(o, s, _) := library_step (fst os) (snd os) c' in (o, s)) cs (fresh, st) in
    snd run_all = st /\
    (let '(_, _, out) := library_step (fst run_all) (snd run_all) c in out) =
    (let '(_, _, out) := library_step fresh st c in out).

Print Assumptions C18_history_free.
Print Assumptions C18_history_free_pav.
Print Assumptions C18_pav_table_invariant.
Print Assumptions C18_history_free_pav_pinned_refuted.
Print Assumptions C18_history_free_borda.
Print Assumptions C18_borda_is_pure_converter.
Print Assumptions C18_history_free_seeded.
Print Assumptions C18_seeded_repeats.
Print Assumptions C18_args_untouched_copy_then_mutate.
Print Assumptions C18_args_untouched_highest_averages.
Print Assumptions C18_args_untouched_tie_breaking.
Print Assumptions C18_args_untouched_invalid_vote_eliminator.
Print Assumptions C18_args_untouched_transfer_subtract.
Print Assumptions C18_args_untouched_transfer_transfer.
Print Assumptions C18_args_untouched_multistage.
Print Assumptions C18_args_untouched_multistage_pinned_depth1.
Print Assumptions C18_args_untouched_multistage_pinned_refuted.
Print Assumptions C18_args_untouched_unused_votes.
Print Assumptions C18_default_stays_empty_multistage.
Print Assumptions C18_defaults_untouched_copy_then_mutate.
