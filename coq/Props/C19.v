(* C19 - Serialised systems and ballot files reload to equivalent objects.
   Property theorems only.  Models: Model/Persist.v (persist.py value codec, from_dict, the
   effect of json.dumps/json.loads), Model/BallotFile.v (BLT writer/parser at token level),
   Model/StvFile.v (STV writer/parser at character level); proofs: Proofs/Persist_proofs.v,
   Proofs/PersistRejects_proofs.v (the repaired serialize_value and the rejection clause),
   Proofs/BallotFile_proofs.v, Proofs/StvFile_proofs.v.
   The persist theorems hold for EVERY environment [E] (Unicode identifier tables, Decimal
   parser, class table, importable callables): these are oracle arguments, not assumptions. *)
From Coq Require Import ZArith List Bool Lia Strings.String.
From Coq Require Import QArith.
From VL Require Import Model.Persist Proofs.Persist_proofs Proofs.PersistRejects_proofs Model.BallotFile Proofs.BallotFile_proofs.
From VL Require Import Model.StvFile Proofs.StvFile_proofs.
Import ListNotations.
Open Scope string_scope.
Open Scope Z_scope.

(* ------------------------------------------------------------------ persist: value codec *)
(* [serialize_value E] is the function after fixes/C19-persist-rejects.diff (names are resolved at save time, hence the
   environment); [serialize_value_pinned] the one before. *)

(* every representable value - any nesting depth - is saved without refusal and reloads to itself,
   directly and through JSON text *)
Theorem C19_roundtrip : forall E v, representable E v = true ->
  exists j, serialize_value E v = SOk j /\ deserialize_value E j = DOk v /\
            deserialize_value E (json_rt j) = DOk v.
Proof. exact roundtrip_json. Qed.

(* a system (an object with to_dict): from_dict of its dictionary, also via JSON text, gives the
   same object, which therefore serialises identically.  That an object of a votelib class IS its
   parameter record (the constructor stores every parameter verbatim, to_dict reads exactly them back)
   is read from the source per class and proved in Props/GenTie_Signatures.v (C19_class_roundtrip,
   class_table_ok) - kept out of this file so that an unreadable source falls back to the tested premise *)
Theorem C19_system_roundtrip : forall E c ps, representable E (PObj c ps) = true ->
  exists j, serialize_value E (PObj c ps) = SOk j /\
            from_dict E j = DOk (PObj c ps) /\ from_dict E (json_rt j) = DOk (PObj c ps).
Proof. exact system_roundtrip. Qed.

(* THE REJECTION CLAUSE: a configuration that cannot be represented is rejected when saving.  [wf_value] holds of every
   Python value (it says that the term encodes one: Fraction reduced, Decimal named by its canonical string, members of a
   frozenset / keys of a dict hashable and pairwise different, no parameter called 'class'); it is not a restriction *)
Theorem C19_rejects : forall E v, wf_value E v = true -> representable E v = false -> serialize_value E v = SErr.
Proof. exact rejects. Qed.

(* [representable] is exactly: a well-formed encoding that passes the tests of the repaired serialize_value *)
Theorem C19_representable_split : forall E v, representable E v = wf_value E v && loadable E v.
Proof. exact representable_split. Qed.

(* saving is refused EXACTLY for the values that are not [loadable] (no hypothesis): a set, an opaque object, a str-keyed
   dictionary carrying 'type' / 'class' / 'callable' with an identifier-shaped string, an object whose class is not found
   under an identifier path, does not take the saved parameter names, or has a parameter 'type' with such a string, a
   callable whose module.name is not an identifier path that resolves to it - anywhere inside the value *)
Theorem C19_rejects_exactly : forall E v, serialize_value E v = SErr <-> loadable E v = false.
Proof. intros E v. exact (ser_fixed_refuses_iff E v true). Qed.

(* ... rather than silently altered: whatever IS saved reloads to itself, directly and through JSON text *)
Theorem C19_saved_reloads : forall E v j, wf_value E v = true -> serialize_value E v = SOk j ->
  deserialize_value E j = DOk v /\ deserialize_value E (json_rt j) = DOk v.
Proof. exact saved_reloads. Qed.

(* the repair changes no saved form: where the repaired function saves, the pinned one saved the same dictionary *)
Theorem C19_fixed_agrees_with_pinned : forall E v j, serialize_value E v = SOk j -> serialize_value_pinned v = SOk j.
Proof. exact fixed_agrees_with_pinned. Qed.

(* the duplicate test used by [representable] really excludes structurally equal members *)
Theorem C19_eqb_refl : forall v, pval_eqb v v = true.
Proof. exact pval_eqb_refl. Qed.

(* ---- the pinned tree (before fixes/C19-persist-rejects.diff) *)
(* saving was refused exactly when an opaque value (no to_dict, not atomic, not iterable, not callable) occurs inside *)
Theorem C19_rejects_opaque_pinned : forall v, serialize_value_pinned v = SErr <-> has_opaque v = true.
Proof. intros v. exact (ser_refuses_iff v true). Qed.

(* the rejection clause for the pinned function *)
Definition C19_rejects_pinned_full_statement : Prop :=
  forall E v, wf_value E v = true -> representable E v = false -> serialize_value_pinned v = SErr.

(* A small concrete environment for the closed-term witnesses. *)
Definition s_max : str := Eval compute in codes "max".
Definition s_hidden : str := Eval compute in codes "m.Hidden".
Definition env0 : env :=
  {| xid_start := fun _ => false; xid_continue := fun _ => false; dec_canon := fun s => Some s;
     class_exists := fun c => negb (str_eqb c s_hidden); class_accepts := fun _ _ => true;
     callable_resolves := fun s => str_eqb s s_max |}.

(* refuted by the faithful model of the pinned tree, four ways (each replayed on the implementation by the corpus,
   which now expects the refusal of the repaired code):
   1. a plain dictionary {'callable': 'max'} is saved as it is and comes back as the builtin max;
   2. a non-frozen set is saved as a list and comes back as a list;
   3. a lambda is saved under the name 'm.<lambda>' and comes back as a dictionary;
   4. a closure is saved under a name that cannot be resolved: loading fails.
   Each witness is a well-formed encoding and is refused by the repaired function. *)
Theorem C19_rejects_reserved_key_refuted : exists v j v',
  wf_value env0 v = true /\ representable env0 v = false /\ serialize_value_pinned v = SOk j /\
  deserialize_value env0 (json_rt j) = DOk v' /\ pval_eqb v v' = false /\ serialize_value env0 v = SErr.
Proof.
  exists (PDict [(PStr s_callable, PStr s_max)]), (JDict [(s_callable, JStr s_max)]), (PCallable s_max).
  vm_compute. repeat split.
Qed.

Theorem C19_rejects_set_refuted : exists v j v',
  wf_value env0 v = true /\ representable env0 v = false /\ serialize_value_pinned v = SOk j /\
  deserialize_value env0 (json_rt j) = DOk v' /\ pval_eqb v v' = false /\ serialize_value env0 v = SErr.
Proof.
  exists (PSet [PInt 1; PInt 2]), (JList false [JInt 1; JInt 2]), (PList [PInt 1; PInt 2]).
  vm_compute. repeat split.
Qed.

Definition s_lambda : str := Eval compute in codes "m.<lambda>".
Theorem C19_rejects_lambda_refuted : exists v j v',
  wf_value env0 v = true /\ representable env0 v = false /\ serialize_value_pinned v = SOk j /\
  deserialize_value env0 (json_rt j) = DOk v' /\ pval_eqb v v' = false /\ serialize_value env0 v = SErr.
Proof.
  exists (PCallable s_lambda), (JDict [(s_callable, JStr s_lambda)]), (PDict [(PStr s_callable, PStr s_lambda)]).
  vm_compute. repeat split.
Qed.

Definition s_closure : str := Eval compute in codes "votelib.evaluate.openlist._quota_fractional".
Theorem C19_rejects_closure_refuted : exists v j,
  wf_value env0 v = true /\ representable env0 v = false /\ serialize_value_pinned v = SOk j /\
  deserialize_value env0 (json_rt j) = DErr E_ATTR /\ serialize_value env0 v = SErr.
Proof.
  exists (PCallable s_closure), (JDict [(s_callable, JStr s_closure)]).
  vm_compute. repeat split.
Qed.

(* 5. an object of a class that is not found under its name is saved and cannot be loaded *)
Theorem C19_rejects_hidden_class_refuted : exists v j,
  wf_value env0 v = true /\ representable env0 v = false /\ serialize_value_pinned v = SOk j /\
  deserialize_value env0 (json_rt j) = DErr E_ATTR /\ serialize_value env0 v = SErr.
Proof.
  exists (PList [PObj s_hidden [([97], PInt 1)]]), (JList false [JDict [(s_class, JStr s_hidden); ([97], JInt 1)]]).
  vm_compute. repeat split.
Qed.

(* [wf_value] cannot be dropped from C19_rejects - but only because the type pval has terms that encode no Python value:
   Fraction(2, 4) IS Fraction(1, 2) *)
Example C19_rejects_wf_needed : representable env0 (PFrac 2 4) = false /\ wf_value env0 (PFrac 2 4) = false /\
  exists j, serialize_value env0 (PFrac 2 4) = SOk j.
Proof. split; [reflexivity|]. split; [reflexivity|]. eexists. reflexivity. Qed.

(* the hypotheses are satisfiable by a non-trivial value: a system with a Fraction, a Decimal, a
   tuple-keyed dictionary, a frozenset, a nested object, a str-keyed dictionary carrying the word
   'type' with a non-identifier string, and a callable *)
Definition s_cls : str := Eval compute in codes "votelib.evaluate.core.FixedSeatCount".
Definition s_a : str := Eval compute in codes "evaluator".
Definition s_b : str := Eval compute in codes "n_seats".
Definition s_dec : str := Eval compute in codes "1.50".
Definition s_noid : str := Eval compute in codes "not an identifier".
Definition example_value : pval :=
  PObj s_cls
    [(s_a, PObj s_cls [(s_a, PCallable s_max); (s_b, PFrac (-3) 4)]);
     (s_b, PList [PDec s_dec; PNone; PBool true;
                  PDict [(PTuple [PInt 1; PStr s_a], PFrozenset [PInt 1; PInt 2]); (PInt 7, PList [])];
                  PDict [(PStr s_type, PStr s_noid); (PStr s_b, PTuple [])]])].
Example C19_example_representable : representable env0 example_value = true.
Proof. vm_compute. reflexivity. Qed.
(* ... and the hypotheses of C19_rejects by a nested value that is well-formed and not representable (a reserved key three
   levels down): it is refused *)
Definition example_rejected : pval :=
  PObj s_cls [(s_a, PList [PFrac (-3) 4; PDict [(PTuple [PInt 1], PDict [(PStr s_class, PStr s_cls); (PStr s_b, PInt 2)])]])].
Example C19_example_rejected : wf_value env0 example_rejected = true /\ representable env0 example_rejected = false /\
  serialize_value env0 example_rejected = SErr /\ exists j, serialize_value_pinned example_rejected = SOk j.
Proof. vm_compute. repeat split. eexists. reflexivity. Qed.

(* ------------------------------------------------------------------ BLT files (token level) *)

(* ranked ballots without shared ranks with their weights, the seat count, candidate names, withdrawn
   flags and title, written by dump_lines, load back unchanged (identities replaced by positions):
   for EVERY well-formed election - any number of candidates and ballots *)
Theorem C19_blt_roundtrip : forall e x, wf_election e = true -> expected e = Some x ->
  exists ls, dump_lines false e = DumpOk ls /\ load_lines false false ls = Ok x.
Proof. exact blt_roundtrip. Qed.

(* on EVERY list of token lines the parser returns data or BLTParseError - no other exception *)
Theorem C19_blt_parse_total : forall oneplus ls,
  (exists x, load_lines false oneplus ls = Ok x) \/ load_lines false oneplus ls = ParseError.
Proof.
  intros op ls. pose proof (load_lines_total op ls) as H.
  destruct (load_lines false op ls) as [x| |e]; [left; exists x; reflexivity|right; reflexivity|contradiction].
Qed.

(* a non-trivial well-formed election: duplicate names, a withdrawn first candidate, Fraction weight, title *)
Definition s_ann : str := Eval compute in codes "Ann Bee".
Definition example_election : election :=
  ([([2; 1]%positive, 3 # 2); ([3]%positive, 2 # 1); ([]%list, 1 # 1)], 2,
   [(1%positive, s_ann, true); (2%positive, s_ann, false); (3%positive, s_b, true)], Some s_a).
Example C19_example_election_wf : wf_election example_election = true.
Proof. vm_compute. reflexivity. Qed.
Example C19_example_election_expected : exists x, expected example_election = Some x.
Proof. eexists. vm_compute. reflexivity. Qed.

(* The pinned tree (model flag pinned = true) violates both clauses; each witness is replayed on the
   implementation by the corpus (corpus/C19/blt-*.json), the defects are repaired by fixes/C19-blt-*.diff *)
Theorem C19_blt_roundtrip_pinned_refuted : exists e x ls,
  wf_election e = true /\ expected e = Some x /\ dump_lines true e = DumpOk ls /\
  load_lines true false ls = ParseError.
Proof.   (* the first candidate withdrawn is written as 0, the end-of-ballots marker *)
  eexists ([([1]%positive, 1 # 1)], 1, [(1%positive, s_a, true); (2%positive, s_b, false)], None).
  eexists. eexists. vm_compute. repeat split.
Qed.

Theorem C19_blt_single_candidate_pinned_refuted : exists e x y ls,
  wf_election e = true /\ expected e = Some x /\ dump_lines true e = DumpOk ls /\
  load_lines true false ls = Ok y /\ List.length (snd (fst y)) = 7%nat.
Proof.   (* one candidate "Ann Bee" reloads as seven one-character candidates *)
  eexists ([]%list, 1, [(1%positive, s_ann, false)], None).
  eexists. eexists. eexists. vm_compute. repeat split.
Qed.

Theorem C19_blt_parse_total_pinned_refuted :
  (exists ls, load_lines true false ls = Crash BallotFile.E_INDEX) /\
  (exists ls, load_lines true false ls = Crash E_OTHER) /\
  (exists ls, load_lines true true ls = Crash E_VALUE) /\
  (exists ls y, load_lines true false ls = Ok y /\ fst (fst (fst y)) = [([1; 2; 2], 1 # 1)]).
Proof.
  split; [|split; [|split]].
  - exists [LToks [TNat 2; TNat 1]; LToks [TNat 1; TNat 3; TNat 0]; LToks [TNat 0]]. vm_compute. reflexivity.
  - exists [LToks [TNat 2; TNat 1]; LToks [TBad; TNat 1; TNat 0]; LToks [TNat 0]]. vm_compute. reflexivity.
  - exists [LToks [TNat 1; TNat 1]; LToks [TNum (1 # 2); TNat 1; TNat 0]; LToks [TNat 0]]. vm_compute. reflexivity.
  - (* a 0 inside a ballot is silently read as the last candidate *)
    exists [LToks [TNat 2; TNat 1]; LToks [TNat 1; TNat 1; TNat 0; TNat 2; TNat 0]; LToks [TNat 0]].
    eexists. vm_compute. split; reflexivity.
Qed.

(* ------------------------------------------------------------------ STV files (character level) *)
(* Model/StvFile.v: a line is a list of code points; [E : uenv] holds what Coq cannot contain (Unicode tables beyond
   ASCII, Decimal(str)) - every theorem is for EVERY E; [bl] is the BLT reader that a 'ballots=blt' file is handed to. *)

(* ranked ballots without shared ranks with int / Fraction / Decimal weights, the seat count (seats= of a
   FixedSeatCount or the n_seats argument), candidate names, withdrawn flags, the optional title and the evaluator
   (quota, mandatory quota, tie-breaker) written by dump_lines load back unchanged - through the lines, whatever
   follows the 'end' line, and through the text of dumps / loads: for EVERY well-formed election *)
Theorem C19_stv_roundtrip : forall E e, stv_wf E e = true ->
  exists x ls, stv_expected E e = Some x /\ stv_dump_lines E false e = WOk ls /\
               (forall bl junk, stv_load_lines E false bl (ls ++ junk) = Ok x) /\
               (forall bl, stv_loads E false bl (dumps_text ls) = Ok x).
Proof.
  intros E e Hwf. destruct (stv_roundtrip E e Hwf) as [x [ls [Hx [Hd Hl]]]].
  destruct (stv_roundtrip_text E e Hwf) as [x' [ls' [Hx' [Hd' Hl']]]].
  rewrite Hx in Hx'. inversion Hx'; subst x'. rewrite Hd in Hd'. inversion Hd'; subst ls'.
  exists x, ls. repeat split; assumption.
Qed.

(* the only condition stv_wf puts on nicknames concerns initials beyond ASCII: for an ASCII name it holds by itself *)
Theorem C19_stv_wf_ascii_names : forall E nm, forallb (fun c => c <? 128) nm = true ->
  forallb nick_char_ok (name_to_initials E nm) = true.
Proof. exact ascii_initials_ok. Qed.

(* on EVERY list of lines / every text the reader returns an election or STVParseError - no other exception -
   provided the BLT reader it delegates to does *)
Theorem C19_stv_parse_total : forall E bl ls, (forall r, no_crash (bl r)) ->
  (exists x, stv_load_lines E false bl ls = Ok x) \/ stv_load_lines E false bl ls = ParseError.
Proof.
  intros E bl ls Hbl. pose proof (stv_load_lines_total E bl ls Hbl) as H.
  destruct (stv_load_lines E false bl ls) as [x| |e]; [left; exists x; reflexivity|right; reflexivity|contradiction].
Qed.

(* ... and the BLT reader of Model/BallotFile.v does, whatever splits its lines into tokens *)
Theorem C19_stv_parse_total_text : forall E (lex : str -> line) oneplus text,
  let bl := fun r => load_lines false oneplus (map lex r) in
  (exists x, stv_loads E false bl text = Ok x) \/ stv_loads E false bl text = ParseError.
Proof.
  intros E lex op text bl. unfold stv_loads. apply C19_stv_parse_total. intros r. apply load_lines_total.
Qed.

(* never partial data, 1: what a file with a ballot count yields does not depend on anything after its 'end' line -
   a truncated text is rejected or gives the very same election *)
Theorem C19_stv_prefix_stable : forall E bl ls x, stv_load_lines E false bl ls = Ok x -> stv_mode E ls = true ->
  forall bl' junk, stv_load_lines E false bl' (ls ++ junk) = Ok x.
Proof. exact stv_prefix_stable. Qed.

Theorem C19_stv_truncation : forall E bl ls k x y, stv_load_lines E false bl ls = Ok x ->
  stv_load_lines E false bl (firstn k ls) = Ok y -> stv_mode E (firstn k ls) = true -> y = x.
Proof.
  intros E bl ls k x y Hx Hy Hm. pose proof (stv_prefix_stable E bl (firstn k ls) y Hy Hm bl (skipn k ls)) as H.
  rewrite firstn_skipn, Hx in H. inversion H. reflexivity.
Qed.

(* never partial data, 2: every ranking of a loaded election names candidates of the loaded candidate list *)
Theorem C19_stv_rankings_complete : forall E (lex : str -> line) oneplus ls x,
  stv_load_lines E false (fun r => load_lines false oneplus (map lex r)) ls = Ok x ->
  in_range (List.length (l_pool x)) (l_votes x).
Proof.
  intros E lex op ls x H. eapply stv_loaded_in_range; [|exact H]. intros r y Hy. exact (blt_loaded_in_range op (map lex r) y Hy).
Qed.

(* BLT mode ('method=blt', 'ballots=blt', then the lines of the BLT writer): the STV reader returns what the BLT
   reader returns - ballots, seat count (as FixedSeatCount), candidates, title; with C19_blt_roundtrip this is the
   round trip of dump_lines(votes, system=None, ...) up to the splitting of BLT lines into tokens *)
Theorem C19_stv_blt_mode : forall E bl rest bv bs bc bt, bl rest = Ok (bv, bs, bc, bt) ->
  stv_load_lines E false bl (blt_mode_lines rest) =
  Ok {| l_votes := bv;
        l_system := (match bt with Some t => if nonempty t then Some t else None | None => None end, EvFixed (EvOther true) bs);
        l_cands := map (fun cw => (cname_str (fst cw), snd cw)) bc;
        l_pool := map (fun cw => (cname_str (fst cw), snd cw)) bc |}.
Proof. exact stv_blt_mode_ok. Qed.

(* a non-trivial well-formed election: duplicate names (ordinal nicknames), a withdrawn candidate, an empty ranking,
   Fraction and Decimal weights, a weight written without multiplier, title, tie-breaker, mandatory quota, seat count *)
Definition s_250 : str := Eval compute in codes "2.50".
Definition env1 : uenv :=
  {| udec := fun _ => None; udigit := fun c => c =? 178; uword := fun c => c =? 233; ulower := fun c => [c];
     dec_val := fun s => if str_eqb s s_250 then Some (5 # 2) else None |}.
Definition s_title1 : str := Eval compute in codes "Board = 2024, round 2".
Definition s_zoe : str := [90; 111; 233; 32; 46; 32; 83; 116; 46; 32; 74; 111; 104; 110].    (* "Zoé . St. John" *)
Definition example_stv : stv_election :=
  {| e_votes := [([2; 1]%positive, WQ (3 # 2)); ([3]%positive, WQ (2 # 1)); ([]%list, WQ (1 # 1)); ([1; 3]%positive, WDec s_250);
                 ([1]%positive, WQ (1 # 1))];
     e_system := SysVS (Some s_title1)
                   (EvFixed (EvTie (EvTV false false (-1) true (QNamed s_hare) true) (TbPre true (TbSort (Some 12345)))) 2);
     e_cands := [(1%positive, s_ann, true); (2%positive, s_ann, false); (3%positive, s_zoe, false)];
     e_seats := None; e_output_method := true |}.
Example C19_example_stv_wf : stv_wf env1 example_stv = true.
Proof. vm_compute. reflexivity. Qed.
(* ... and one whose nicknames are initials (with a non-ASCII one), seat count given as argument, no title *)
Definition example_stv2 : stv_election :=
  {| e_votes := [([3; 1]%positive, WQ (7 # 1))];
     e_system := SysEv (EvTV false false (-1) true (QNamed s_droop) false);
     e_cands := [(1%positive, s_ann, false); (3%positive, s_zoe, true)];
     e_seats := Some 1; e_output_method := true |}.
Example C19_example_stv2_wf : stv_wf env1 example_stv2 = true /\ candidate_nicks env1 [s_ann; s_zoe] = [[97; 98]; [122; 115; 106]].
Proof. vm_compute. split; reflexivity. Qed.

(* known finding C19-stv-name-chars (format limitation, delimits stv_wf): header lines have no escaping - a title with
   '#' is cut there, a name with leading white space loses it; the faithful model reproduces both *)
Definition s_a_hash_b : str := Eval compute in codes "a#b".
Definition s_lead : str := Eval compute in codes " lead".
Theorem C19_stv_name_chars_refuted : exists e x ls y,
  stv_wf env1 e = false /\ stv_expected env1 e = Some x /\ stv_dump_lines env1 false e = WOk ls /\
  stv_load_lines env1 false (fun _ => ParseError) ls = Ok y /\
  fst (l_system x) = Some s_a_hash_b /\ fst (l_system y) = Some [97] /\
  l_cands x = [(s_lead, false)] /\ l_cands y = [(tl s_lead, false)].
Proof.
  exists {| e_votes := [([1]%positive, WQ (2 # 1))]; e_system := SysVS (Some s_a_hash_b) (EvTV false false (-1) true (QNamed s_droop) false);
            e_cands := [(1%positive, s_lead, false)]; e_seats := None; e_output_method := true |}.
  eexists. eexists. eexists. vm_compute. repeat split.
Qed.

(* The tree before the repairs (model flag legacy = true) violates both clauses; each witness is replayed on the
   implementation by the corpus (corpus/C19/stv-legacy-*.json), the defects are repaired by fixes/C19-stv-*.diff *)
Theorem C19_stv_title_none_legacy_refuted : exists e x ls y,
  stv_wf env1 e = true /\ stv_expected env1 e = Some x /\ stv_dump_lines env1 true e = WOk ls /\
  stv_load_lines env1 true (fun _ => ParseError) ls = Ok y /\ fst (l_system x) = None /\ fst (l_system y) = Some s_None.
Proof.   (* an untitled system is written with the line 'title=None' *)
  exists {| e_votes := []; e_system := SysVS None (EvTV false false (-1) true (QNamed s_droop) false);
            e_cands := [(1%positive, s_ann, false)]; e_seats := None; e_output_method := true |}.
  eexists. eexists. eexists. vm_compute. repeat split.
Qed.

Definition lines_of (l : list String.string) : list str := map codes l.
Theorem C19_stv_isdigit_legacy_refuted :
  let bl := fun _ : list str => @ParseError loaded in
  let sup2 := [178] in      (* superscript two: str.isdigit() holds, int() raises ValueError *)
  stv_load_lines env1 true bl (lines_of ["method=BC"; "quota=droop"] ++ [s_ballots ++ 61 :: sup2])%list = Crash E_VALUE /\
  stv_load_lines env1 true bl (lines_of ["method=BC"] ++ [s_quota ++ 61 :: sup2] ++ lines_of ["ballots=0"])%list = Crash E_VALUE /\
  stv_load_lines env1 true bl (lines_of ["method=BC"; "quota=droop"] ++ [s_random ++ 61 :: sup2] ++ lines_of ["ballots=0"])%list = Crash E_VALUE /\
  stv_load_lines env1 true bl (lines_of ["method=BC"; "quota=droop"; "candidate=a A"; "order=a"; "ballots=1"] ++ [sup2])%list = Crash E_VALUE.
Proof. vm_compute. repeat split. Qed.

Theorem C19_stv_blt_seats_legacy_refuted : exists ls bl y,
  bl (skipn 3 ls) = Ok y /\ stv_load_lines env1 true bl ls = Crash E_VALUE /\
  exists x, stv_load_lines env1 false bl ls = Ok x.
Proof.   (* 'seats=' before 'ballots=blt': FixedSeatCount was wrapped into FixedSeatCount -> ValueError *)
  exists (lines_of ["method=blt"; "seats=2"; "ballots=blt"; "1 1"; "1 1 0"; "0"]),
         (fun _ => Ok ([([1], 1 # 1)], 1, [(Numbered 1, false)], None)).
  eexists. split; [reflexivity|]. split; [vm_compute; reflexivity|]. eexists. vm_compute. reflexivity.
Qed.

(* candidate 2371 of an election with ordinal nicknames is nicknamed 'end': a ballot for that candidate alone with
   weight one was written as the line 'end' and ended the ballot list *)
Definition many_cands : list cand := map (fun i => (Pos.of_nat i, [67], false)) (seq 1 2371).
Definition ordinal_end_election : stv_election :=
  {| e_votes := [([2371]%positive, WQ (1 # 1))]; e_system := SysEv (EvTV false false (-1) true (QNamed s_droop) false);
     e_cands := many_cands; e_seats := None; e_output_method := true |}.
Theorem C19_stv_ordinal_end_legacy_refuted :
  stv_wf env1 ordinal_end_election = true /\
  match stv_dump_lines env1 true ordinal_end_election with
  | WOk ls => stv_load_lines env1 true (fun _ => ParseError) ls
  | _ => Crash 0
  end = ParseError.
Proof. split; vm_compute; reflexivity. Qed.

Print Assumptions C19_roundtrip.
Print Assumptions C19_system_roundtrip.
Print Assumptions C19_rejects.
Print Assumptions C19_representable_split.
Print Assumptions C19_rejects_exactly.
Print Assumptions C19_saved_reloads.
Print Assumptions C19_fixed_agrees_with_pinned.
Print Assumptions C19_eqb_refl.
Print Assumptions C19_rejects_opaque_pinned.
Print Assumptions C19_rejects_reserved_key_refuted.
Print Assumptions C19_rejects_set_refuted.
Print Assumptions C19_rejects_lambda_refuted.
Print Assumptions C19_rejects_closure_refuted.
Print Assumptions C19_rejects_hidden_class_refuted.
Print Assumptions C19_blt_roundtrip.
Print Assumptions C19_blt_parse_total.
Print Assumptions C19_blt_roundtrip_pinned_refuted.
Print Assumptions C19_blt_single_candidate_pinned_refuted.
Print Assumptions C19_blt_parse_total_pinned_refuted.
Print Assumptions C19_stv_roundtrip.
Print Assumptions C19_stv_wf_ascii_names.
Print Assumptions C19_stv_parse_total.
Print Assumptions C19_stv_parse_total_text.
Print Assumptions C19_stv_prefix_stable.
Print Assumptions C19_stv_truncation.
Print Assumptions C19_stv_rankings_complete.
Print Assumptions C19_stv_blt_mode.
Print Assumptions C19_stv_name_chars_refuted.
Print Assumptions C19_stv_title_none_legacy_refuted.
Print Assumptions C19_stv_isdigit_legacy_refuted.
Print Assumptions C19_stv_blt_seats_legacy_refuted.
Print Assumptions C19_stv_ordinal_end_legacy_refuted.
