(* C19 - Serialised systems and ballot files reload to equivalent objects.
   Property theorems only.  Models: Model/Persist.v (persist.py value codec, from_dict, the
   effect of json.dumps/json.loads), Model/BallotFile.v (BLT and STV writers/parsers at token
   level); proofs: Proofs/Persist_proofs.v, Proofs/BallotFile_proofs.v.
   The persist theorems hold for EVERY environment [E] (Unicode identifier tables, Decimal
   parser, class table, importable callables): these are oracle arguments, not assumptions. *)
From Coq Require Import ZArith List Bool Lia Strings.String.
From Coq Require Import QArith.
From VL Require Import Model.Persist Proofs.Persist_proofs Model.BallotFile Proofs.BallotFile_proofs.
Import ListNotations.
Open Scope string_scope.
Open Scope Z_scope.

(* ------------------------------------------------------------------ persist: value codec *)

(* every representable value - any nesting depth - is saved without refusal and reloads to itself,
   directly and through JSON text *)
Theorem C19_roundtrip : forall E v, representable E v = true ->
  exists j, serialize_value v = SOk j /\ deserialize_value E j = DOk v /\
            deserialize_value E (json_rt j) = DOk v.
Proof. exact roundtrip_json. Qed.

(* a system (an object with to_dict): from_dict of its dictionary, also via JSON text, gives the
   same object, which therefore serialises identically *)
Theorem C19_system_roundtrip : forall E c ps, representable E (PObj c ps) = true ->
  exists j, serialize_value (PObj c ps) = SOk j /\
            from_dict E j = DOk (PObj c ps) /\ from_dict E (json_rt j) = DOk (PObj c ps).
Proof. exact system_roundtrip. Qed.

(* saving is refused exactly when an opaque value (no to_dict, not atomic, not iterable, not
   callable) occurs somewhere inside *)
Theorem C19_rejects_opaque : forall v, serialize_value v = SErr <-> has_opaque v = true.
Proof. intros v. exact (ser_refuses_iff v true). Qed.

(* the duplicate test used by [representable] really excludes structurally equal members *)
Theorem C19_eqb_refl : forall v, pval_eqb v v = true.
Proof. exact pval_eqb_refl. Qed.

(* The property demands more: EVERY value that does not reload to itself is refused when saving. *)
Definition C19_rejects_full_statement : Prop :=
  forall E v, representable E v = false -> serialize_value v = SErr.

(* A small concrete environment for the closed-term witnesses. *)
Definition s_max : str := Eval compute in codes "max".
Definition env0 : env :=
  {| xid_start := fun _ => false; xid_continue := fun _ => false; dec_canon := fun s => Some s;
     class_exists := fun _ => true; class_accepts := fun _ _ => true;
     callable_resolves := fun s => str_eqb s s_max |}.

(* refuted by the faithful model, four ways (each replayed on the implementation by the harness):
   1. a plain dictionary {'callable': 'max'} is saved as it is and comes back as the builtin max;
   2. a non-frozen set is saved as a list and comes back as a list;
   3. a lambda is saved under the name 'm.<lambda>' and comes back as a dictionary;
   4. a closure is saved under a name that cannot be resolved: loading fails. *)
Theorem C19_rejects_reserved_key_refuted : exists v j v',
  representable env0 v = false /\ serialize_value v = SOk j /\
  deserialize_value env0 (json_rt j) = DOk v' /\ pval_eqb v v' = false.
Proof.
  exists (PDict [(PStr s_callable, PStr s_max)]), (JDict [(s_callable, JStr s_max)]), (PCallable s_max).
  vm_compute. repeat split.
Qed.

Theorem C19_rejects_set_refuted : exists v j v',
  representable env0 v = false /\ serialize_value v = SOk j /\
  deserialize_value env0 (json_rt j) = DOk v' /\ pval_eqb v v' = false.
Proof.
  exists (PSet [PInt 1; PInt 2]), (JList false [JInt 1; JInt 2]), (PList [PInt 1; PInt 2]).
  vm_compute. repeat split.
Qed.

Definition s_lambda : str := Eval compute in codes "m.<lambda>".
Theorem C19_rejects_lambda_refuted : exists v j v',
  representable env0 v = false /\ serialize_value v = SOk j /\
  deserialize_value env0 (json_rt j) = DOk v' /\ pval_eqb v v' = false.
Proof.
  exists (PCallable s_lambda), (JDict [(s_callable, JStr s_lambda)]), (PDict [(PStr s_callable, PStr s_lambda)]).
  vm_compute. repeat split.
Qed.

Definition s_closure : str := Eval compute in codes "votelib.evaluate.openlist._quota_fractional".
Theorem C19_rejects_closure_refuted : exists v j,
  representable env0 v = false /\ serialize_value v = SOk j /\
  deserialize_value env0 (json_rt j) = DErr E_ATTR.
Proof.
  exists (PCallable s_closure), (JDict [(s_callable, JStr s_closure)]).
  vm_compute. repeat split.
Qed.

(* the hypotheses are satisfiable by a non-trivial value: a system with a Fraction, a Decimal, a
   tuple-keyed dictionary, a frozenset, a nested object, a str-keyed dictionary carrying the word
   'type' with a non-identifier string, and a callable *)
Definition s_cls : str := Eval compute in codes "votelib.evaluate.core.FixedSeatCount".
Definition s_a : str := Eval compute in codes "evaluator".
Definition s_b : str := Eval compute in codes "n_seats".
Definition s_dec : str := Eval compute in codes "1.50".
Definition s_noid : str := Eval compute in codes "not an identifier".
Definition example_value : pval :=
  PObj s_cls
    [(s_a, PObj s_cls [(s_a, PCallable s_max); (s_b, PFrac (-3) 4)]);
     (s_b, PList [PDec s_dec; PNone; PBool true;
                  PDict [(PTuple [PInt 1; PStr s_a], PFrozenset [PInt 1; PInt 2]); (PInt 7, PList [])];
                  PDict [(PStr s_type, PStr s_noid); (PStr s_b, PTuple [])]])].
Example C19_example_representable : representable env0 example_value = true.
Proof. vm_compute. reflexivity. Qed.

(* ------------------------------------------------------------------ BLT files (token level) *)

(* ranked ballots without shared ranks with their weights, the seat count, candidate names, withdrawn
   flags and title, written by dump_lines, load back unchanged (identities replaced by positions):
   for EVERY well-formed election - any number of candidates and ballots *)
Theorem C19_blt_roundtrip : forall e x, wf_election e = true -> expected e = Some x ->
  exists ls, dump_lines false e = DumpOk ls /\ load_lines false false ls = Ok x.
Proof. exact blt_roundtrip. Qed.

(* on EVERY list of token lines the parser returns data or BLTParseError - no other exception *)
Theorem C19_blt_parse_total : forall oneplus ls,
  (exists x, load_lines false oneplus ls = Ok x) \/ load_lines false oneplus ls = ParseError.
Proof.
  intros op ls. pose proof (load_lines_total op ls) as H.
  destruct (load_lines false op ls) as [x| |e]; [left; exists x; reflexivity|right; reflexivity|contradiction].
Qed.

(* a non-trivial well-formed election: duplicate names, a withdrawn first candidate, Fraction weight, title *)
Definition s_ann : str := Eval compute in codes "Ann Bee".
Definition example_election : election :=
  ([([2; 1]%positive, 3 # 2); ([3]%positive, 2 # 1); ([]%list, 1 # 1)], 2,
   [(1%positive, s_ann, true); (2%positive, s_ann, false); (3%positive, s_b, true)], Some s_a).
Example C19_example_election_wf : wf_election example_election = true.
Proof. vm_compute. reflexivity. Qed.
Example C19_example_election_expected : exists x, expected example_election = Some x.
Proof. eexists. vm_compute. reflexivity. Qed.

(* The pinned tree (model flag pinned = true) violates both clauses; each witness is replayed on the
   implementation by the corpus (corpus/C19/blt-*.json), the defects are repaired by fixes/C19-blt-*.diff *)
Theorem C19_blt_roundtrip_pinned_refuted : exists e x ls,
  wf_election e = true /\ expected e = Some x /\ dump_lines true e = DumpOk ls /\
  load_lines true false ls = ParseError.
Proof.   (* the first candidate withdrawn is written as 0, the end-of-ballots marker *)
  eexists ([([1]%positive, 1 # 1)], 1, [(1%positive, s_a, true); (2%positive, s_b, false)], None).
  eexists. eexists. vm_compute. repeat split.
Qed.

Theorem C19_blt_single_candidate_pinned_refuted : exists e x y ls,
  wf_election e = true /\ expected e = Some x /\ dump_lines true e = DumpOk ls /\
  load_lines true false ls = Ok y /\ List.length (snd (fst y)) = 7%nat.
Proof.   (* one candidate "Ann Bee" reloads as seven one-character candidates *)
  eexists ([]%list, 1, [(1%positive, s_ann, false)], None).
  eexists. eexists. eexists. vm_compute. repeat split.
Qed.

Theorem C19_blt_parse_total_pinned_refuted :
  (exists ls, load_lines true false ls = Crash BallotFile.E_INDEX) /\
  (exists ls, load_lines true false ls = Crash E_OTHER) /\
  (exists ls, load_lines true true ls = Crash E_VALUE) /\
  (exists ls y, load_lines true false ls = Ok y /\ fst (fst (fst y)) = [([1; 2; 2], 1 # 1)]).
Proof.
  split; [|split; [|split]].
  - exists [LToks [TNat 2; TNat 1]; LToks [TNat 1; TNat 3; TNat 0]; LToks [TNat 0]]. vm_compute. reflexivity.
  - exists [LToks [TNat 2; TNat 1]; LToks [TBad; TNat 1; TNat 0]; LToks [TNat 0]]. vm_compute. reflexivity.
  - exists [LToks [TNat 1; TNat 1]; LToks [TNum (1 # 2); TNat 1; TNat 0]; LToks [TNat 0]]. vm_compute. reflexivity.
  - (* a 0 inside a ballot is silently read as the last candidate *)
    exists [LToks [TNat 2; TNat 1]; LToks [TNat 1; TNat 1; TNat 0; TNat 2; TNat 0]; LToks [TNat 0]].
    eexists. vm_compute. split; reflexivity.
Qed.

Print Assumptions C19_roundtrip.
Print Assumptions C19_system_roundtrip.
Print Assumptions C19_rejects_opaque.
Print Assumptions C19_eqb_refl.
Print Assumptions C19_rejects_reserved_key_refuted.
Print Assumptions C19_rejects_set_refuted.
Print Assumptions C19_rejects_lambda_refuted.
Print Assumptions C19_rejects_closure_refuted.
Print Assumptions C19_blt_roundtrip.
Print Assumptions C19_blt_parse_total.
Print Assumptions C19_blt_roundtrip_pinned_refuted.
Print Assumptions C19_blt_single_candidate_pinned_refuted.
Print Assumptions C19_blt_parse_total_pinned_refuted.
