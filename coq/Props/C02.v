(* C02 - Largest remainder: whole quotas first, then largest exact remainders.
   Property theorems only.  Models: Model/Quota.v, Model/QuotaDistributor.v;
   proofs: Proofs/QD_proofs.v, Props/GenTie_Quota.v, Proofs/GetNBest_proofs.v.

   Domain of the positive theorems: positive quota, distinct parties, and no
   party's whole quotas above its cap (explicit or the default cap n_seats) -
   i.e. the cap branch of QuotaDistributor is not entered.  On the pinned tree
   the capped statement of the property is REFUTED (C02_caps_refuted,
   C02_lr_caps_refuted); it stays below as C02_caps_full_statement. *)
From Coq Require Import ZArith QArith Qround List Permutation.
From VL Require Import Prelude.PyDict Model.GetNBest Model.Quota Model.QuotaDistributor
     Proofs.GetNBest_proofs Proofs.QOrd Proofs.QD_proofs Proofs.QD2_proofs.
Import ListNotations.
Open Scope Z_scope.

(* the named quota rules of the model return their textbook values; that the functions GENERATED from quota.py are these model
   functions - hence return the same values - is Props/GenTie_Quota.v (GenTie_Quota, C02_quota_values_generated), an obligation of
   this property as long as the translator accepts the source (otherwise the dense-grid correspondence stands in, DESIGN.md 2.1).
   Kept apart so that a source rewrite the translator cannot read does not take the theorems below with it. *)
Theorem C02_quota_values : forall v s, 0 <= v -> 1 <= s ->
  let V := inject_Z v in
  (hare V s == V / inject_Z s)%Q /\
  (hare_rounded V s == inject_Z (Qfloor (V / inject_Z s + (1 # 2))))%Q /\
  (droop V s == inject_Z (Qfloor (V / inject_Z (s + 1))) + 1)%Q /\
  (hagenbach_bischoff V s == V / inject_Z (s + 1))%Q /\
  (hagenbach_bischoff_ceil V s == inject_Z (Qceiling (V / inject_Z (s + 1))))%Q /\
  (hagenbach_bischoff_rounded V s == inject_Z (Qfloor (V / inject_Z (s + 1) + (1 # 2))))%Q /\
  (imperiali V s == V / inject_Z (s + 2))%Q.
Proof. intros v s Hv Hs V. repeat split; reflexivity. Qed.

Section C02.
  Variable quota : Q -> Z -> Q.
  Variable accept_equal : bool.
  Variable pol : policy.

  (* whole quotas (int(v/q) - prev when positive, equality counting iff accept_equal)
     and the three over-award policies *)
  Theorem C02_whole_quotas_and_policies : forall votes n prev caps,
    let q := quota (qsumv votes) n in
    ~ (q == 0)%Q -> NoDup (map fst votes) -> no_overshoot accept_equal votes q n prev caps ->
    exists sel,
      (forall c v, In (c, v) votes -> dget_or sel c 0 = whole_add accept_equal q prev c v) /\
      (forall c, ~ In c (map fst votes) -> dget_or sel c 0 = 0) /\
      (forall c s, In (c, s) sel -> 0 < s) /\
      qd_evaluate quota accept_equal pol votes n prev caps =
        (if n <? zsumv sel + zsumv prev then
           match pol with
           | PIgnore => QD_ok (plain sel)
           | PError => QD_vse
           | PSubtract => subtract (Z.to_nat (zsumv sel + zsumv prev - n)) votes q prev sel
                                   (zsumv sel + zsumv prev - n)
           end
         else QD_ok (plain sel)).
  Proof. exact (qd_whole_quotas quota accept_equal pol). Qed.

  (* int() is the floor on the non-negative ratios that occur *)
  Theorem C02_whole_is_floor : forall x : Q, (0 <= x)%Q -> py_trunc x = Qfloor x.
  Proof. exact py_trunc_floor. Qed.

  (* LargestRemainder = quota seats + get_n_best over the exact remainders v/q - gained *)
  Theorem C02_lr_structure : forall votes n prev caps sel,
    let q := quota (qsumv votes) n in
    ~ (q == 0)%Q ->
    qd_evaluate quota accept_equal pol votes n prev caps = QD_ok (plain sel) ->
    let gained := add_dict sel prev in
    let nrem := n - zsumv gained in
    lr_evaluate quota accept_equal pol votes n prev caps =
      if nrem <=? 0 then LR_ok (plain sel)
      else LR_ok (seat_best (plain sel)
                   (get_n_best Qle_bool (remainders votes q gained caps) (Z.to_nat nrem))).
  Proof. exact (lr_structure quota accept_equal pol). Qed.

  (* ... so the further seats go to the largest exact remainders, equal remainders
     at the cut being one tie object: the C09 theorems at the remainder map *)
  Theorem C02_remainder_seats : forall (rems : list (C * Q)) k, (1 <= k)%nat ->
    let r := get_n_best Qle_bool rems k in
    (length rems <= k ->
       exists s, Permutation s rems /\ @sorted_desc C Q Qle_bool s /\ r = map (fun it => Cand (fst it)) s)%nat /\
    (k < length rems ->
       exists above level below thr,
         Permutation (above ++ level ++ below) rems /\
         @sorted_desc C Q Qle_bool above /\
         Forall (fun it => ltb Qle_bool thr (snd it) = true) above /\
         Forall (fun it => eqv Qle_bool (snd it) thr = true) level /\
         Forall (fun it => ltb Qle_bool (snd it) thr = true) below /\
         length above < k <= length above + length level /\
         (length above + length level = k -> r = map (fun it => Cand (fst it)) (above ++ level)) /\
         (k < length above + length level ->
            r = map (fun it => Cand (fst it)) above ++ repeat (TieR (map fst level)) (k - length above)))%nat.
  Proof. exact (get_n_best_spec Qle_bool Qle_bool_total Qle_bool_trans). Qed.

  (* at most one further seat per party *)
  Theorem C02_at_most_one : forall votes q gained caps k, (1 <= k)%nat -> NoDup (map fst votes) ->
    NoDup (flat_map (fun r => match r with Cand c => [c] | TieR _ => [] end)
             (get_n_best Qle_bool (remainders votes q gained caps) k)).
  Proof. exact lr_at_most_one. Qed.

  (* the total equals the seats to fill when the open seats do not outnumber the eligible parties *)
  Theorem C02_lr_total : forall votes q gained caps sel nrem,
    0 < nrem -> (Z.to_nat nrem <= length (remainders votes q gained caps))%nat ->
    ksum (seat_best (plain sel) (get_n_best Qle_bool (remainders votes q gained caps) (Z.to_nat nrem)))
    = ksum (plain sel) + nrem.
  Proof. exact lr_total. Qed.
End C02.

(* ---------------------------------------------------------------- on_overaward = 'subtract': the whole loop
   _subtract_overaward keeps going after a tie: the Tie object becomes a key of `selected` (holding one seat fewer
   than it has members) and takes part in the following rounds with no votes and no previous gains.  The model
   covers this (ksubtract, Model/QuotaDistributor.v); the loop on a plain dictionary is the same loop: *)
Theorem C02_subtract_one_loop : forall votes q prev fuel sel over,
  subtract fuel votes q prev sel over = ksubtract fuel votes q prev (plain sel) over.
Proof. exact subtract_is_ksubtract. Qed.

(* every round withdraws exactly one seat (a tie of m parties: each loses one, the Tie key gains m - 1), whatever the
   keys: a finished loop leaves total - overaward seats *)
Theorem C02_subtract_total : forall votes q prev fuel sel over res,
  NoDup (keys sel) -> 0 <= over ->
  ksubtract fuel votes q prev sel over = QD_ok res -> ksum res = ksum sel - over.
Proof. exact ksubtract_total. Qed.

(* the only shape left unmodelled - a Tie key tied with another key (a Tie of a Tie) - cannot arise when the quota
   is positive and every party's seats plus previous gains are whole quotas contained in its votes: a Tie key then
   holds a positive remainder, every party a non-positive one, and there is never more than one Tie key *)
Theorem C02_subtract_modelled : forall votes q prev, (0 < q)%Q -> forall fuel sel over,
  NoDup (map fst sel) ->
  (forall c s, In (c, s) sel -> (q * inject_Z (s + dget_or prev c 0)%Z <= dget_or votes c 0%Q)%Q) ->
  subtract fuel votes q prev sel over <> QD_unmodelled.
Proof. intros votes q prev Hq fuel sel over. exact (subtract_modelled votes q prev Hq fuel sel over). Qed.

(* QuotaDistributor with on_overaward = 'subtract' on the uncapped domain, positive quota: never unmodelled, and the
   seats awarded plus the previous gains are the seats to fill whenever the whole quotas over-award (their own total
   otherwise) *)
Theorem C02_subtract_policy : forall quota accept_equal votes n prev caps,
  let q := quota (qsumv votes) n in
  (0 < q)%Q -> NoDup (map fst votes) -> no_overshoot accept_equal votes q n prev caps ->
  qd_evaluate quota accept_equal PSubtract votes n prev caps <> QD_unmodelled /\
  exists sel,
    (forall c v, In (c, v) votes -> dget_or sel c 0 = whole_add accept_equal q prev c v) /\
    (forall c, ~ In c (map fst votes) -> dget_or sel c 0 = 0) /\
    forall res, qd_evaluate quota accept_equal PSubtract votes n prev caps = QD_ok res ->
      ksum res + zsumv prev = Z.min n (zsumv sel + zsumv prev).
Proof. exact qd_subtract_domain. Qed.

(* the branch, on inputs replayed on the implementation (corpus/C02/subtract-after-tie-*.json): quota 10, two parties
   on 30 votes, 4 seats: both tie for the first withdrawal, the Tie key is withdrawn next - {A: 2, B: 2};
   three parties on 30 votes, 5 seats: {A: 1, B: 1, C: 1, Tie{A,B,C}: 2} *)
Example C02_subtract_after_tie :
  qd_evaluate (fun _ _ => 10#1)%Q true PSubtract [(1%positive, 30#1); (2%positive, 30#1)]%Q 4 [] []
    = QD_ok [(K 1%positive, 2); (K 2%positive, 2)] /\
  qd_evaluate (fun _ _ => 10#1)%Q true PSubtract [(1%positive, 30#1); (2%positive, 30#1); (3%positive, 30#1)]%Q 5 [] []
    = QD_ok [(K 1%positive, 1); (K 2%positive, 1); (K 3%positive, 1); (KT [1%positive; 2%positive; 3%positive], 2)].
Proof. split; vm_compute; reflexivity. Qed.

(* ---- the capped clause: full statement, and its refutation on the pinned tree *)
Definition C02_caps_full_statement : Prop :=
  forall quota ae pol votes n prev caps sel,
    qd_evaluate_pinned quota ae pol votes n prev caps = QD_ok sel ->
    forall c m, dget caps c = Some m -> dget_or prev c 0 <= m ->
      (* a capped party is held at its cap when its whole quotas reach it *)
      (forall v, In (c, v) votes -> m <= whole_add ae (quota (qsumv votes) n) [] c v ->
         kdget sel c + dget_or prev c 0 = m).

Theorem C02_caps_refuted : ~ C02_caps_full_statement.
Proof.
  intros H.
  specialize (H droop true PError [(1%positive, 60#1); (2%positive, 30#1); (3%positive, 10#1)]%Q 5 []
                [(1%positive, 2)] [(K 1%positive, 0); (K 2%positive, 2)] eq_refl 1%positive 2 eq_refl).
  assert (Hc : 0 <= 2) by (vm_compute; discriminate).
  specialize (H Hc (60#1)%Q (or_introl eq_refl)).
  assert (Hw : 2 <= whole_add true (droop (qsumv [(1%positive, 60#1); (2%positive, 30#1); (3%positive, 10#1)]%Q) 5) [] 1%positive (60#1)%Q)
    by (vm_compute; discriminate).
  specialize (H Hw). vm_compute in H. discriminate.
Qed.

(* LargestRemainder never passes max_seats to the quota stage: a party capped at 2 ends with 3 *)
Theorem C02_lr_caps_refuted :
  lr_evaluate_pinned droop true PError [(1%positive, 60#1); (2%positive, 30#1); (3%positive, 10#1)]%Q 5 []
              [(1%positive, 2)]
  = LR_ok [(K 1%positive, 3); (K 2%positive, 2)].
Proof. vm_compute. reflexivity. Qed.

(* non-vacuity of the positive domain *)
Example C02_example :
  lr_evaluate hare true PError [(1%positive, 60#1); (2%positive, 30#1); (3%positive, 10#1)]%Q 5 [] []
  = LR_ok [(K 1%positive, 3); (K 2%positive, 1); (KT [2%positive; 3%positive], 1)].
Proof. vm_compute. reflexivity. Qed.

Print Assumptions C02_quota_values.
Print Assumptions C02_whole_quotas_and_policies.
Print Assumptions C02_whole_is_floor.
Print Assumptions C02_lr_structure.
Print Assumptions C02_remainder_seats.
Print Assumptions C02_at_most_one.
Print Assumptions C02_lr_total.
Print Assumptions C02_caps_refuted.
Print Assumptions C02_lr_caps_refuted.
Print Assumptions C02_subtract_one_loop.
Print Assumptions C02_subtract_total.
Print Assumptions C02_subtract_modelled.
Print Assumptions C02_subtract_policy.
