(* C02 - Largest remainder: whole quotas first, then largest exact remainders.
   Property theorems only.  Models: Model/Quota.v, Model/QuotaDistributor.v;
   proofs: Proofs/QD_proofs.v, Props/GenTie_Quota.v, Proofs/GetNBest_proofs.v.

   The model is the library WITH fixes/C02-capbranch.diff and fixes/C02-lr-caps.diff: whole quotas
   are cut at the cap (no cap unless one is given), LargestRemainder passes the caps to the quota
   stage.  The capped clause is a theorem for every input (C02_caps, C02_lr_caps, C02_lr_caps_total);
   the theorems stated on the domain where no whole-quota count exceeds a cap (no_overshoot) are kept
   and follow from the general ones.  The code as written on the pinned tree stays expressible
   (qd_evaluate_at / lr_evaluate_at false) and the capped statements are REFUTED of it
   (C02_caps_refuted, C02_default_cap_refuted, C02_lr_caps_refuted). *)
From Coq Require Import ZArith QArith Qround List Permutation.
From VL Require Import Prelude.PyDict Model.GetNBest Model.Quota Model.QuotaDistributor
     Proofs.GetNBest_proofs Proofs.QOrd Proofs.QD_proofs Proofs.QD2_proofs Proofs.QDOrder_proofs Proofs.LRMono_proofs
     Proofs.QDCaps_proofs.
Import ListNotations.
Open Scope Z_scope.

(* the named quota rules of the model return their textbook values; that the functions GENERATED from quota.py are these model
   functions - hence return the same values - is Props/GenTie_Quota.v (GenTie_Quota, C02_quota_values_generated), an obligation of
   this property as long as the translator accepts the source (otherwise the dense-grid correspondence stands in, DESIGN.md 2.1).
   Kept apart so that a source rewrite the translator cannot read does not take the theorems below with it. *)
Theorem C02_quota_values : forall v s, 0 <= v -> 1 <= s ->
  let V := inject_Z v in
  (hare V s == V / inject_Z s)%Q /\
  (hare_rounded V s == inject_Z (Qfloor (V / inject_Z s + (1 # 2))))%Q /\
  (droop V s == inject_Z (Qfloor (V / inject_Z (s + 1))) + 1)%Q /\
  (hagenbach_bischoff V s == V / inject_Z (s + 1))%Q /\
  (hagenbach_bischoff_ceil V s == inject_Z (Qceiling (V / inject_Z (s + 1))))%Q /\
  (hagenbach_bischoff_rounded V s == inject_Z (Qfloor (V / inject_Z (s + 1) + (1 # 2))))%Q /\
  (imperiali V s == V / inject_Z (s + 2))%Q.
Proof. intros v s Hv Hs V. repeat split; reflexivity. Qed.

Section C02.
  Variable quota : Q -> Z -> Q.
  Variable accept_equal : bool.
  Variable pol : policy.

  (* whole quotas (int(v/q) - prev when positive, equality counting iff accept_equal)
     and the three over-award policies *)
  Theorem C02_whole_quotas_and_policies : forall votes n prev caps,
    let q := quota (qsumv votes) n in
    ~ (q == 0)%Q -> NoDup (map fst votes) -> no_overshoot accept_equal votes q n prev caps ->
    exists sel,
      (forall c v, In (c, v) votes -> dget_or sel c 0 = whole_add accept_equal q prev c v) /\
      (forall c, ~ In c (map fst votes) -> dget_or sel c 0 = 0) /\
      (forall c s, In (c, s) sel -> 0 < s) /\
      qd_evaluate quota accept_equal pol votes n prev caps =
        (if n <? zsumv sel + zsumv prev then
           match pol with
           | PIgnore => QD_ok (plain sel)
           | PError => QD_vse
           | PSubtract => subtract (Z.to_nat (zsumv sel + zsumv prev - n)) votes q prev sel
                                   (zsumv sel + zsumv prev - n)
           end
         else QD_ok (plain sel)).
  Proof. exact (qd_whole_quotas quota accept_equal pol). Qed.

  (* the same for every input, caps included: each party is awarded min(int(v/q), cap) - prev when positive
     (cap_add), then the over-award policy is applied to the total *)
  Theorem C02_capped_quotas_and_policies : forall votes n prev caps,
    let q := quota (qsumv votes) n in
    ~ (q == 0)%Q -> NoDup (map fst votes) ->
    exists sel,
      (forall c v, In (c, v) votes -> dget_or sel c 0 = cap_add accept_equal q prev caps c v) /\
      (forall c, ~ In c (map fst votes) -> dget_or sel c 0 = 0) /\
      (forall c s, In (c, s) sel -> 0 < s /\ In c (map fst votes)) /\
      qd_evaluate quota accept_equal pol votes n prev caps =
        (if n <? zsumv sel + zsumv prev then
           match pol with
           | PIgnore => QD_ok (plain sel)
           | PError => QD_vse
           | PSubtract => subtract (Z.to_nat (zsumv sel + zsumv prev - n)) votes q prev sel
                                   (zsumv sel + zsumv prev - n)
           end
         else QD_ok (plain sel)).
  Proof. exact (qd_capped_quotas quota accept_equal pol). Qed.

  (* int() is the floor on the non-negative ratios that occur *)
  Theorem C02_whole_is_floor : forall x : Q, (0 <= x)%Q -> py_trunc x = Qfloor x.
  Proof. exact py_trunc_floor. Qed.

  (* LargestRemainder = quota seats + get_n_best over the exact remainders v/q - gained *)
  Theorem C02_lr_structure : forall votes n prev caps sel,
    let q := quota (qsumv votes) n in
    ~ (q == 0)%Q ->
    qd_evaluate quota accept_equal pol votes n prev caps = QD_ok (plain sel) ->
    let gained := add_dict sel prev in
    let nrem := n - zsumv gained in
    lr_evaluate quota accept_equal pol votes n prev caps =
      if nrem <=? 0 then LR_ok (plain sel)
      else LR_ok (seat_best (plain sel)
                   (get_n_best Qle_bool (remainders votes q gained caps) (Z.to_nat nrem))).
  Proof. exact (lr_structure quota accept_equal pol). Qed.

  (* ... so the further seats go to the largest exact remainders, equal remainders
     at the cut being one tie object: the C09 theorems at the remainder map *)
  Theorem C02_remainder_seats : forall (rems : list (C * Q)) k, (1 <= k)%nat ->
    let r := get_n_best Qle_bool rems k in
    (length rems <= k ->
       exists s, Permutation s rems /\ @sorted_desc C Q Qle_bool s /\ r = map (fun it => Cand (fst it)) s)%nat /\
    (k < length rems ->
       exists above level below thr,
         Permutation (above ++ level ++ below) rems /\
         @sorted_desc C Q Qle_bool above /\
         Forall (fun it => ltb Qle_bool thr (snd it) = true) above /\
         Forall (fun it => eqv Qle_bool (snd it) thr = true) level /\
         Forall (fun it => ltb Qle_bool (snd it) thr = true) below /\
         length above < k <= length above + length level /\
         (length above + length level = k -> r = map (fun it => Cand (fst it)) (above ++ level)) /\
         (k < length above + length level ->
            r = map (fun it => Cand (fst it)) above ++ repeat (TieR (map fst level)) (k - length above)))%nat.
  Proof. exact (get_n_best_spec Qle_bool Qle_bool_total Qle_bool_trans). Qed.

  (* at most one further seat per party *)
  Theorem C02_at_most_one : forall votes q gained caps k, (1 <= k)%nat -> NoDup (map fst votes) ->
    NoDup (flat_map (fun r => match r with Cand c => [c] | TieR _ => [] end)
             (get_n_best Qle_bool (remainders votes q gained caps) k)).
  Proof. exact lr_at_most_one. Qed.

  (* the total equals the seats to fill when the open seats do not outnumber the eligible parties *)
  Theorem C02_lr_total : forall votes q gained caps sel nrem,
    0 < nrem -> (Z.to_nat nrem <= length (remainders votes q gained caps))%nat ->
    ksum (seat_best (plain sel) (get_n_best Qle_bool (remainders votes q gained caps) (Z.to_nat nrem)))
    = ksum (plain sel) + nrem.
  Proof. exact lr_total. Qed.
End C02.

(* ---------------------------------------------------------------- on_overaward = 'subtract': the whole loop
   _subtract_overaward keeps going after a tie: the Tie object becomes a key of `selected` (holding one seat fewer
   than it has members) and takes part in the following rounds with no votes and no previous gains.  The model
   covers this (ksubtract, Model/QuotaDistributor.v); the loop on a plain dictionary is the same loop: *)
Theorem C02_subtract_one_loop : forall votes q prev fuel sel over,
  subtract fuel votes q prev sel over = ksubtract fuel votes q prev (plain sel) over.
Proof. exact subtract_is_ksubtract. Qed.

(* every round withdraws exactly one seat (a tie of m parties: each loses one, the Tie key gains m - 1), whatever the
   keys: a finished loop leaves total - overaward seats *)
Theorem C02_subtract_total : forall votes q prev fuel sel over res,
  NoDup (keys sel) -> 0 <= over ->
  ksubtract fuel votes q prev sel over = QD_ok res -> ksum res = ksum sel - over.
Proof. exact ksubtract_total. Qed.

(* the only shape left unmodelled - a Tie key tied with another key (a Tie of a Tie) - cannot arise when the quota
   is positive and every party's seats plus previous gains are whole quotas contained in its votes: a Tie key then
   holds a positive remainder, every party a non-positive one, and there is never more than one Tie key *)
Theorem C02_subtract_modelled : forall votes q prev, (0 < q)%Q -> forall fuel sel over,
  NoDup (map fst sel) ->
  (forall c s, In (c, s) sel -> (q * inject_Z (s + dget_or prev c 0)%Z <= dget_or votes c 0%Q)%Q) ->
  subtract fuel votes q prev sel over <> QD_unmodelled.
Proof. intros votes q prev Hq fuel sel over. exact (subtract_modelled votes q prev Hq fuel sel over). Qed.

(* QuotaDistributor with on_overaward = 'subtract' on the uncapped domain, positive quota: never unmodelled, and the
   seats awarded plus the previous gains are the seats to fill whenever the whole quotas over-award (their own total
   otherwise) *)
Theorem C02_subtract_policy : forall quota accept_equal votes n prev caps,
  let q := quota (qsumv votes) n in
  (0 < q)%Q -> NoDup (map fst votes) -> no_overshoot accept_equal votes q n prev caps ->
  qd_evaluate quota accept_equal PSubtract votes n prev caps <> QD_unmodelled /\
  exists sel,
    (forall c v, In (c, v) votes -> dget_or sel c 0 = whole_add accept_equal q prev c v) /\
    (forall c, ~ In c (map fst votes) -> dget_or sel c 0 = 0) /\
    forall res, qd_evaluate quota accept_equal PSubtract votes n prev caps = QD_ok res ->
      ksum res + zsumv prev = Z.min n (zsumv sel + zsumv prev).
Proof. exact qd_subtract_domain. Qed.

(* ... and with any caps (positive quota, distinct parties) *)
Theorem C02_subtract_policy_capped : forall quota accept_equal votes n prev caps,
  let q := quota (qsumv votes) n in
  (0 < q)%Q -> NoDup (map fst votes) ->
  qd_evaluate quota accept_equal PSubtract votes n prev caps <> QD_unmodelled /\
  exists sel,
    (forall c v, In (c, v) votes -> dget_or sel c 0 = cap_add accept_equal q prev caps c v) /\
    (forall c, ~ In c (map fst votes) -> dget_or sel c 0 = 0) /\
    forall res, qd_evaluate quota accept_equal PSubtract votes n prev caps = QD_ok res ->
      ksum res + zsumv prev = Z.min n (zsumv sel + zsumv prev).
Proof. exact qd_subtract_capped. Qed.

(* the branch, on inputs replayed on the implementation (corpus/C02/subtract-after-tie-*.json): quota 10, two parties
   on 30 votes, 4 seats: both tie for the first withdrawal, the Tie key is withdrawn next - {A: 2, B: 2};
   three parties on 30 votes, 5 seats: {A: 1, B: 1, C: 1, Tie{A,B,C}: 2} *)
Example C02_subtract_after_tie :
  qd_evaluate (fun _ _ => 10#1)%Q true PSubtract [(1%positive, 30#1); (2%positive, 30#1)]%Q 4 [] []
    = QD_ok [(K 1%positive, 2); (K 2%positive, 2)] /\
  qd_evaluate (fun _ _ => 10#1)%Q true PSubtract [(1%positive, 30#1); (2%positive, 30#1); (3%positive, 30#1)]%Q 5 [] []
    = QD_ok [(K 1%positive, 1); (K 2%positive, 1); (K 3%positive, 1); (KT [1%positive; 2%positive; 3%positive], 2)].
Proof. split; vm_compute; reflexivity. Qed.

(* ---- the capped clause, for every input.
   held ae q prev caps c v = max(prev[c], min(whole quotas of v, cap[c]))  - the seats a party holds after the whole-quota
   stage, previous gains included; held_total = their sum (plus the previous gains of parties without votes);
   below_cap = the parties that may still take a seat (Proofs/QDCaps_proofs.v).  [fixed] selects the modelled code:
   true = with fixes/C02-capbranch.diff + fixes/C02-lr-caps.diff, false = the pinned tree. *)
Definition C02_caps_full_statement_at (fixed : bool) : Prop :=
  forall quota ae pol votes n prev caps sel,
    NoDup (map fst votes) -> Forall (fun cs : C * Z => 0 <= snd cs) prev ->
    qd_evaluate_at quota ae pol fixed votes n prev caps = QD_ok sel ->
    let q := quota (qsumv votes) n in
    (* caps are never exceeded *)
    (forall c m, dget caps c = Some m -> dget_or prev c 0 <= m -> kdget sel c + dget_or prev c 0 <= m) /\
    (* nobody holds more than the whole quotas in its votes, cut at its cap; parties without votes get nothing *)
    (forall c v, In (c, v) votes -> kdget sel c + dget_or prev c 0 <= held ae q prev caps c v) /\
    (forall c, ~ In c (map fst votes) -> kdget sel c = 0) /\
    (* unless on_overaward = 'subtract' has to withdraw seats, everybody holds exactly that: a party whose whole quotas
       reach its cap is held at the cap, every other party receives its whole quotas *)
    ((pol = PSubtract -> held_total ae q prev caps votes <= n) ->
       forall c v, In (c, v) votes -> kdget sel c + dget_or prev c 0 = held ae q prev caps c v).
Definition C02_caps_full_statement : Prop := C02_caps_full_statement_at true.

Theorem C02_caps : C02_caps_full_statement.
Proof.
  unfold C02_caps_full_statement, C02_caps_full_statement_at, qd_evaluate_at.
  intros quota ae pol votes n prev caps sel Hnd Hp Hr. exact (qd_caps quota ae pol votes n prev caps sel Hnd Hp Hr).
Qed.

(* the pinned tree: a party capped at 2 with 3 whole quotas is reset to 0 seats *)
Theorem C02_caps_refuted : ~ C02_caps_full_statement_at false.
Proof.
  intros H.
  destruct (H droop true PError [(1%positive, 60#1); (2%positive, 30#1); (3%positive, 10#1)]%Q 5 []
              [(1%positive, 2)] [(K 1%positive, 0); (K 2%positive, 2)]) as (_ & _ & _ & H4).
  - repeat constructor; simpl; intuition discriminate.
  - constructor.
  - vm_compute. reflexivity.
  - specialize (H4 (fun E => match E with eq_refl => I end) 1%positive (60#1)%Q (or_introl eq_refl)).
    vm_compute in H4. discriminate.
Qed.

(* the pinned tree enters the same branch without any cap (default cap n_seats): a single party with 5 Imperiali quotas
   and 3 seats, on_overaward = 'ignore', ends with 0 seats instead of keeping the surplus *)
Theorem C02_default_cap_refuted :
  qd_evaluate_at imperiali true PIgnore false [(1%positive, 15#1)]%Q 3 [] [] = QD_ok [(K 1%positive, 0)] /\
  qd_evaluate_at imperiali true PIgnore true [(1%positive, 15#1)]%Q 3 [] [] = QD_ok [(K 1%positive, 5)] /\
  held true (imperiali (15#1) 3) [] [] 1%positive (15#1)%Q = 5.
Proof. repeat split; vm_compute; reflexivity. Qed.

(* LargestRemainder: kposs = the seats under the party's key plus one if the party is a member of a tie object *)
Definition C02_lr_caps_full_statement_at (fixed : bool) : Prop :=
  forall quota ae pol votes n prev caps sel,
    NoDup (map fst votes) -> NoDup (map fst prev) -> Forall (fun cs : C * Z => 0 <= snd cs) prev ->
    lr_evaluate_at quota ae pol fixed votes n prev caps = LR_ok sel ->
    let q := quota (qsumv votes) n in
    (* caps are never exceeded, a seat that may come through a tie object included *)
    (forall c m, dget caps c = Some m -> dget_or prev c 0 <= m -> kposs sel c + dget_or prev c 0 <= m) /\
    (forall c, ~ In c (map fst votes) -> kposs sel c = 0) /\
    (* unless seats are withdrawn: at least the whole quotas cut at the cap, at most one further seat *)
    ((pol = PSubtract -> held_total ae q prev caps votes <= n) ->
       forall c v, In (c, v) votes ->
         held ae q prev caps c v <= kdget sel c + dget_or prev c 0 /\
         kposs sel c + dget_or prev c 0 <= held ae q prev caps c v + 1) /\
    (* the total: every open seat is filled as long as parties below their caps remain *)
    (held_total ae q prev caps votes <= n ->
       ksum sel + zsumv prev =
         held_total ae q prev caps votes
         + Z.min (n - held_total ae q prev caps votes) (Z.of_nat (length (filter (below_cap ae q prev caps) votes)))).
Definition C02_lr_caps_full_statement : Prop := C02_lr_caps_full_statement_at true.

Theorem C02_lr_caps : C02_lr_caps_full_statement.
Proof.
  unfold C02_lr_caps_full_statement, C02_lr_caps_full_statement_at, lr_evaluate_at.
  intros quota ae pol votes n prev caps sel Hnd Hpn Hp Hr. exact (lr_caps quota ae pol votes n prev caps sel Hnd Hpn Hp Hr).
Qed.

(* "the total is unchanged": with caps the house is still filled exactly whenever the open seats do not outnumber the
   parties that may take one *)
Theorem C02_lr_caps_total : forall quota ae pol votes n prev caps sel,
  NoDup (map fst votes) -> NoDup (map fst prev) -> Forall (fun cs : C * Z => 0 <= snd cs) prev ->
  lr_evaluate quota ae pol votes n prev caps = LR_ok sel ->
  let q := quota (qsumv votes) n in
  held_total ae q prev caps votes <= n ->
  n - held_total ae q prev caps votes <= Z.of_nat (length (filter (below_cap ae q prev caps) votes)) ->
  ksum sel + zsumv prev = n.
Proof.
  intros quota ae pol votes n prev caps sel Hnd Hpn Hp Hr q Hle Hopen.
  destruct (lr_caps quota ae pol votes n prev caps sel Hnd Hpn Hp Hr) as (_ & _ & _ & H4). fold q in H4.
  rewrite (H4 Hle). rewrite Z.min_l by exact Hopen. ring.
Qed.

(* the pinned tree: LargestRemainder never passes max_seats to the quota stage: a party capped at 2 ends with 3 *)
Example C02_lr_caps_pinned_example :
  lr_evaluate_at droop true PError false [(1%positive, 60#1); (2%positive, 30#1); (3%positive, 10#1)]%Q 5 []
              [(1%positive, 2)]
  = LR_ok [(K 1%positive, 3); (K 2%positive, 2)].
Proof. vm_compute. reflexivity. Qed.

Theorem C02_lr_caps_refuted : ~ C02_lr_caps_full_statement_at false.
Proof.
  intros H.
  destruct (H droop true PError [(1%positive, 60#1); (2%positive, 30#1); (3%positive, 10#1)]%Q 5 []
              [(1%positive, 2)] [(K 1%positive, 3); (K 2%positive, 2)]) as (H1 & _).
  - repeat constructor; simpl; intuition discriminate.
  - constructor.
  - constructor.
  - vm_compute. reflexivity.
  - specialize (H1 1%positive 2 eq_refl). vm_compute in H1. apply H1; [intros E; inversion E|reflexivity].
Qed.

(* the repaired code on the same inputs: the capped party is held at 2, the seat it cannot take goes to the largest remainder;
   whole quotas above the house are judged by the over-award policy (pinned tree: ZeroDivisionError from the cap branch) *)
Example C02_caps_example :
  qd_evaluate droop true PError [(1%positive, 60#1); (2%positive, 30#1); (3%positive, 10#1)]%Q 5 [] [(1%positive, 2)]
    = QD_ok [(K 1%positive, 2); (K 2%positive, 1)] /\
  lr_evaluate droop true PError [(1%positive, 60#1); (2%positive, 30#1); (3%positive, 10#1)]%Q 5 [] [(1%positive, 2)]
    = LR_ok [(K 1%positive, 2); (K 2%positive, 2); (K 3%positive, 1)] /\
  lr_evaluate_at hagenbach_bischoff true PError false [(1%positive, 0#1); (3%positive, 0#1); (2%positive, 0#1); (4%positive, 18#1)]%Q 2 [] []
    = LR_err QD_zerodiv /\
  lr_evaluate_at hagenbach_bischoff true PError true [(1%positive, 0#1); (3%positive, 0#1); (2%positive, 0#1); (4%positive, 18#1)]%Q 2 [] []
    = LR_err QD_vse.
Proof. repeat split; vm_compute; reflexivity. Qed.

(* non-vacuity of the hypotheses of C02_lr_caps_total on an input whose cap binds: 3 seats held after the whole quotas
   (party 1 cut from 3 to 2), 2 open seats, 2 parties below their caps: the house of 5 is filled *)
Example C02_lr_caps_total_example :
  let votes := [(1%positive, 60#1); (2%positive, 30#1); (3%positive, 10#1)]%Q in
  let q := droop (qsumv votes) 5 in
  held_total true q [] [(1%positive, 2)] votes = 3 /\
  length (filter (below_cap true q [] [(1%positive, 2)]) votes) = 2%nat /\
  whole_q true q (60#1)%Q = 3.
Proof. repeat split; vm_compute; reflexivity. Qed.

(* non-vacuity of the positive domain *)
Example C02_example :
  lr_evaluate hare true PError [(1%positive, 60#1); (2%positive, 30#1); (3%positive, 10#1)]%Q 5 [] []
  = LR_ok [(K 1%positive, 3); (K 2%positive, 1); (KT [2%positive; 3%positive], 1)].
Proof. vm_compute. reflexivity. Qed.

Print Assumptions C02_quota_values.
Print Assumptions C02_whole_quotas_and_policies.
Print Assumptions C02_whole_is_floor.
Print Assumptions C02_lr_structure.
Print Assumptions C02_remainder_seats.
Print Assumptions C02_at_most_one.
Print Assumptions C02_lr_total.
Print Assumptions C02_capped_quotas_and_policies.
Print Assumptions C02_caps.
Print Assumptions C02_caps_refuted.
Print Assumptions C02_default_cap_refuted.
Print Assumptions C02_lr_caps.
Print Assumptions C02_lr_caps_total.
Print Assumptions C02_lr_caps_refuted.
Print Assumptions C02_subtract_policy_capped.
Print Assumptions C02_subtract_one_loop.
Print Assumptions C02_subtract_total.
Print Assumptions C02_subtract_modelled.
Print Assumptions C02_subtract_policy.
