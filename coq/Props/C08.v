(* C08 - Every evaluator fills exactly the seats asked for, with valid distinct winners.
   Property theorems only.  Models: Model/GetNBest.v (the shared top-n primitive producing the tie
   encoding), Model/HighestAverages.v, Model/QuotaDistributor.v, Model/STV.v; proofs:
   Proofs/Shape_proofs.v and the proofs of C01 / C02 / C04.

   [sel_shape cands n r] is the declarative shape of a selection: exactly n entries; plain winners are
   distinct candidates of the votes; every tie object names distinct candidates of the votes, none of
   them also elected, and occurs fewer times than it has members (once per seat it contests). *)
From Coq Require Import ZArith QArith List Bool Arith Lia.
From VL Require Import Prelude.PyDict Model.GetNBest Model.Divisor Model.HighestAverages Model.QuotaDistributor Model.STV
     Proofs.Dict_proofs Proofs.GetNBest_proofs Proofs.QOrd Proofs.HA_proofs Proofs.Divisor_proofs Proofs.Shape_proofs
     Proofs.QD_proofs Proofs.STV_proofs.
Import ListNotations.

(* normal form of every get_n_best result (plurality, approval, positional, score voting ... all end
   in it): plain winners, then k copies of ONE tie object with more than k members *)
Theorem C08_selection_normal_form : forall (votes : list (C * Q)) (n : nat),
  (1 <= n <= length votes)%nat -> NoDup (map fst votes) ->
  exists elected T k,
    get_n_best Qle_bool votes n = map Cand elected ++ repeat (TieR T) k /\
    (length elected + k = n)%nat /\ (k = 0%nat \/ (k < length T)%nat) /\
    NoDup (elected ++ T) /\ incl (elected ++ T) (map fst votes).
Proof. exact (@gnb_shape C). Qed.

(* hence the declarative shape, and the boolean checker that is run on the implementation's
   results accepts it; the checker IS the declarative shape *)
Theorem C08_selection_shape : forall (votes : list (C * Q)) (n : nat),
  (1 <= n <= length votes)%nat -> NoDup (map fst votes) ->
  sel_shape (map fst votes) n (get_n_best Qle_bool votes n) /\
  sel_shape_ok (map fst votes) n (get_n_best Qle_bool votes n) = true.
Proof.
  intros votes n Hn Hnd. destruct (gnb_shape votes n Hn Hnd) as (e & T & k & -> & Hl & Hk & Hd & Hi).
  assert (H : sel_shape (map fst votes) n (map Cand e ++ repeat (TieR T) k)) by (apply normal_form_shape; assumption).
  split; [exact H|apply sel_shape_reflect; exact H].
Qed.

Theorem C08_checker_reflects : forall cands n r, sel_shape_ok cands n r = true <-> sel_shape cands n r.
Proof. exact sel_shape_reflect. Qed.

(* highest averages: every returned gain is a positive integer, and gains + tie seats + seats left
   unassigned (only when every party sits at its cap) = the seats to fill *)
Theorem C08_highest_averages_distribution : forall d votes caps prev n gains tie,
  divisor_ok d -> (forall c v, In (c, v) votes -> (0 <= v)%Q) -> NoDup (map fst votes) ->
  NoDup (map fst prev) -> (forall c, (0 <= dget_or prev c 0)%Z) -> (0 <= n - zsum (map snd prev))%Z ->
  evaluate d votes n prev caps = HA_ok gains tie ->
  Forall (fun cg => (0 < snd cg)%Z) gains /\
  (zsum (map snd gains) + (match tie with Some (_, r) => r | None => 0 end)
     + st_rem (final_state d votes n prev caps) = n - zsum (map snd prev))%Z /\
  (st_rem (final_state d votes n prev caps) = 0%Z \/
   forall c v, In (c, v) votes -> (cap_of caps n c <= dget_or (st_totals (final_state d votes n prev caps)) c 0)%Z).
Proof.
  intros d votes caps prev n gains tie Hd Hv Hnd Hndp Hp Hn He.
  destruct (ha_gains_shape d votes caps n prev gains tie Hndp He) as (Hpos & Hsum & ->).
  destruct (ha_total d votes caps prev n (proj1 Hd) (proj2 Hd) Hv Hnd Hp Hn) as [Hacc Hex].
  split; [exact Hpos|]. split; [rewrite Hsum; lia|].
  destruct Hex as [H0|(_ & _ & Hc)]; [left; exact H0|right; exact Hc].
Qed.

(* largest remainder and transferable vote: the seat-count clauses are C02_lr_total and C04_exact_count *)
Theorem C08_largest_remainder_total : forall votes q gained caps sel nrem,
  (0 < nrem)%Z -> (Z.to_nat nrem <= length (remainders votes q gained caps))%nat ->
  ksum (seat_best (plain sel) (get_n_best Qle_bool (remainders votes q gained caps) (Z.to_nat nrem)))
  = (ksum (plain sel) + nrem)%Z.
Proof. exact lr_total. Qed.

Theorem C08_transferable_vote_count : forall cf fuel a n total seats caps acc,
  t_stop (run cf fuel a n total seats caps acc) = None ->
  zsum (map snd (t_seats (run cf fuel a n total seats caps acc))) = n.
Proof. exact run_complete. Qed.

(* non-vacuity: a three-way tie for two seats is a valid shape; the same tie listed three times is not *)
Example C08_example :
  sel_shape_ok [1; 2; 3; 4]%positive 3 [Cand 4%positive; TieR [1; 2; 3]%positive; TieR [1; 2; 3]%positive] = true /\
  sel_shape_ok [1; 2; 3; 4]%positive 4 [Cand 4%positive; TieR [1; 2; 3]%positive; TieR [1; 2; 3]%positive; TieR [3; 2; 1]%positive] = false /\
  sel_shape_ok [1; 2; 3]%positive 2 [Cand 1%positive; Cand 1%positive] = false.
Proof. vm_compute. repeat split; reflexivity. Qed.

Print Assumptions C08_selection_normal_form.
Print Assumptions C08_selection_shape.
Print Assumptions C08_checker_reflects.
Print Assumptions C08_highest_averages_distribution.
Print Assumptions C08_largest_remainder_total.
Print Assumptions C08_transferable_vote_count.
