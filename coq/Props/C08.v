(* C08 - Every evaluator fills exactly the seats asked for, with valid distinct winners.
   Property theorems only.  Models: Model/GetNBest.v (the shared top-n primitive producing the tie
   encoding), Model/HighestAverages.v, Model/QuotaDistributor.v, Model/STV.v; proofs:
   Proofs/Shape_proofs.v and the proofs of C01 / C02 / C04.

   [sel_shape cands n r] is the declarative shape of a selection: exactly n entries; plain winners are
   distinct candidates of the votes; every tie object names distinct candidates of the votes, none of
   them also elected, and occurs fewer times than it has members (once per seat it contests). *)
From Coq Require Import ZArith QArith List Bool Arith Lia.
From VL Require Import Prelude.PyDict Model.GetNBest Model.Divisor Model.HighestAverages Model.QuotaDistributor Model.STV
     Proofs.Dict_proofs Proofs.GetNBest_proofs Proofs.QOrd Proofs.HA_proofs Proofs.Divisor_proofs Proofs.Shape_proofs
     Proofs.QD_proofs Proofs.STV_proofs.
From VL Require Model.Convert Model.Condorcet Model.Cardinal Model.Bucklin Model.Star Proofs.Shape2_proofs.
From VL Require Proofs.Schwartz_proofs.
Import ListNotations.

(* normal form of every get_n_best result (plurality, approval, positional, score voting ... all end
   in it): plain winners, then k copies of ONE tie object with more than k members *)
Theorem C08_selection_normal_form : forall (votes : list (C * Q)) (n : nat),
  (1 <= n <= length votes)%nat -> NoDup (map fst votes) ->
  exists elected T k,
    get_n_best Qle_bool votes n = map Cand elected ++ repeat (TieR T) k /\
    (length elected + k = n)%nat /\ (k = 0%nat \/ (k < length T)%nat) /\
    NoDup (elected ++ T) /\ incl (elected ++ T) (map fst votes).
Proof. exact (@gnb_shape C). Qed.

(* hence the declarative shape, and the boolean checker that is run on the implementation's
   results accepts it; the checker IS the declarative shape *)
Theorem C08_selection_shape : forall (votes : list (C * Q)) (n : nat),
  (1 <= n <= length votes)%nat -> NoDup (map fst votes) ->
  sel_shape (map fst votes) n (get_n_best Qle_bool votes n) /\
  sel_shape_ok (map fst votes) n (get_n_best Qle_bool votes n) = true.
Proof.
  intros votes n Hn Hnd. destruct (gnb_shape votes n Hn Hnd) as (e & T & k & -> & Hl & Hk & Hd & Hi).
  assert (H : sel_shape (map fst votes) n (map Cand e ++ repeat (TieR T) k)) by (apply normal_form_shape; assumption).
  split; [exact H|apply sel_shape_reflect; exact H].
Qed.

Theorem C08_checker_reflects : forall cands n r, sel_shape_ok cands n r = true <-> sel_shape cands n r.
Proof. exact sel_shape_reflect. Qed.

(* highest averages: every returned gain is a positive integer, and gains + tie seats + seats left
   unassigned (only when every party sits at its cap) = the seats to fill *)
Theorem C08_highest_averages_distribution : forall d votes caps prev n gains tie,
  divisor_ok d -> (forall c v, In (c, v) votes -> (0 <= v)%Q) -> NoDup (map fst votes) ->
  NoDup (map fst prev) -> (forall c, (0 <= dget_or prev c 0)%Z) -> (0 <= n - zsum (map snd prev))%Z ->
  evaluate d votes n prev caps = HA_ok gains tie ->
  Forall (fun cg => (0 < snd cg)%Z) gains /\
  (zsum (map snd gains) + (match tie with Some (_, r) => r | None => 0 end)
     + st_rem (final_state d votes n prev caps) = n - zsum (map snd prev))%Z /\
  (st_rem (final_state d votes n prev caps) = 0%Z \/
   forall c v, In (c, v) votes -> (cap_of caps n c <= dget_or (st_totals (final_state d votes n prev caps)) c 0)%Z).
Proof.
  intros d votes caps prev n gains tie Hd Hv Hnd Hndp Hp Hn He.
  destruct (ha_gains_shape d votes caps n prev gains tie Hndp He) as (Hpos & Hsum & ->).
  destruct (ha_total d votes caps prev n (proj1 Hd) (proj2 Hd) Hv Hnd Hp Hn) as [Hacc Hex].
  split; [exact Hpos|]. split; [rewrite Hsum; lia|].
  destruct Hex as [H0|(_ & _ & Hc)]; [left; exact H0|right; exact Hc].
Qed.

(* largest remainder and transferable vote: the seat-count clauses are C02_lr_total and C04_exact_count *)
Theorem C08_largest_remainder_total : forall votes q gained caps sel nrem,
  (0 < nrem)%Z -> (Z.to_nat nrem <= length (remainders votes q gained caps))%nat ->
  ksum (seat_best (plain sel) (get_n_best Qle_bool (remainders votes q gained caps) (Z.to_nat nrem)))
  = (ksum (plain sel) + nrem)%Z.
Proof. exact lr_total. Qed.

Theorem C08_transferable_vote_count : forall cf fuel a n total seats caps acc,
  t_stop (run cf fuel a n total seats caps acc) = None ->
  zsum (map snd (t_seats (run cf fuel a n total seats caps acc))) = n.
Proof. exact run_complete. Qed.

(* non-vacuity: a three-way tie for two seats is a valid shape; the same tie listed three times is not *)
Example C08_example :
  sel_shape_ok [1; 2; 3; 4]%positive 3 [Cand 4%positive; TieR [1; 2; 3]%positive; TieR [1; 2; 3]%positive] = true /\
  sel_shape_ok [1; 2; 3; 4]%positive 4 [Cand 4%positive; TieR [1; 2; 3]%positive; TieR [1; 2; 3]%positive; TieR [3; 2; 1]%positive] = false /\
  sel_shape_ok [1; 2; 3]%positive 2 [Cand 1%positive; Cand 1%positive] = false.
Proof. vm_compute. repeat split; reflexivity. Qed.

(* ---------------------------------------------------------------------------------------------------------------
   The shape clause for the evaluators that do not simply END in one get_n_best call (Proofs/Shape2_proofs.v).
   Every theorem is over the whole model function: all profiles, all seat counts 1 <= n <= candidates present,
   every configuration.  The proofs establish the stronger normal form [Shape2_proofs.nform] (plain winners then
   k copies of ONE tie with more than k members) and conclude [sel_shape] from it. *)

(* Copeland, raw and with second-order tie-breaking; any pairwise dictionary (no sign / distinct-key hypothesis) *)
Theorem C08_shape_copeland : forall (second_order : bool) (v : Condorcet.pvotes) (n : nat),
  (1 <= n <= length (Condorcet.candidates v))%nat ->
  sel_shape (Condorcet.candidates v) n (Condorcet.copeland second_order v n).
Proof. intros so v n Hn. apply Shape2_proofs.nform_shape, Shape2_proofs.copeland_nform, Hn. Qed.

(* minimax, all three scorers; the pairwise dictionary holds a real contest (two candidates: a dictionary with
   only a diagonal pair is not a pairwise vote) *)
Theorem C08_shape_minimax : forall (s : Condorcet.scorer) (v : Condorcet.pvotes) (n : nat),
  (2 <= length (Condorcet.candidates v))%nat -> (1 <= n <= length (Condorcet.candidates v))%nat ->
  sel_shape (Condorcet.candidates v) n (Condorcet.minimax s v n).
Proof. intros s v n H2 Hn. apply Shape2_proofs.nform_shape, Shape2_proofs.minimax_nform; assumption. Qed.

(* Schulze, whatever the iteration order of the candidate set (even one listing strangers) *)
Theorem C08_shape_schulze : forall (v : Condorcet.pvotes) (order : list C) (n : nat),
  (1 <= n <= length (Condorcet.candidates v))%nat ->
  sel_shape (Condorcet.candidates v) n (Condorcet.schulze v order n).
Proof. intros v order n Hn. apply Shape2_proofs.nform_shape, Shape2_proofs.schulze_nform, Hn. Qed.

(* Kemeny-Young and ranked pairs: whenever they answer, n distinct plain candidates, no tie object *)
Theorem C08_shape_kemeny : forall (v : Condorcet.pvotes) (n : nat) (r : list (res C)),
  (n <= length (Condorcet.candidates v))%nat -> Condorcet.kemeny v n = Condorcet.CR_ok r ->
  sel_shape (Condorcet.candidates v) n r /\ ties_of r = [].
Proof.
  intros v n r Hn H. split; [apply Shape2_proofs.nform_shape, (Shape2_proofs.kemeny_nform v n r Hn H)|].
  destruct (Kemeny_proofs.kemeny_defining v n r H) as (p & _ & _ & -> & _). apply ties_of_cands.
Qed.

Theorem C08_shape_ranked_pairs : forall (s : Condorcet.scorer) (v : Condorcet.pvotes) (n : nat) (r : list (res C)),
  (2 <= length (Condorcet.candidates v))%nat -> (n <= length (Condorcet.candidates v))%nat ->
  Condorcet.ranked_pairs s v n = Condorcet.CR_ok r ->
  sel_shape (Condorcet.candidates v) n r /\ ties_of r = [].
Proof.
  intros s v n r H2 Hn H. split; [apply Shape2_proofs.nform_shape, (Shape2_proofs.ranked_pairs_nform s v n r H2 Hn H)|].
  destruct (RankedPairs_proofs.ranked_pairs_ranking v s H2 n) as (p & Hr & _). rewrite Hr in H. injection H as <-. apply ties_of_cands.
Qed.

(* score voting (every aggregation / unscored-value / truncation configuration) and majority judgment (both
   tie-breakers, every number of seats): whenever an answer is returned (no declared refusal) *)
Theorem C08_shape_score : forall (cf : Cardinal.score_cfg) (votes : Cardinal.sprofile) (n : nat) (r : list (res C)),
  (1 <= n <= length (Shape2_proofs.score_cands votes))%nat -> Cardinal.score_voting cf votes n = inl r ->
  sel_shape (Shape2_proofs.score_cands votes) n r.
Proof. intros cf votes n r Hn H. apply Shape2_proofs.nform_shape, (Shape2_proofs.score_nform cf votes n r Hn H). Qed.

Theorem C08_shape_mj : forall (plus : bool) (cf : Cardinal.score_cfg) (votes : Cardinal.sprofile) (n : nat) (r : list (res C)),
  (1 <= n <= length (Shape2_proofs.score_cands votes))%nat -> Cardinal.majority_judgment plus cf votes n = inl r ->
  sel_shape (Shape2_proofs.score_cands votes) n r.
Proof. intros plus cf votes n r Hn H. apply Shape2_proofs.nform_shape, (Shape2_proofs.mj_nform plus cf votes n r Hn H). Qed.

(* PAV (any n: it refuses when fewer than n candidates stand) and sequential PAV: n distinct plain candidates *)
Theorem C08_shape_pav : forall (votes : Cardinal.aprofile) (n : nat) (r : list (res C)),
  Cardinal.pav votes n = Cardinal.AR_ok r -> sel_shape (Shape2_proofs.approval_cands votes) n r.
Proof. intros votes n r H. apply Shape2_proofs.nform_shape, (Shape2_proofs.pav_nform votes n r H). Qed.

Theorem C08_shape_spav : forall (votes : Cardinal.aprofile) (n : nat) (r : list C),
  (n <= length (Shape2_proofs.approval_cands votes))%nat -> Cardinal.spav votes n = Some r ->
  sel_shape (Shape2_proofs.approval_cands votes) n (map Cand r).
Proof. intros votes n r Hn H. apply Shape2_proofs.nform_shape, (Shape2_proofs.spav_nform votes n r Hn H). Qed.

(* preference addition (Bucklin, Oklahoma, any coefficients; with or without decoupling of shared ranks, either
   splicing loop).  The full clause - exactly n entries - is FALSE of the code (known finding
   C08-preference-addition-short); what holds for every input: at most n entries, well-shaped for their number over
   the candidates of the original ballots, and a short answer consists of distinct plain candidates only *)
Definition C08_shape_bucklin_full_statement : Prop :=
  forall (fx : bool) (votes : list (Convert.ranked * Q)) (n : nat) (r : list (res C)),
    (1 <= n <= length (Convert.canon_set (Shape2_proofs.pa_cands votes)))%nat ->
    Bucklin.bucklin fx votes n = Bucklin.PA_ok r -> sel_shape (Shape2_proofs.pa_cands votes) n r.

Theorem C08_shape_bucklin_partial : forall (fx : bool) (coef : nat -> Q) (split : bool) (votes : list (Convert.ranked * Q))
    (n : nat) (r : list (res C)),
  Bucklin.pa_eval fx coef split votes n = Bucklin.PA_ok r ->
  (length r <= n)%nat /\ sel_shape (Shape2_proofs.pa_cands votes) (length r) r /\ ((length r < n)%nat -> ties_of r = []).
Proof. exact Shape2_proofs.pa_shape. Qed.

Theorem C08_shape_bucklin_refuted : ~ C08_shape_bucklin_full_statement.
Proof.
  intros H. destruct Shape2_proofs.pa_full_refuted as (Hc & Hb & _).
  assert (Hn : (1 <= 2 <= length (Convert.canon_set (Shape2_proofs.pa_cands Shape2_proofs.pa_short_votes)))%nat) by (rewrite Hc; simpl; lia).
  destruct (H false _ 2%nat _ Hn Hb) as [Hlen _]. discriminate Hlen.
Qed.

(* the same for STAR (default configuration): Schulze over the run-off counts is well-shaped whenever those counts
   name n candidates; they need not (known finding C08-star-short) *)
Theorem C08_shape_star_partial : forall (votes : Cardinal.sprofile) (order : list C) (n : nat) (r : list (res C)) agg,
  Cardinal.score_to_simple Star.star_cfg votes = inl agg ->
  let pv := Star.star_pairwise votes (Star.star_members (get_n_best Qle_bool agg (n + 1))) in
  (1 <= n <= length (Condorcet.candidates pv))%nat -> Star.star votes order n = inl r ->
  sel_shape (Condorcet.candidates pv) n r.
Proof. intros votes order n r agg Ha pv Hn H. apply Shape2_proofs.nform_shape, (Shape2_proofs.star_nform votes order n r agg Ha Hn H). Qed.

Theorem C08_shape_star_refuted : exists votes : Cardinal.sprofile,
  length (Shape2_proofs.score_cands votes) = 3%nat /\ Star.star_auto votes 1 = inl [].
Proof. exists Shape2_proofs.star_short_votes. destruct Shape2_proofs.star_full_refuted as [Hc Hs]. rewrite Hc. split; [reflexivity|exact Hs]. Qed.

(* non-vacuity of the hypotheses: a three-candidate cycle above a common loser; minimax (a three-way tie for two
   seats), Copeland with second-order tie-breaking (the tie remains) and Schulze answer in shape *)
Example C08_shape_example :
  let p := fun (a b m : Z) => ((Z.to_pos a, Z.to_pos b), m) in
  let v : Condorcet.pvotes := [p 1 2 3; p 2 1 1; p 2 3 3; p 3 2 1; p 3 1 3; p 1 3 1;
                               p 1 4 3; p 4 1 0; p 2 4 3; p 4 2 0; p 3 4 3; p 4 3 0]%Z in
  length (Condorcet.candidates v) = 4%nat /\
  Condorcet.minimax Condorcet.Margins v 2 = [TieR [2; 3; 1]%positive; TieR [2; 3; 1]%positive] /\
  Condorcet.copeland true v 1 = [TieR [1; 2; 3]%positive] /\
  Condorcet.schulze v (Condorcet.candidates v) 3 = [Cand 1; Cand 2; Cand 3]%positive /\
  sel_shape_ok (Condorcet.candidates v) 2 (Condorcet.minimax Condorcet.Margins v 2) = true.
Proof. vm_compute. repeat split; reflexivity. Qed.

(* ... and the cardinal / approval rules answer (no refusal) on ordinary profiles: majority judgment breaks a tie of
   medians (both tie-breakers), SPAV and PAV fill two of three seats *)
Example C08_shape_example_cardinal :
  let cf := {| Cardinal.sc_fn := Cardinal.FMedianLow; Cardinal.sc_unscored := Cardinal.UNone; Cardinal.sc_min_count := 0%Z;
               Cardinal.sc_trunc := 0%Q; Cardinal.sc_bottom := 0%Q |} in
  let b := fun x y z : Z => [(1%positive, inject_Z x); (2%positive, inject_Z y); (3%positive, inject_Z z)] in
  let v : Cardinal.sprofile := [(b 3 3 1, 2); (b 2 4 1, 1); (b 3 3 3, 1)]%Z in
  let a : Cardinal.aprofile := [([1; 2]%positive, 3 # 1); ([2; 3]%positive, 2 # 1); ([3]%positive, 2 # 1)]%Q in
  Shape2_proofs.score_cands v = [1; 2; 3]%positive /\
  Cardinal.majority_judgment false cf v 1 = inl [Cand 2%positive] /\ Cardinal.majority_judgment true cf v 1 = inl [Cand 2%positive] /\
  Cardinal.majority_judgment false cf v 2 = inl [Cand 1%positive; Cand 2%positive] /\
  Cardinal.score_voting cf v 2 = inl [Cand 1%positive; Cand 2%positive] /\
  Shape2_proofs.approval_cands a = [1; 2; 3]%positive /\
  Cardinal.spav a 2 = Some [2; 3]%positive /\ Cardinal.pav a 2 = Cardinal.AR_ok [Cand 2%positive; Cand 3%positive].
Proof. vm_compute. repeat split; reflexivity. Qed.

(* ---------------------------------------------------------------------------------------------------------------
   The shape clause for the evaluators that were only decided per explored case (Proofs/Shape3_proofs.v,
   Proofs/ShapeElim_proofs.v, Proofs/HybridTiers_proofs.v). *)
From VL Require Model.Threshold Model.Hybrids Model.Elimination Model.ApprovalSimple Model.AllocScore Model.Quota Proofs.AllocScore_proofs Proofs.Hybrids_proofs Proofs.Shape3_proofs Proofs.ShapeElim_proofs
     Proofs.HybridTiers_proofs.

(* seatless selectors (thresholds, bracketers, Condorcet winner, Smith / Schwartz set): the right shape is a duplicate-free
   list of candidates of the votes - the declarative shape of a selection of plain winners for as many seats as it has entries *)
Theorem C08_seatless_shape : forall (cands r : list C),
  Shape3_proofs.seatless_shape cands r <-> sel_shape cands (length r) (map Cand r).
Proof. exact Shape3_proofs.seatless_sel_shape. Qed.

Theorem C08_shape_threshold : forall (s : Threshold.sel) (votes : list (C * Q)),
  NoDup (map fst votes) -> NoDup (Threshold.sel_eval s votes) /\ incl (Threshold.sel_eval s votes) (map fst votes).
Proof. exact Shape3_proofs.threshold_shape. Qed.

Theorem C08_shape_bracketer : forall evals default bracket (votes : list (C * Q)),
  NoDup (map fst votes) ->
  NoDup (Threshold.bracket_eval evals default bracket votes) /\ incl (Threshold.bracket_eval evals default bracket votes) (map fst votes).
Proof. exact Shape3_proofs.bracket_shape. Qed.

Theorem C08_shape_condorcet_winner : forall v : Condorcet.pvotes,
  (NoDup (Condorcet.condorcet_winner v) /\ incl (Condorcet.condorcet_winner v) (Condorcet.candidates v)) /\
  (length (Condorcet.condorcet_winner v) <= 1)%nat.
Proof. exact Shape3_proofs.condorcet_winner_shape. Qed.

(* the Smith routine (SmithSet runs it with ties = true; ties = false is the prefix routine SchwartzSet ran before the repair
   fixes/C06-schwartz-set), any pairwise dictionary *)
Theorem C08_shape_smith_schwartz : forall (v : Condorcet.pvotes) (ties : bool),
  NoDup (Condorcet.smith_schwartz v ties) /\ incl (Condorcet.smith_schwartz v ties) (Condorcet.candidates v).
Proof. exact Shape3_proofs.smith_schwartz_shape. Qed.

(* Schwartz set (SchwartzSet after the repair: Condorcet.schwartz_set), any pairwise dictionary *)
Theorem C08_shape_schwartz_set : forall v : Condorcet.pvotes,
  NoDup (Condorcet.schwartz_set v) /\ incl (Condorcet.schwartz_set v) (Condorcet.candidates v).
Proof. exact Schwartz_proofs.schwartz_set_shape. Qed.

(* open list: exactly n distinct members of the list, for every configuration *)
Theorem C08_shape_openlist : forall cfg (votes : list (C * Q)) (n : nat) (lst : list C),
  NoDup lst -> NoDup (map fst votes) -> incl (map fst votes) lst -> (1 <= n <= length lst)%nat ->
  sel_shape lst n (map Cand (Threshold.openlist_eval cfg votes n lst)).
Proof. exact Shape3_proofs.openlist_shape. Qed.

(* QuotaSelector elects the candidates that reach the quota, through get_n_best: AT MOST n by design.  For every quota
   function and flag: never more than n entries, well-shaped for their number, a short answer is plain winners only, and the
   answer is full whenever n candidates reach the quota.  The exactly-n clause is false of it (design, not a defect). *)
Definition C08_shape_quota_selector_full_statement : Prop :=
  forall quota ae select (votes : list (C * Q)) (n : Z) r,
    NoDup (map fst votes) -> (1 <= n)%Z -> (Z.to_nat n <= length votes)%nat ->
    QuotaDistributor.qsel_evaluate quota ae select votes n = QuotaDistributor.QS_ok r -> sel_shape (map fst votes) (Z.to_nat n) r.

Theorem C08_shape_quota_selector_partial : forall quota ae select (votes : list (C * Q)) (n : Z) r,
  NoDup (map fst votes) -> (1 <= n)%Z -> QuotaDistributor.qsel_evaluate quota ae select votes n = QuotaDistributor.QS_ok r ->
  (length r <= Z.to_nat n)%nat /\ sel_shape (map fst votes) (length r) r /\
  ((length r < Z.to_nat n)%nat -> ties_of r = []) /\
  ((Z.to_nat n <= length (filter (fun cv => QuotaDistributor.fulfills ae (snd cv) (quota (QuotaDistributor.qsumv votes) n)) votes))%nat ->
   length r = Z.to_nat n).
Proof. exact Shape3_proofs.quota_selector_shape. Qed.

Theorem C08_shape_quota_selector_refuted : ~ C08_shape_quota_selector_full_statement.
Proof.
  intros H.
  assert (Hs := H (fun total n => (total / inject_Z n)%Q) false true [(1%positive, 10%Q); (2%positive, 1%Q)] 2%Z [Cand 1%positive]).
  assert (Hnd : NoDup (map fst [(1%positive, 10%Q); (2%positive, 1%Q)])).
  { cbn. constructor; [intros [E|[]]; discriminate|constructor; [intros []|constructor]]. }
  destruct (Hs Hnd ltac:(lia) ltac:(cbn; lia) ltac:(vm_compute; reflexivity)) as [Hlen _]. discriminate Hlen.
Qed.

(* Benham (all repairs: the elimination step refuses ties, a candidate that stands alone is elected): on every well-formed
   profile (no candidate twice on a ballot, no negative weight) on which somebody stands the answer is one entry in shape - a plain
   candidate of the votes, or one tie object of (the last) two or more of them - and the only other outcome is the declared refusal
   NotImplementedError.  No hypothesis about a pairwise contest any more. *)
Theorem C08_shape_benham : forall votes : Hybrids.rvotes,
  Hybrids_proofs.wf_votes votes = true -> Hybrids_proofs.cands_of votes <> [] ->
  (exists r, Hybrids.benham true true votes = Hybrids.H_ok r /\ sel_shape (Hybrids_proofs.cands_of votes) 1 r) \/
  Hybrids.benham true true votes = Hybrids.H_nie.
Proof.
  intros votes Hwf Hne. destruct (ShapeElim_proofs.benham_shape votes Hwf Hne) as [(r & Hr & Hn)|H]; [left|right; exact H].
  exists r. split; [exact Hr|apply Shape2_proofs.nform_shape, Hn].
Qed.

(* a candidate that stands alone is elected by both hybrids (repaired), for any number of seats: one entry in shape *)
Theorem C08_shape_hybrids_single_candidate : forall (votes : Hybrids.rvotes) (c : C) (n : nat),
  Hybrids_proofs.cands_of votes = [c] -> (1 <= n)%nat ->
  Hybrids.benham true true votes = Hybrids.H_ok [Cand c] /\ Hybrids.tideman_alt true true true votes n = Hybrids.H_ok [Cand c] /\
  sel_shape (Hybrids_proofs.cands_of votes) 1 [Cand c].
Proof.
  intros votes c n E Hn. pose proof (HybridTiers_proofs.cands_single votes c E) as EK. split; [|split].
  - rewrite (ShapeElim_proofs.benham_single true votes c EK). reflexivity.
  - exact (HybridTiers_proofs.tideman_single votes n c EK Hn).
  - apply Shape2_proofs.nform_shape. apply (Shape2_proofs.nform_plain _ [c]); [constructor; [intros []|constructor]|].
    intros x [<-|[]]. rewrite E. left. reflexivity.
Qed.

(* ... on the code without fixes/C05-hybrid-single-candidate.diff (sc = false) both raise IndexError there: finding
   C05-hybrid-empty-pairwise (fixed) *)
Theorem C08_shape_hybrids_single_candidate_refuted : exists votes : Hybrids.rvotes,
  Hybrids_proofs.wf_votes votes = true /\ length (Hybrids_proofs.cands_of votes) = 1%nat /\
  Hybrids.benham true false votes = Hybrids.H_index /\ Hybrids.tideman_alt true false false votes 1 = Hybrids.H_index /\
  Hybrids.tideman_alt true false true votes 1 = Hybrids.H_index.
Proof. exists [([Convert.IP 1%positive], 1%Z)]. vm_compute. repeat split; reflexivity. Qed.

(* Tideman alternative (all repairs), EVERY number of seats n >= 1 on every well-formed profile on which somebody stands: tier by
   tier min(n, candidates) distinct plain candidates of the votes - or the declared refusal (a tie among the candidates to
   eliminate in some tier); never IndexError / KeyError / TypeError (Proofs/HybridTiers_proofs.v) *)
Theorem C08_shape_tideman_outcomes : forall (votes : Hybrids.rvotes) (n : nat),
  Hybrids_proofs.wf_votes votes = true -> Hybrids_proofs.cands_of votes <> [] -> (1 <= n)%nat ->
  (exists ws, Hybrids.tideman_alt true true true votes n = Hybrids.H_ok (map Cand ws) /\ NoDup ws /\
              incl ws (Hybrids_proofs.cands_of votes) /\ length ws = Nat.min n (length (Hybrids_proofs.cands_of votes))) \/
  Hybrids.tideman_alt true true true votes n = Hybrids.H_nie.
Proof.
  intros votes n Hwf Hne Hn. destruct (HybridTiers_proofs.tideman_tiers votes n Hwf Hne Hn) as [(ws & E & H1 & H2 & H3 & _)|E]; [left|right; exact E].
  exists ws. auto.
Qed.

(* hence the shape clause as the property states it: 1 <= n <= candidates present -> exactly n entries in shape (no tie object) *)
Theorem C08_shape_tideman : forall (votes : Hybrids.rvotes) (n : nat),
  Hybrids_proofs.wf_votes votes = true -> (1 <= n <= length (Hybrids_proofs.cands_of votes))%nat ->
  (exists r, Hybrids.tideman_alt true true true votes n = Hybrids.H_ok r /\ sel_shape (Hybrids_proofs.cands_of votes) n r /\ ties_of r = []) \/
  Hybrids.tideman_alt true true true votes n = Hybrids.H_nie.
Proof.
  intros votes n Hwf [Hn1 Hn2].
  assert (Hne : Hybrids_proofs.cands_of votes <> []) by (intros E; rewrite E in Hn2; cbn in Hn2; lia).
  destruct (C08_shape_tideman_outcomes votes n Hwf Hne Hn1) as [(ws & E & Hnd & Hi & Hl)|E]; [left|right; exact E].
  exists (map Cand ws). split; [exact E|]. split; [|apply ties_of_cands].
  rewrite Nat.min_l in Hl by exact Hn2. rewrite <- Hl. apply Shape2_proofs.nform_shape, Shape2_proofs.nform_plain; assumption.
Qed.

(* ... on the code without fixes/C05-tideman-tiers.diff (tr = false) every call for two seats with two candidates ends in
   TypeError: finding C08-tideman-multiseat (fixed); with the tiers repaired but not the single candidate (sc = false) the last
   tier - one candidate left - raises IndexError *)
Theorem C08_shape_tideman_multiseat_refuted : exists votes : Hybrids.rvotes,
  Hybrids_proofs.wf_votes votes = true /\ length (Hybrids_proofs.cands_of votes) = 2%nat /\
  Hybrids.tideman_alt true false false votes 2 = Hybrids.H_type /\ Hybrids.tideman_alt true true false votes 2 = Hybrids.H_type /\
  Hybrids.tideman_alt true false true votes 2 = Hybrids.H_index /\
  Hybrids.tideman_alt true true true votes 2 = Hybrids.H_ok [Cand 1%positive; Cand 2%positive].
Proof. exists [([Convert.IP 1%positive; Convert.IP 2%positive], 2%Z); ([Convert.IP 2%positive; Convert.IP 1%positive], 1%Z)]. vm_compute. repeat split; reflexivity. Qed.

(* Baldwin (Model/Elimination.v), any rank scorer: on every profile without a candidate twice on a ballot and without an empty
   shared rank (any integer weights) and every 1 <= n <= candidates present it ANSWERS - no refusal, no exception - with exactly
   n entries in shape: plain winners, then one tie object (the tied losers of the decisive round) once per open seat *)
Theorem C08_shape_baldwin : forall (sc : Convert.scorer) (votes : Hybrids.rvotes) (n : nat),
  ShapeElim_proofs.ranks_ok votes = true -> (1 <= n <= length (STV.all_ranked_candidates (Hybrids.qv votes)))%nat ->
  exists r, Elimination.baldwin sc votes n = Elimination.B_ok r /\ sel_shape (STV.all_ranked_candidates (Hybrids.qv votes)) n r.
Proof.
  intros sc votes n Hr Hn. destruct (ShapeElim_proofs.baldwin_nform sc votes n Hr Hn) as (r & E & Hf).
  exists r. split; [exact E|apply Shape2_proofs.nform_shape, Hf].
Qed.

(* positional selectors (Borda, Dowdall, ... : RankedToPositionalVotes in front of plurality), any rank scorer: the converter
   answers on every such profile and its scores, handed to get_n_best, give exactly n entries in shape *)
Theorem C08_shape_positional : forall (sc : Convert.scorer) (votes : Hybrids.rvotes) (n : nat),
  ShapeElim_proofs.ranks_ok votes = true -> (1 <= n <= length (STV.all_ranked_candidates (Hybrids.qv votes)))%nat ->
  exists d, Elimination.positional sc votes = Some d /\
            sel_shape (STV.all_ranked_candidates (Hybrids.qv votes)) n (get_n_best Qle_bool d n).
Proof.
  intros sc votes n Hr Hn. destruct (ShapeElim_proofs.positional_nform sc votes n Hr Hn) as (d & E & Hf).
  exists d. split; [exact E|apply Shape2_proofs.nform_shape, Hf].
Qed.

(* approval voting and satisfaction approval voting (ApprovalToSimpleVotes, plain or split, in front of plurality;
   Model/ApprovalSimple.v): every approval profile, every 1 <= n <= candidates approved by somebody *)
Theorem C08_shape_approval : forall (split : bool) (votes : list (list C * Q)) (n : nat),
  (1 <= n <= length (Shape2_proofs.approval_cands votes))%nat ->
  sel_shape (Shape2_proofs.approval_cands votes) n (ApprovalSimple.approval_plurality split votes n).
Proof. intros split votes n Hn. apply Shape2_proofs.nform_shape, Shape3_proofs.approval_plurality_nform, Hn. Qed.

(* allocated score: the shape clause is false of the faithful model (Model/AllocScore.v) - three candidates level for two
   seats come back as ONE tie entry (known finding C08-allocated-score-shape; the witness of C12_alloc_tie_shape_refuted) *)
Theorem C08_shape_allocated_score_refuted : exists (votes : AllocScore.wprofile) (r : list (res C)),
  AllocScore.alloc_select (Quota.QNamed 1) [] votes 2 = inl r /\ AllocScore.all_scored votes = [1; 2; 3]%positive /\
  ~ sel_shape [1; 2; 3]%positive 2 r.
Proof.
  exists AllocScore_proofs.w_tie3, [TieR [1; 2; 3]%positive]. split; [exact AllocScore_proofs.alloc_tie_shape_witness|].
  split; [vm_compute; reflexivity|]. intros [Hlen _]. discriminate Hlen.
Qed.

(* non-vacuity: a three-cycle above a fourth candidate with a shared rank satisfies the hypotheses; Benham and Tideman
   eliminate and elect; Baldwin fills one, two (the tied losers B, C for the second seat) and three seats; thresholds and
   Smith / Schwartz sets answer *)
Example C08_shape_example_elimination :
  let ip := Convert.IP in
  let b := fun (l : list positive) (w : Z) => (map ip l, w) in
  let v : Hybrids.rvotes := [b [1; 2; 3; 4]%positive 3%Z; b [2; 3; 1; 4]%positive 2%Z; b [3; 1; 2]%positive 2%Z;
                             ([Convert.IS [1; 2]%positive; ip 4%positive], 1%Z)] in
  let t : Hybrids.rvotes := [b [1; 2; 3]%positive 1%Z; b [1; 3; 2]%positive 1%Z] in
  Hybrids_proofs.wf_votes v = true /\ ShapeElim_proofs.ranks_ok v = true /\ Hybrids.pairwise v <> [] /\
  Hybrids.benham true true v = Hybrids.H_ok [Cand 1%positive] /\ Hybrids.tideman_alt true true true v 1 = Hybrids.H_ok [Cand 1%positive] /\
  Hybrids.tideman_alt true true true v 3 = Hybrids.H_ok [Cand 1; Cand 2; Cand 3]%positive /\
  Hybrids.tideman_alt true true true v 9 = Hybrids.H_ok [Cand 1; Cand 2; Cand 3; Cand 4]%positive /\
  Elimination.baldwin (Convert.Borda 0) v 2 = Elimination.B_ok [Cand 2; Cand 1]%positive /\
  Elimination.baldwin (Convert.Borda 0) t 2 = Elimination.B_ok [Cand 1%positive; TieR [2; 3]%positive] /\
  Elimination.baldwin (Convert.Borda 0) t 1 = Elimination.B_ok [Cand 1%positive] /\
  Condorcet.smith_schwartz (Hybrids.pairwise v) true = [1; 2; 3]%positive.
Proof. vm_compute. repeat split; try reflexivity. discriminate. Qed.

(* ---- wave 6: allocated score with fixes/C12-allocated-score-exhausted and C12-allocated-score-tie-seats applied
   (Model/AllocScore.v alloc_select_x, Proofs/AllocShape_proofs.v): for EVERY profile with positive weights, every quota that
   is positive on it (Hare, Droop of a non-empty electorate: C12_alloc_quota_positive), every 1 <= n <= number of candidates the
   selector answers - no error outcome - and the answer is a well-shaped selection of n entries: distinct plain winners of the
   votes, then possibly ONE tie repeated once per seat it contests, with more members than those seats and none of the
   winners.  [orders] (the iteration order of every Tie frozenset, an input of the model) lists each tie without repetition. *)
From VL Require Proofs.AllocShape_proofs.
Theorem C08_shape_allocated_score : forall ra qs orders (votes : AllocScore.wprofile) (n : nat),
  AllocScore.ra_exhausted ra = true -> AllocScore.ra_tieseats ra = true ->
  AllocScore_proofs.wpos votes -> Forall (@NoDup C) orders ->
  (0 < AllocScore.ac_quota (AllocScore.alloc_cfg qs orders votes n [] (map (fun c => (c, 1%Z)) (AllocScore.all_scored votes))))%Q ->
  (1 <= n <= length (Convert.cands_score votes))%nat ->
  exists r, AllocScore.alloc_select_x ra qs orders votes n = inl r /\
            sel_shape (Convert.cands_score votes) n r /\ sel_shape_ok (Convert.cands_score votes) n r = true.
Proof.
  intros ra qs orders votes n H1 H2 Hp Ho Hq Hn.
  destruct (AllocShape_proofs.alloc_select_x_shape ra qs orders votes n H1 H2 Hp Ho Hq Hn) as (r & E & Hf).
  exists r. split; [exact E|]. pose proof (Shape2_proofs.nform_shape _ _ _ Hf) as Hs. split; [exact Hs|]. apply sel_shape_reflect, Hs.
Qed.

(* the hypotheses hold on the recorded witnesses: three level candidates for two seats (one tie, listed twice), the
   exhausted-ballots crash profile *)
Example C08_shape_allocated_score_example :
  AllocScore.alloc_select_x AllocScore.arepaired (Quota.QNamed 1) [] AllocScore_proofs.w_tie3 2 = inl [TieR [1; 2; 3]%positive; TieR [1; 2; 3]%positive] /\
  AllocScore.alloc_select_x AllocScore.arepaired (Quota.QNamed 1) [] AllocScore_proofs.w_crash 2 = inl [Cand 1%positive; Cand 2%positive] /\
  AllocScore_proofs.wposb AllocScore_proofs.w_tie3 = true /\ Convert.cands_score AllocScore_proofs.w_tie3 = [1; 2; 3]%positive.
Proof. vm_compute. repeat split; reflexivity. Qed.

Print Assumptions C08_selection_normal_form.
Print Assumptions C08_selection_shape.
Print Assumptions C08_checker_reflects.
Print Assumptions C08_highest_averages_distribution.
Print Assumptions C08_largest_remainder_total.
Print Assumptions C08_transferable_vote_count.
Print Assumptions C08_shape_copeland.
Print Assumptions C08_shape_minimax.
Print Assumptions C08_shape_schulze.
Print Assumptions C08_shape_kemeny.
Print Assumptions C08_shape_ranked_pairs.
Print Assumptions C08_shape_score.
Print Assumptions C08_shape_mj.
Print Assumptions C08_shape_pav.
Print Assumptions C08_shape_spav.
Print Assumptions C08_shape_bucklin_partial.
Print Assumptions C08_shape_bucklin_refuted.
Print Assumptions C08_shape_star_partial.
Print Assumptions C08_shape_star_refuted.
Print Assumptions C08_seatless_shape.
Print Assumptions C08_shape_threshold.
Print Assumptions C08_shape_bracketer.
Print Assumptions C08_shape_condorcet_winner.
Print Assumptions C08_shape_smith_schwartz.
Print Assumptions C08_shape_schwartz_set.
Print Assumptions C08_shape_openlist.
Print Assumptions C08_shape_quota_selector_partial.
Print Assumptions C08_shape_quota_selector_refuted.
Print Assumptions C08_shape_benham.
Print Assumptions C08_shape_hybrids_single_candidate.
Print Assumptions C08_shape_hybrids_single_candidate_refuted.
Print Assumptions C08_shape_tideman_outcomes.
Print Assumptions C08_shape_tideman.
Print Assumptions C08_shape_tideman_multiseat_refuted.
Print Assumptions C08_shape_baldwin.
Print Assumptions C08_shape_positional.
Print Assumptions C08_shape_allocated_score_refuted.
Print Assumptions C08_shape_approval.
Print Assumptions C08_shape_allocated_score.
