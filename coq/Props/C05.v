(* C05 - Condorcet methods elect the Condorcet winner and stay in the Smith set.
   Property theorems only.  Model: Model/Condorcet.v; proofs: Proofs/Condorcet_proofs.v.

   Proved for every pairwise dictionary (distinct keys, non-negative counts, absent
   pair = 0): Copeland (raw and second-order) elects the Condorcet winner alone.
   The remaining clauses of the property (Schulze / minimax / ranked pairs / Kemeny
   Condorcet-winner consistency, Smith-efficiency, nobody dropped) are stated below
   as full statements and are decided per case by the verified-model correspondence
   plus brute-force references in the check (C05 evidence: "partial"). *)
From Coq Require Import ZArith List Arith.
From VL Require Import Prelude.PyDict Model.GetNBest Model.Condorcet Proofs.Condorcet_proofs Proofs.CopelandMono_proofs Proofs.SmithCopeland_proofs Proofs.Minimax_proofs.
Import ListNotations.
Open Scope Z_scope.

Theorem C05_cw_copeland : forall (v : pvotes) so c,
  NoDup (map fst v) -> (forall p n, In (p, n) v -> 0 <= n) -> (2 <= length (candidates v))%nat ->
  is_cw v c -> copeland so v 1 = [Cand c].
Proof. intros v so c Hnd Hnn. exact (copeland_elects_cw v Hnd Hnn so c). Qed.

(* the win-loss score is the defining computation of Copeland *)
Theorem C05_copeland_score : forall (v : pvotes) x,
  dget_or (copeland_scores (pairwise_wins v false)) x 0 = nwins v x - nlosses v x.
Proof. exact copeland_scores_get. Qed.

(* minimax by winning votes and by margins elects the Condorcet winner alone (pairwise opposition does not
   satisfy the Condorcet criterion in general and is not claimed), and with as many seats as candidates no candidate
   is dropped from the minimax ranking (all three scorers) *)
Theorem C05_cw_minimax : forall (v : pvotes) s c,
  NoDup (map fst v) -> (forall p n, In (p, n) v -> 0 <= n) -> (2 <= length (candidates v))%nat ->
  s <> PairwiseOpposition -> is_cw v c -> minimax s v 1 = [Cand c].
Proof. intros v s c Hnd Hnn H2. exact (minimax_elects_cw v Hnn H2 s c). Qed.

Theorem C05_minimax_nobody_dropped : forall (v : pvotes) s x,
  (2 <= length (candidates v))%nat -> In x (candidates v) -> In (Cand x) (minimax s v (length (candidates v))).
Proof. intros v s x H2. exact (minimax_nobody_dropped v H2 s x). Qed.

(* Smith-efficiency of Copeland: a sole winner by Copeland scores lies in the Smith set (the set SmithSet computes,
   proved in C06 to be the smallest dominating set) *)
Theorem C05_smith_copeland : forall (v : pvotes) (w : C),
  NoDup (map fst v) -> (forall p n, In (p, n) v -> 0 <= n) -> (2 <= length (candidates v))%nat ->
  copeland false v 1 = [Cand w] -> In w (smith_schwartz v true).
Proof.
  intros v w Hnd Hnn H2 H. rewrite copeland_raw_is_first_order in H. exact (copeland_in_smith v w Hnd Hnn H2 H).
Qed.

Definition well_formed (v : pvotes) : Prop :=
  NoDup (map fst v) /\ (forall p n, In (p, n) v -> 0 <= n) /\ (2 <= length (candidates v))%nat.
Definition first_is (r : list (res C)) (c : C) : Prop := exists t, r = Cand c :: t.

Definition C05_cw_full_statement : Prop :=
  forall v c, well_formed v -> is_cw v c ->
    first_is (schulze v (candidates v) 1) c /\
    first_is (minimax WinningVotes v 1) c /\ first_is (minimax Margins v 1) c /\
    ranked_pairs WinningVotes v 1 = CR_ok [Cand c] /\ ranked_pairs Margins v 1 = CR_ok [Cand c] /\
    kemeny v 1 = CR_ok [Cand c].
Definition C05_nobody_dropped_full_statement : Prop :=
  forall v x, well_formed v -> In x (candidates v) ->
    let n := length (candidates v) in
    let flat r := flat_map (fun e => match e with Cand c => [c] | TieR l => l end) r in
    In x (flat (copeland true v n)) /\ In x (flat (schulze v (candidates v) n)) /\
    In x (flat (minimax WinningVotes v n)).

(* non-vacuity *)
Example C05_example :
  copeland true [((1%positive, 2%positive), 3); ((2%positive, 1%positive), 1);
                 ((1%positive, 3%positive), 3); ((3%positive, 1%positive), 1);
                 ((2%positive, 3%positive), 2); ((3%positive, 2%positive), 2)] 1 = [Cand 1%positive].
Proof. vm_compute. reflexivity. Qed.

Print Assumptions C05_cw_copeland.
Print Assumptions C05_copeland_score.
Print Assumptions C05_smith_copeland.
Print Assumptions C05_cw_minimax.
Print Assumptions C05_minimax_nobody_dropped.
