(* C05 - Condorcet methods elect the Condorcet winner and stay in the Smith set.
   Property theorems only.  Model: Model/Condorcet.v; proofs: Proofs/Condorcet_proofs.v.

   Proved for every pairwise dictionary (distinct keys, non-negative counts, absent
   pair = 0): Copeland (raw and second-order), minimax (winning votes, margins) and
   Schulze (every iteration order of the candidate set) elect the Condorcet winner
   alone; minimax and Schulze drop nobody; the Schulze table is the table of strongest
   beat-paths and the Schulze ranking does not depend on the iteration order.
   The remaining clauses of the property (ranked pairs / Kemeny Condorcet-winner
   consistency, Smith-efficiency of the others, nobody dropped for Copeland second
   order) are stated below as full statements and are decided per case by the
   verified-model correspondence plus brute-force references in the check
   (C05 evidence: "partial"). *)
From Coq Require Import ZArith List Arith.
From VL Require Import Prelude.PyDict Model.GetNBest Model.Condorcet Proofs.Condorcet_proofs Proofs.CopelandMono_proofs Proofs.SmithCopeland_proofs Proofs.Minimax_proofs Proofs.Schulze_proofs.
Import ListNotations.
Open Scope Z_scope.

Theorem C05_cw_copeland : forall (v : pvotes) so c,
  NoDup (map fst v) -> (forall p n, In (p, n) v -> 0 <= n) -> (2 <= length (candidates v))%nat ->
  is_cw v c -> copeland so v 1 = [Cand c].
Proof. intros v so c Hnd Hnn. exact (copeland_elects_cw v Hnd Hnn so c). Qed.

(* the win-loss score is the defining computation of Copeland *)
Theorem C05_copeland_score : forall (v : pvotes) x,
  dget_or (copeland_scores (pairwise_wins v false)) x 0 = nwins v x - nlosses v x.
Proof. exact copeland_scores_get. Qed.

(* minimax by winning votes and by margins elects the Condorcet winner alone (pairwise opposition does not
   satisfy the Condorcet criterion in general and is not claimed), and with as many seats as candidates no candidate
   is dropped from the minimax ranking (all three scorers) *)
Theorem C05_cw_minimax : forall (v : pvotes) s c,
  NoDup (map fst v) -> (forall p n, In (p, n) v -> 0 <= n) -> (2 <= length (candidates v))%nat ->
  s <> PairwiseOpposition -> is_cw v c -> minimax s v 1 = [Cand c].
Proof. intros v s c Hnd Hnn H2. exact (minimax_elects_cw v Hnn H2 s c). Qed.

Theorem C05_minimax_nobody_dropped : forall (v : pvotes) s x,
  (2 <= length (candidates v))%nat -> In x (candidates v) -> In (Cand x) (minimax s v (length (candidates v))).
Proof. intros v s x H2. exact (minimax_nobody_dropped v H2 s x). Qed.

(* Smith-efficiency of Copeland: a sole winner by Copeland scores lies in the Smith set (the set SmithSet computes,
   proved in C06 to be the smallest dominating set) *)
Theorem C05_smith_copeland : forall (v : pvotes) (w : C),
  NoDup (map fst v) -> (forall p n, In (p, n) v -> 0 <= n) -> (2 <= length (candidates v))%nat ->
  copeland false v 1 = [Cand w] -> In w (smith_schwartz v true).
Proof.
  intros v w Hnd Hnn H2 H. rewrite copeland_raw_is_first_order in H. exact (copeland_in_smith v w Hnd Hnn H2 H).
Qed.

(* Schulze elects the Condorcet winner alone - whatever order the candidate set is iterated in (the code iterates a
   Python set): nothing reaches the Condorcet winner (column c of the table stays 0) and its direct wins are never lost *)
Theorem C05_cw_schulze : forall (v : pvotes) (order : list C) c,
  NoDup (map fst v) -> (forall p n, In (p, n) v -> 0 <= n) ->
  is_cw v c -> schulze v order 1 = [Cand c].
Proof. intros v order c Hnd Hnn Hcw. exact (schulze_elects_cw v Hnd Hnn order c Hcw). Qed.

(* with as many seats as candidates every candidate of the dictionary is listed (as a plain entry, not inside a tie) *)
Theorem C05_schulze_nobody_dropped : forall (v : pvotes) (order : list C) x,
  NoDup (map fst v) -> (forall p n, In (p, n) v -> 0 <= n) ->
  In x (candidates v) -> In (Cand x) (schulze v order (length (candidates v))).
Proof. intros v order x Hnd Hnn. exact (schulze_nobody_dropped v Hnd Hnn order x). Qed.

(* the defining computation: for a positive s and a <> b the table entry (a, b) is at least s exactly when there is a chain
   of direct wins from a to b each carried by at least s winning votes ([reach], Proofs/Schulze_proofs.v; [d0 v a b] = votes
   for a over b if a beats b, else 0) - i.e. the entry is the strength of the strongest beat-path, and 0 when there is none *)
Theorem C05_schulze_strongest_paths : forall (v : pvotes) (order : list C) a b s,
  NoDup (map fst v) -> incl (candidates v) order ->
  0 < s -> a <> b ->
  (s <= pget0 (widest_paths v order) (a, b) <-> reach v s a b).
Proof. intros v order a b s Hnd Hi Hs Hab. exact (wp_spec v Hnd order a b s Hi Hs Hab). Qed.

(* the score each candidate is ranked by is its number of path-wins *)
Theorem C05_schulze_score : forall (v : pvotes) (order : list C),
  NoDup (map fst v) -> (forall p n, In (p, n) v -> 0 <= n) ->
  forall n, schulze v order n =
    get_n_best zle_bool (map (fun c => (c, Z.of_nat (length (opponents (widest_paths v order) c)))) (candidates v)) n.
Proof. intros v order Hnd Hnn n. rewrite schulze_unfold. fold (sscores v order). rewrite (sscores_canonical v Hnd Hnn order). reflexivity. Qed.
Theorem C05_schulze_path_win : forall (v : pvotes) (order : list C) c x,
  NoDup (map fst v) -> (forall p n, In (p, n) v -> 0 <= n) ->
  (In x (opponents (widest_paths v order) c) <-> pget0 (widest_paths v order) (x, c) < pget0 (widest_paths v order) (c, x)).
Proof. intros v order c x Hnd Hnn. exact (opponents_spec _ (P_nodup v Hnd order) (P_nonneg v Hnd Hnn order) c x). Qed.

(* the result does not depend on the order in which the candidate set is iterated *)
Theorem C05_schulze_order_irrelevant : forall (v : pvotes) (order1 order2 : list C) n,
  NoDup (map fst v) -> (forall p n, In (p, n) v -> 0 <= n) ->
  incl (candidates v) order1 -> incl (candidates v) order2 -> schulze v order1 n = schulze v order2 n.
Proof. intros v o1 o2 n Hnd Hnn H1 H2. exact (schulze_order_irrelevant v Hnd Hnn o1 o2 n H1 H2). Qed.

Definition well_formed (v : pvotes) : Prop :=
  NoDup (map fst v) /\ (forall p n, In (p, n) v -> 0 <= n) /\ (2 <= length (candidates v))%nat.
Definition first_is (r : list (res C)) (c : C) : Prop := exists t, r = Cand c :: t.

Definition C05_cw_full_statement : Prop :=
  forall v c, well_formed v -> is_cw v c ->
    first_is (schulze v (candidates v) 1) c /\
    first_is (minimax WinningVotes v 1) c /\ first_is (minimax Margins v 1) c /\
    ranked_pairs WinningVotes v 1 = CR_ok [Cand c] /\ ranked_pairs Margins v 1 = CR_ok [Cand c] /\
    kemeny v 1 = CR_ok [Cand c].
Definition C05_nobody_dropped_full_statement : Prop :=
  forall v x, well_formed v -> In x (candidates v) ->
    let n := length (candidates v) in
    let flat r := flat_map (fun e => match e with Cand c => [c] | TieR l => l end) r in
    In x (flat (copeland true v n)) /\ In x (flat (schulze v (candidates v) n)) /\
    In x (flat (minimax WinningVotes v n)).

(* the Schulze and minimax parts of the two full statements, as stated *)
Theorem C05_cw_full_schulze_minimax : forall v c, well_formed v -> is_cw v c ->
  first_is (schulze v (candidates v) 1) c /\
  first_is (minimax WinningVotes v 1) c /\ first_is (minimax Margins v 1) c.
Proof.
  intros v c (Hnd & Hnn & H2) Hcw. split; [exists []; exact (schulze_elects_cw v Hnd Hnn (candidates v) c Hcw)|].
  split; exists []; apply (minimax_elects_cw v Hnn H2); [discriminate|exact Hcw|discriminate|exact Hcw].
Qed.
Theorem C05_nobody_dropped_full_schulze_minimax : forall v x, well_formed v -> In x (candidates v) ->
  let n := length (candidates v) in
  let flat r := flat_map (fun e => match e with Cand c => [c] | TieR l => l end) r in
  In x (flat (schulze v (candidates v) n)) /\ In x (flat (minimax WinningVotes v n)).
Proof.
  intros v x (Hnd & Hnn & H2) Hx n flat. split; apply in_flat_map; exists (Cand x); (split; [|left; reflexivity]).
  - exact (schulze_nobody_dropped v Hnd Hnn (candidates v) x Hx).
  - exact (minimax_nobody_dropped v H2 WinningVotes x Hx).
Qed.

(* non-vacuity *)
Example C05_example :
  copeland true [((1%positive, 2%positive), 3); ((2%positive, 1%positive), 1);
                 ((1%positive, 3%positive), 3); ((3%positive, 1%positive), 1);
                 ((2%positive, 3%positive), 2); ((3%positive, 2%positive), 2)] 1 = [Cand 1%positive].
Proof. vm_compute. reflexivity. Qed.

(* Schulze, a sparse dictionary (candidate 1 was never ranked below anyone: no incoming pair) iterated in another order,
   and a five-candidate election without a Condorcet winner where the ranking comes from the beat-paths *)
Example C05_schulze_example :
  schulze [((1%positive, 2%positive), 3); ((1%positive, 3%positive), 3);
           ((2%positive, 3%positive), 2); ((3%positive, 2%positive), 2)] [3%positive; 1%positive; 2%positive] 3
    = [Cand 1%positive; Cand 2%positive; Cand 3%positive] /\
  schulze mono_v (candidates mono_v) 5 = [Cand 3%positive; Cand 2%positive; Cand 5%positive; Cand 1%positive; Cand 4%positive].
Proof. vm_compute. split; reflexivity. Qed.

Print Assumptions C05_cw_copeland.
Print Assumptions C05_copeland_score.
Print Assumptions C05_smith_copeland.
Print Assumptions C05_cw_minimax.
Print Assumptions C05_minimax_nobody_dropped.
Print Assumptions C05_cw_schulze.
Print Assumptions C05_schulze_nobody_dropped.
Print Assumptions C05_schulze_strongest_paths.
Print Assumptions C05_schulze_score.
Print Assumptions C05_schulze_path_win.
Print Assumptions C05_schulze_order_irrelevant.
Print Assumptions C05_cw_full_schulze_minimax.
Print Assumptions C05_nobody_dropped_full_schulze_minimax.
