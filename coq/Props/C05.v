(* C05 - Condorcet methods elect the Condorcet winner and stay in the Smith set.
   Property theorems only.  Model: Model/Condorcet.v; proofs: Proofs/Condorcet_proofs.v.

   Proved for every pairwise dictionary (distinct keys, non-negative counts, absent
   pair = 0): Copeland (raw and second-order), minimax (winning votes, margins), Schulze (every
   iteration order of the candidate set), ranked pairs and Kemeny-Young elect the Condorcet winner
   alone (C05_cw_full: the whole clause); defining computations of Copeland, Schulze (the table of
   strongest beat-paths, ranking independent of the iteration order), Kemeny-Young (common first
   places of the best permutations) and ranked pairs (locked total order); nobody dropped for
   Copeland (raw and second order), minimax, Schulze, ranked pairs, Kemeny-Young (C05_nobody_dropped_full: the whole
   clause); Smith efficiency of Copeland (raw and second order), Schulze (by the number of path-wins), ranked pairs
   (three scorers) and Kemeny-Young, also for a reported tie (Proofs/SmithEff_proofs.v).  The run-off hybrids
   (Benham, Tideman alternative; Model/Hybrids.v, Proofs/Hybrids_proofs.v, Proofs/HybridTiers_proofs.v, end of this file):
   for every ranked profile a Condorcet winner of its pairwise dictionary is returned alone, the first winner of Tideman
   alternative lies in the Smith set and - with the repaired tiers - the winner of every tier in the Smith set of the
   candidates left, the winner of Benham lies in the Smith set once a tie in the elimination is refused (refuted for the
   elimination step of the pinned tree), a candidate that stands alone is elected, restriction of the ballots = restriction
   of the dictionary. *)
From Coq Require Import ZArith List Arith.
From VL Require Import Prelude.PyDict Model.GetNBest Model.Condorcet Proofs.Condorcet_proofs Proofs.CopelandMono_proofs Proofs.SmithCopeland_proofs Proofs.Minimax_proofs Proofs.Schulze_proofs.
Import ListNotations.
Open Scope Z_scope.

Theorem C05_cw_copeland : forall (v : pvotes) so c,
  NoDup (map fst v) -> (forall p n, In (p, n) v -> 0 <= n) -> (2 <= length (candidates v))%nat ->
  is_cw v c -> copeland so v 1 = [Cand c].
Proof. intros v so c Hnd Hnn. exact (copeland_elects_cw v Hnd Hnn so c). Qed.

(* the win-loss score is the defining computation of Copeland *)
Theorem C05_copeland_score : forall (v : pvotes) x,
  dget_or (copeland_scores (pairwise_wins v false)) x 0 = nwins v x - nlosses v x.
Proof. exact copeland_scores_get. Qed.

(* minimax by winning votes and by margins elects the Condorcet winner alone (pairwise opposition does not
   satisfy the Condorcet criterion in general and is not claimed), and with as many seats as candidates no candidate
   is dropped from the minimax ranking (all three scorers) *)
Theorem C05_cw_minimax : forall (v : pvotes) s c,
  NoDup (map fst v) -> (forall p n, In (p, n) v -> 0 <= n) -> (2 <= length (candidates v))%nat ->
  s <> PairwiseOpposition -> is_cw v c -> minimax s v 1 = [Cand c].
Proof. intros v s c Hnd Hnn H2. exact (minimax_elects_cw v Hnn H2 s c). Qed.

Theorem C05_minimax_nobody_dropped : forall (v : pvotes) s x,
  (2 <= length (candidates v))%nat -> In x (candidates v) -> In (Cand x) (minimax s v (length (candidates v))).
Proof. intros v s x H2. exact (minimax_nobody_dropped v H2 s x). Qed.

(* Smith-efficiency of Copeland: a sole winner by Copeland scores lies in the Smith set (the set SmithSet computes,
   proved in C06 to be the smallest dominating set) *)
Theorem C05_smith_copeland : forall (v : pvotes) (w : C),
  NoDup (map fst v) -> (forall p n, In (p, n) v -> 0 <= n) -> (2 <= length (candidates v))%nat ->
  copeland false v 1 = [Cand w] -> In w (smith_schwartz v true).
Proof.
  intros v w Hnd Hnn H2 H. rewrite copeland_raw_is_first_order in H. exact (copeland_in_smith v w Hnd Hnn H2 H).
Qed.

(* Schulze elects the Condorcet winner alone - whatever order the candidate set is iterated in (the code iterates a
   Python set): nothing reaches the Condorcet winner (column c of the table stays 0) and its direct wins are never lost *)
Theorem C05_cw_schulze : forall (v : pvotes) (order : list C) c,
  NoDup (map fst v) -> (forall p n, In (p, n) v -> 0 <= n) ->
  is_cw v c -> schulze v order 1 = [Cand c].
Proof. intros v order c Hnd Hnn Hcw. exact (schulze_elects_cw v Hnd Hnn order c Hcw). Qed.

(* with as many seats as candidates every candidate of the dictionary is listed (as a plain entry, not inside a tie) *)
Theorem C05_schulze_nobody_dropped : forall (v : pvotes) (order : list C) x,
  NoDup (map fst v) -> (forall p n, In (p, n) v -> 0 <= n) ->
  In x (candidates v) -> In (Cand x) (schulze v order (length (candidates v))).
Proof. intros v order x Hnd Hnn. exact (schulze_nobody_dropped v Hnd Hnn order x). Qed.

(* the defining computation: for a positive s and a <> b the table entry (a, b) is at least s exactly when there is a chain
   of direct wins from a to b each carried by at least s winning votes ([reach], Proofs/Schulze_proofs.v; [d0 v a b] = votes
   for a over b if a beats b, else 0) - i.e. the entry is the strength of the strongest beat-path, and 0 when there is none *)
Theorem C05_schulze_strongest_paths : forall (v : pvotes) (order : list C) a b s,
  NoDup (map fst v) -> incl (candidates v) order ->
  0 < s -> a <> b ->
  (s <= pget0 (widest_paths v order) (a, b) <-> reach v s a b).
Proof. intros v order a b s Hnd Hi Hs Hab. exact (wp_spec v Hnd order a b s Hi Hs Hab). Qed.

(* the score each candidate is ranked by is its number of path-wins *)
Theorem C05_schulze_score : forall (v : pvotes) (order : list C),
  NoDup (map fst v) -> (forall p n, In (p, n) v -> 0 <= n) ->
  forall n, schulze v order n =
    get_n_best zle_bool (map (fun c => (c, Z.of_nat (length (opponents (widest_paths v order) c)))) (candidates v)) n.
Proof. intros v order Hnd Hnn n. rewrite schulze_unfold. fold (sscores v order). rewrite (sscores_canonical v Hnd Hnn order). reflexivity. Qed.
Theorem C05_schulze_path_win : forall (v : pvotes) (order : list C) c x,
  NoDup (map fst v) -> (forall p n, In (p, n) v -> 0 <= n) ->
  (In x (opponents (widest_paths v order) c) <-> pget0 (widest_paths v order) (x, c) < pget0 (widest_paths v order) (c, x)).
Proof. intros v order c x Hnd Hnn. exact (opponents_spec _ (P_nodup v Hnd order) (P_nonneg v Hnd Hnn order) c x). Qed.

(* the result does not depend on the order in which the candidate set is iterated *)
Theorem C05_schulze_order_irrelevant : forall (v : pvotes) (order1 order2 : list C) n,
  NoDup (map fst v) -> (forall p n, In (p, n) v -> 0 <= n) ->
  incl (candidates v) order1 -> incl (candidates v) order2 -> schulze v order1 n = schulze v order2 n.
Proof. intros v o1 o2 n Hnd Hnn H1 H2. exact (schulze_order_irrelevant v Hnd Hnn o1 o2 n H1 H2). Qed.

Definition well_formed (v : pvotes) : Prop :=
  NoDup (map fst v) /\ (forall p n, In (p, n) v -> 0 <= n) /\ (2 <= length (candidates v))%nat.
Definition first_is (r : list (res C)) (c : C) : Prop := exists t, r = Cand c :: t.

Definition C05_cw_full_statement : Prop :=
  forall v c, well_formed v -> is_cw v c ->
    first_is (schulze v (candidates v) 1) c /\
    first_is (minimax WinningVotes v 1) c /\ first_is (minimax Margins v 1) c /\
    ranked_pairs WinningVotes v 1 = CR_ok [Cand c] /\ ranked_pairs Margins v 1 = CR_ok [Cand c] /\
    kemeny v 1 = CR_ok [Cand c].
Definition C05_nobody_dropped_full_statement : Prop :=
  forall v x, well_formed v -> In x (candidates v) ->
    let n := length (candidates v) in
    let flat r := flat_map (fun e => match e with Cand c => [c] | TieR l => l end) r in
    In x (flat (copeland true v n)) /\ In x (flat (schulze v (candidates v) n)) /\
    In x (flat (minimax WinningVotes v n)).

(* the Schulze and minimax parts of the two full statements, as stated *)
Theorem C05_cw_full_schulze_minimax : forall v c, well_formed v -> is_cw v c ->
  first_is (schulze v (candidates v) 1) c /\
  first_is (minimax WinningVotes v 1) c /\ first_is (minimax Margins v 1) c.
Proof.
  intros v c (Hnd & Hnn & H2) Hcw. split; [exists []; exact (schulze_elects_cw v Hnd Hnn (candidates v) c Hcw)|].
  split; exists []; apply (minimax_elects_cw v Hnn H2); [discriminate|exact Hcw|discriminate|exact Hcw].
Qed.
Theorem C05_nobody_dropped_full_schulze_minimax : forall v x, well_formed v -> In x (candidates v) ->
  let n := length (candidates v) in
  let flat r := flat_map (fun e => match e with Cand c => [c] | TieR l => l end) r in
  In x (flat (schulze v (candidates v) n)) /\ In x (flat (minimax WinningVotes v n)).
Proof.
  intros v x (Hnd & Hnn & H2) Hx n flat. split; apply in_flat_map; exists (Cand x); (split; [|left; reflexivity]).
  - exact (schulze_nobody_dropped v Hnd Hnn (candidates v) x Hx).
  - exact (minimax_nobody_dropped v H2 WinningVotes x Hx).
Qed.

(* non-vacuity *)
Example C05_example :
  copeland true [((1%positive, 2%positive), 3); ((2%positive, 1%positive), 1);
                 ((1%positive, 3%positive), 3); ((3%positive, 1%positive), 1);
                 ((2%positive, 3%positive), 2); ((3%positive, 2%positive), 2)] 1 = [Cand 1%positive].
Proof. vm_compute. reflexivity. Qed.

(* Schulze, a sparse dictionary (candidate 1 was never ranked below anyone: no incoming pair) iterated in another order,
   and a five-candidate election without a Condorcet winner where the ranking comes from the beat-paths *)
Example C05_schulze_example :
  schulze [((1%positive, 2%positive), 3); ((1%positive, 3%positive), 3);
           ((2%positive, 3%positive), 2); ((3%positive, 2%positive), 2)] [3%positive; 1%positive; 2%positive] 3
    = [Cand 1%positive; Cand 2%positive; Cand 3%positive] /\
  schulze mono_v (candidates mono_v) 5 = [Cand 3%positive; Cand 2%positive; Cand 5%positive; Cand 1%positive; Cand 4%positive].
Proof. vm_compute. split; reflexivity. Qed.
(* ---------------------------------------------------------------- Kemeny-Young and ranked pairs *)
From Coq Require Import Permutation Sorted Lia.
From VL Require Import Proofs.Kemeny_proofs Proofs.RankedPairs_proofs.

(* Kemeny-Young, Condorcet winner (non-negative counts): the winner heads every best ranking because moving it to the
   front gains votes, all best rankings therefore agree on the first place, and the evaluator answers with it. *)
Theorem C05_cw_kemeny : forall (v : pvotes) c,
  (forall p n, In (p, n) v -> 0 <= n) -> is_cw v c -> kemeny v 1 = CR_ok [Cand c].
Proof. intros v c Hnn. apply kemeny_elects_cw, pget0_nn, Hnn. Qed.

(* defining computation: an answer is the first n places of a ranking of all candidates with the greatest Kemeny score,
   and ALL rankings with the greatest score have the same first n places ... *)
Theorem C05_kemeny_defining : forall (v : pvotes) n r, kemeny v n = CR_ok r ->
  exists p, Permutation p (candidates v) /\ r = map Cand (firstn n p) /\
    (forall q, Permutation q (candidates v) -> kemeny_score v q <= kemeny_score v p) /\
    (forall q, kemeny_max v q -> firstn n q = firstn n p).
Proof.
  intros v n r H. destruct (kemeny_defining v n r H) as (p & (Hp & Hge) & _ & Hr & Hall). exists p. tauto.
Qed.

(* ... conversely the evaluator answers whenever the best rankings agree on the first n places, and it refuses
   (NotImplementedError of Tie.tie_rankings) exactly when two best rankings differ within the first n places
   (counts non-negative: the scan starts from best_score = 0) *)
Theorem C05_kemeny_answers : forall (v : pvotes) n p, (forall q m, In (q, m) v -> 0 <= m) ->
  kemeny_max v p -> (forall q, kemeny_max v q -> firstn n q = firstn n p) ->
  kemeny v n = CR_ok (map Cand (firstn n p)).
Proof.
  intros v n p Hnn Hb Hall. apply kemeny_complete; [exact Hb|apply kemeny_score_nonneg, pget0_nn, Hnn|exact Hall].
Qed.

Theorem C05_kemeny_refusal : forall (v : pvotes) n, (forall p m, In (p, m) v -> 0 <= m) ->
  (kemeny v n = CR_nie <-> exists p q, kemeny_max v p /\ kemeny_max v q /\ firstn n p <> firstn n q) /\
  (kemeny v n = CR_nie \/ exists r, kemeny v n = CR_ok r).
Proof.
  intros v n Hnn. split; [apply kemeny_refuses_iff, pget0_nn, Hnn|].
  destruct (kemeny_cases v n) as [(p & _ & Hp)|H]; [right; eexists; exact Hp|left; exact H].
Qed.

Theorem C05_kemeny_nobody_dropped : forall (v : pvotes) r x,
  kemeny v (length (candidates v)) = CR_ok r -> In x (candidates v) -> In (Cand x) r.
Proof. exact kemeny_nobody_dropped. Qed.

(* the enumeration the evaluator scans is exactly the set of rankings of the candidates, each listed once *)
Theorem C05_permutations : forall (l p : list C),
  (In p (permutations l) <-> Permutation p l) /\ (NoDup l -> NoDup (permutations l)).
Proof. intros l p. split; [apply permutations_spec|apply permutations_NoDup]. Qed.

(* the dictionary on which the unrepaired evaluator refused although 1 is the Condorcet winner (2 and 3 tie below it):
   one seat is now answered, two or three seats are still refused because the best rankings 1>2>3 and 1>3>2 differ there *)
Definition C05_kemeny_tied_tail : pvotes :=
  [((1%positive, 2%positive), 3); ((2%positive, 1%positive), 1);
   ((1%positive, 3%positive), 3); ((3%positive, 1%positive), 1);
   ((2%positive, 3%positive), 2); ((3%positive, 2%positive), 2)].
Example C05_kemeny_tied_tail_example :
  kemeny C05_kemeny_tied_tail 1 = CR_ok [Cand 1%positive] /\
  kemeny C05_kemeny_tied_tail 2 = CR_nie /\ kemeny C05_kemeny_tied_tail 3 = CR_nie.
Proof. vm_compute. auto. Qed.

(* Ranked pairs (all three pairwise scorers): the evaluator never refuses; its answer lists ALL candidates along the
   locked relation, which is a strict total order (every candidate precedes exactly those it is locked over) ... *)
Theorem C05_ranked_pairs_defining : forall (v : pvotes) s n, (2 <= length (candidates v))%nat ->
  exists ranking, ranked_pairs s v n = CR_ok (map Cand (firstn n ranking)) /\ Permutation ranking (candidates v) /\
    StronglySorted (fun a b => In (a, b) (lock_pairs (rp_pairs s v))) ranking.
Proof. intros v s n H2. exact (ranked_pairs_ranking v s H2 n). Qed.

(* ... where the pairs are taken by descending strength under the scorer and each is locked unless the pairs locked
   before it already lead from its loser to its winner *)
Theorem C05_ranked_pairs_lock : forall (v : pvotes) s,
  StronglySorted (fun p q => sc v s (fst q) (snd q) <= sc v s (fst p) (snd p)) (rp_pairs s v) /\
  (forall a b, In (a, b) (rp_pairs s v) <-> In a (candidates v) /\ In b (candidates v) /\ a <> b) /\
  (forall l1 a b l2, rp_pairs s v = l1 ++ (a, b) :: l2 -> a <> b -> ~ In (a, b) l1 -> ~ In (a, b) l2 ->
     (In (a, b) (lock_pairs (rp_pairs s v)) <-> ~ path (lock_pairs l1) b a)) /\
  (forall x, ~ path (lock_pairs (rp_pairs s v)) x x).
Proof.
  intros v s. split; [apply rp_pairs_sorted|]. split; [apply rp_pairs_in|]. split.
  - intros l1 a b l2 E. rewrite E. apply lock_spec.
  - apply lock_acyclic. intros a b H. apply rp_pairs_in in H. tauto.
Qed.

Theorem C05_cw_ranked_pairs : forall (v : pvotes) s c,
  (forall p n, In (p, n) v -> 0 <= n) -> (2 <= length (candidates v))%nat ->
  is_cw v c -> ranked_pairs s v 1 = CR_ok [Cand c].
Proof. intros v s c Hnn H2. exact (ranked_pairs_elects_cw v s H2 Hnn c). Qed.

Theorem C05_ranked_pairs_nobody_dropped : forall (v : pvotes) s, (2 <= length (candidates v))%nat ->
  exists r, ranked_pairs s v (length (candidates v)) = CR_ok r /\ forall x, In x (candidates v) -> In (Cand x) r.
Proof. intros v s H2. exact (ranked_pairs_nobody_dropped v s H2). Qed.

(* every conjunct of C05_cw_full_statement except the Schulze one *)
Theorem C05_cw_all_but_schulze : forall v c, well_formed v -> is_cw v c ->
  first_is (minimax WinningVotes v 1) c /\ first_is (minimax Margins v 1) c /\
  ranked_pairs WinningVotes v 1 = CR_ok [Cand c] /\ ranked_pairs Margins v 1 = CR_ok [Cand c] /\
  kemeny v 1 = CR_ok [Cand c].
Proof.
  intros v c (Hnd & Hnn & H2) Hcw.
  split; [exists []; apply C05_cw_minimax; auto; discriminate|].
  split; [exists []; apply C05_cw_minimax; auto; discriminate|].
  split; [apply C05_cw_ranked_pairs; assumption|]. split; [apply C05_cw_ranked_pairs; assumption|].
  apply C05_cw_kemeny; assumption.
Qed.

(* the whole Condorcet-winner clause, as it was stated before it was proved *)
Theorem C05_cw_full : C05_cw_full_statement.
Proof.
  intros v c Hwf Hcw. destruct (C05_cw_full_schulze_minimax v c Hwf Hcw) as (Hs & _).
  split; [exact Hs|]. exact (C05_cw_all_but_schulze v c Hwf Hcw).
Qed.

(* non-vacuity: a profile with a Condorcet winner and a unique best ranking *)
Definition C05_kemeny_example : pvotes :=
  [((2%positive, 3%positive), 5); ((3%positive, 2%positive), 1);
   ((1%positive, 3%positive), 3); ((3%positive, 1%positive), 1);
   ((1%positive, 2%positive), 4); ((2%positive, 1%positive), 2)].
Example C05_kemeny_example_cw : is_cw C05_kemeny_example 1%positive /\
  kemeny C05_kemeny_example 1 = CR_ok [Cand 1%positive] /\
  kemeny C05_kemeny_example 3 = CR_ok [Cand 1%positive; Cand 2%positive; Cand 3%positive] /\
  ranked_pairs Margins C05_kemeny_example 3 = CR_ok [Cand 1%positive; Cand 2%positive; Cand 3%positive].
Proof.
  split; [|vm_compute; auto]. split; [vm_compute; tauto|]. intros x Hx Hne. vm_compute in Hx.
  destruct Hx as [<-|[<-|[<-|[]]]]; [vm_compute; reflexivity|vm_compute; reflexivity|congruence].
Qed.

(* ---------------------------------------------------------------- Smith efficiency of Schulze, ranked pairs, Kemeny-Young;
   nobody dropped for Copeland (Proofs/SmithEff_proofs.v).  The Smith set is [smith_schwartz v true], the set SmithSet
   computes, proved in C06 to be the smallest dominating set. *)
From VL Require Import Proofs.SmithEff_proofs.

(* Schulze as votelib ranks it - by the NUMBER of path-wins (docs/C17.md) - is still Smith-efficient, whatever order the
   candidate set is iterated in: no beat-path leads from outside the Smith set into it, so a member path-beats every
   outsider and an outsider path-beats outsiders only; a member has at least |outside| path-wins, an outsider fewer. *)
Theorem C05_smith_schulze : forall (v : pvotes) (order : list C) (w : C),
  NoDup (map fst v) -> (forall p n, In (p, n) v -> 0 <= n) -> (2 <= length (candidates v))%nat ->
  schulze v order 1 = [Cand w] -> In w (smith_schwartz v true).
Proof. intros v order w Hnd Hnn H2. exact (schulze_in_smith v Hnd Hnn H2 order w). Qed.

(* the count argument itself: every member of the Smith set has strictly more path-wins than every other candidate *)
Theorem C05_smith_schulze_gap : forall (v : pvotes) (order : list C) (a x : C),
  NoDup (map fst v) -> (forall p n, In (p, n) v -> 0 <= n) -> (2 <= length (candidates v))%nat ->
  In a (smith_schwartz v true) -> In x (candidates v) -> ~ In x (smith_schwartz v true) ->
  (length (opponents (widest_paths v order) x) < length (opponents (widest_paths v order) a))%nat.
Proof. intros v order a x Hnd Hnn H2. exact (path_wins_gap v Hnd Hnn H2 order a x). Qed.

(* ranked pairs, ALL THREE scorers (pairwise opposition included: a pair that loses its contest is locked only along a
   path that exists already): no pair is ever locked from outside the Smith set into it, every member is locked over
   every outsider, and the head of the ranking lies in the Smith set *)
Theorem C05_smith_ranked_pairs : forall (v : pvotes) (s : scorer) (w : C),
  (forall p n, In (p, n) v -> 0 <= n) -> (2 <= length (candidates v))%nat ->
  ranked_pairs s v 1 = CR_ok [Cand w] -> In w (smith_schwartz v true).
Proof. intros v s w Hnn H2. exact (ranked_pairs_in_smith v s Hnn H2 w). Qed.

Theorem C05_smith_ranked_pairs_locked : forall (v : pvotes) (s : scorer) (a b : C),
  (forall p n, In (p, n) v -> 0 <= n) -> (2 <= length (candidates v))%nat ->
  In a (smith_schwartz v true) -> In b (candidates v) -> ~ In b (smith_schwartz v true) ->
  In (a, b) (lock_pairs (rp_pairs s v)).
Proof. intros v s a b Hnn H2. exact (rp_smith_locked v s Hnn H2 a b). Qed.

(* Kemeny-Young: in a best ranking an outsider never stands directly above a member of the Smith set (swapping them
   gains votes), so the members come first and the answer for one seat is a member - no hypothesis on the counts *)
Theorem C05_smith_kemeny : forall (v : pvotes) (w : C),
  (2 <= length (candidates v))%nat -> kemeny v 1 = CR_ok [Cand w] -> In w (smith_schwartz v true).
Proof. intros v w H2. exact (kemeny_in_smith v H2 w). Qed.

Theorem C05_smith_kemeny_order : forall (v : pvotes) (p l1 : list C) (x y : C) (l2 : list C),
  (2 <= length (candidates v))%nat -> kemeny_max v p -> p = l1 ++ x :: y :: l2 ->
  In y (smith_schwartz v true) -> In x (smith_schwartz v true).
Proof. intros v p l1 x y l2 H2. exact (kemeny_max_smith_first v H2 p l1 x y l2). Qed.

(* Copeland, raw and with second-order tie-breaking: with as many seats as candidates every candidate is listed (as a plain
   entry: get_n_best returns no tie object then, so the second-order branch is not taken) *)
Theorem C05_copeland2_nobody_dropped : forall (v : pvotes) (so : bool) (x : C),
  NoDup (map fst v) -> (forall p n, In (p, n) v -> 0 <= n) ->
  In x (candidates v) -> In (Cand x) (copeland so v (length (candidates v))).
Proof. intros v so x Hnd Hnn. exact (copeland_nobody_dropped v so x Hnd Hnn). Qed.

(* the whole nobody-dropped clause, as it was stated before it was proved *)
Theorem C05_nobody_dropped_full : C05_nobody_dropped_full_statement.
Proof.
  intros v x Hwf Hx n flat. destruct (C05_nobody_dropped_full_schulze_minimax v x Hwf Hx) as (Hs & Hm).
  destruct Hwf as (Hnd & Hnn & H2). split; [|split; [exact Hs|exact Hm]].
  apply in_flat_map. exists (Cand x). split; [|left; reflexivity]. exact (copeland_nobody_dropped v true x Hnd Hnn Hx).
Qed.

(* the same for a REPORTED TIE for the seat: whatever stands in the first place of the one-seat answer - the plain winner or
   every member of the tie object - lies in the Smith set; Copeland with and without second-order tie-breaking (the
   second-order scores are kept for the first-order leaders only), Schulze for every iteration order.  Ranked pairs and
   Kemeny-Young never answer with a tie object, so C05_smith_ranked_pairs / C05_smith_kemeny already cover every answer. *)
Theorem C05_smith_copeland_first : forall (v : pvotes) (so : bool),
  NoDup (map fst v) -> (forall p n, In (p, n) v -> 0 <= n) -> (2 <= length (candidates v))%nat ->
  incl (first_place (copeland so v 1)) (smith_schwartz v true).
Proof. intros v so Hnd Hnn H2. exact (copeland_first_in_smith v Hnd Hnn H2 so). Qed.

Theorem C05_smith_schulze_first : forall (v : pvotes) (order : list C),
  NoDup (map fst v) -> (forall p n, In (p, n) v -> 0 <= n) -> (2 <= length (candidates v))%nat ->
  incl (first_place (schulze v order 1)) (smith_schwartz v true).
Proof. intros v order Hnd Hnn H2. exact (schulze_first_in_smith v Hnd Hnn H2 order). Qed.

(* non-vacuity: five candidates, a three-candidate top cycle 1 > 2 > 3 > 1 over 4 and 5, no Condorcet winner; the Smith set is
   {1, 2, 3} and each method elects one of its members *)
Definition C05_smith_example : pvotes := mk_pv
  [(1, 2, 7); (2, 1, 4); (2, 3, 8); (3, 2, 3); (3, 1, 6); (1, 3, 5);
   (1, 4, 6); (4, 1, 5); (2, 4, 9); (4, 2, 2); (3, 4, 6); (4, 3, 5);
   (1, 5, 7); (5, 1, 4); (2, 5, 6); (5, 2, 5); (3, 5, 10); (5, 3, 1); (4, 5, 6); (5, 4, 5)].
Example C05_smith_example_runs :
  well_formed C05_smith_example /\ condorcet_winner C05_smith_example = [] /\
  smith_schwartz C05_smith_example true = [1%positive; 2%positive; 3%positive] /\
  schulze C05_smith_example (candidates C05_smith_example) 1 = [Cand 1%positive] /\
  ranked_pairs WinningVotes C05_smith_example 1 = CR_ok [Cand 1%positive] /\
  ranked_pairs Margins C05_smith_example 1 = CR_ok [Cand 1%positive] /\
  ranked_pairs PairwiseOpposition C05_smith_example 1 = CR_ok [Cand 1%positive] /\
  kemeny C05_smith_example 1 = CR_ok [Cand 1%positive] /\
  copeland true C05_smith_example 1 = [TieR [1%positive; 2%positive; 3%positive]] /\
  copeland true C05_smith_example 5 = [Cand 1%positive; Cand 2%positive; Cand 3%positive; Cand 4%positive; Cand 5%positive].
Proof.
  split; [split; [apply nodup_keys_b_sound; vm_compute; reflexivity|split; [apply nonneg_b_sound; vm_compute; reflexivity|vm_compute; lia]]|].
  vm_compute. repeat split; reflexivity.
Qed.

(* ------------------------------------------------------------------ the Condorcet-runoff hybrids
   Benham and Tideman alternative (votelib/evaluate/sequential.py; Model/Hybrids.v, proofs Proofs/Hybrids_proofs.v,
   Proofs/TidemanIndex_proofs.v, Proofs/HybridTiers_proofs.v) on ranked profiles with truncation and shared ranks, integer weights.
   [wf_votes]: no candidate twice on a ballot, no negative weight.  [pairwise] = RankedToCondorcetVotes(unranked_at_bottom=True),
   [subset_votes] = SubsettedVotes(RankedSubsetter).  Three flags say which repairs the modelled code has (false = as written on
   the pinned tree):
   [fx]  fixes/C05-hybrid-elimination-tie.diff  - a tie among the candidates to eliminate is refused instead of being used as a candidate;
   [sc]  fixes/C05-hybrid-single-candidate.diff - a candidate that stands alone is elected, a round without any pairwise contest
         has everybody in its winner set (instead of IndexError);
   [tr]  fixes/C05-tideman-tiers.diff           - the tiers of TidemanAlternative after the first run on the votes restricted to
         the still eligible candidates (instead of TypeError). *)
From VL Require Import Model.Convert Model.STV Model.Hybrids Proofs.Hybrids_proofs Proofs.ShapeElim_proofs Proofs.TidemanIndex_proofs Proofs.HybridTiers_proofs.
Close Scope nat_scope.
Open Scope Z_scope.

(* restricting the ballots to a set of candidates restricts the pairwise dictionary to that set: the counts between
   members of the set are unchanged, and nobody outside the set is left in the dictionary *)
Theorem C05_subset_restriction : forall (S : list C) (votes : rvotes) (a b : C),
  wf_votes votes = true -> In a S -> In b S ->
  pget0 (pairwise (subset_votes S votes)) (a, b) = pget0 (pairwise votes) (a, b).
Proof. exact subset_restriction. Qed.

Theorem C05_subset_candidates : forall (S : list C) (votes : rvotes) (x : C),
  In x (candidates (pairwise (subset_votes S votes))) -> In x S /\ In x (cands_of votes).
Proof. intros S votes x H. apply subset_cands. apply candidates_pairwise_in. exact H. Qed.

(* a Condorcet winner of the profile's pairwise dictionary is returned alone by both hybrids, whichever repairs the code has
   (no elimination round is entered: the Smith set is {c}) *)
Theorem C05_cw_benham : forall (fx sc : bool) (votes : rvotes) (c : C),
  wf_votes votes = true -> is_cw (pairwise votes) c -> benham fx sc votes = H_ok [Cand c].
Proof. exact cw_benham. Qed.

Theorem C05_cw_tideman : forall (fx sc tr : bool) (votes : rvotes) (c : C),
  wf_votes votes = true -> is_cw (pairwise votes) c -> tideman_alt fx sc tr votes 1 = H_ok [Cand c].
Proof. exact cw_tideman. Qed.

(* Smith containment.  Tideman alternative: whichever repairs the code has, for every seat count, the FIRST winner lies in
   the Smith set of the profile - after the first round only members of that set are left on the ballots *)
Theorem C05_smith_tideman : forall (fx sc tr : bool) (votes : rvotes) (n : nat) (c : C) (rest : list (res C)),
  wf_votes votes = true -> pairwise votes <> [] -> tideman_alt fx sc tr votes n = H_ok (Cand c :: rest) ->
  In c (smith_schwartz (pairwise votes) true).
Proof. exact smith_tideman. Qed.

(* ... and with all repairs the winner of EVERY tier lies in the Smith set of the candidates that are left: the i-th winner
   belongs to every dominating set D of the candidates not elected before it - D non-empty, every member of D beats every
   remaining candidate outside D in the pairwise dictionary of the ORIGINAL profile ([dominating], [remaining]: Proofs/HybridTiers_proofs.v);
   the Smith set is the smallest of these sets.  Candidates left without any pairwise contest among them are all undominated. *)
Theorem C05_smith_tideman_tiers : forall (votes : rvotes) (n : nat) (ws : list C) (i : nat) (w : C) (D : list C),
  wf_votes votes = true -> cands_of votes <> [] -> (1 <= n)%nat ->
  tideman_alt true true true votes n = H_ok (map Cand ws) -> nth_error ws i = Some w ->
  dominating (pairwise votes) (remaining (cands_of votes) (firstn i ws)) D -> In w D.
Proof.
  intros votes n ws i w D Hwf Hne Hn H Hi HD. destruct (tideman_tiers_smith votes n ws Hwf Hne Hn H) as (_ & _ & _ & Hs).
  exact (Hs i w Hi D HD).
Qed.

(* the model's own reading of the same fact for the first tier: the set get_winner_set computes *)
Theorem C05_tideman_first_in_winner_set : forall (fx sc tr : bool) (votes : rvotes) (n : nat) (c : C) (rest : list (res C)),
  wf_votes votes = true -> tideman_alt fx sc tr votes n = H_ok (Cand c :: rest) -> In c (winner_set sc votes).
Proof.
  intros fx sc tr votes n c rest Hwf H. destruct (tideman_first fx sc tr votes n _ H) as (w & rest' & E & Et). injection E as <- _.
  exact (tier_in_winner_set fx sc _ votes c Hwf Et).
Qed.

(* Benham: a plain winner lies in the Smith set of the original profile (invariant: a member of the Smith set is still on the
   ballots - if the only one left were eliminated it would beat everybody else left and be their Condorcet winner) *)
Definition C05_smith_benham_full_statement (fx sc : bool) : Prop :=
  forall (votes : rvotes) (c : C),
    wf_votes votes = true -> pairwise votes <> [] ->
    benham fx sc votes = H_ok [Cand c] -> In c (smith_schwartz (pairwise votes) true).

Theorem C05_smith_benham : forall sc : bool, C05_smith_benham_full_statement true sc.
Proof. intros sc votes c. exact (smith_benham sc votes c). Qed.

(* the pinned tree: B and A tie for the third place among A, B, C, D; the Tie object is no candidate, both are dropped at once,
   C beats D and wins although the Smith set is {A, B} (A = 1 ... E = 5; known finding C05-hybrid-elimination-tie) *)
Definition C05_benham_witness : rvotes :=
  [([IP 2%positive; IP 1%positive; IP 3%positive; IP 5%positive], 2); ([IP 1%positive; IP 2%positive], 2);
   ([IP 3%positive], 3); ([IP 4%positive], 3)].
Theorem C05_smith_benham_refuted : forall sc : bool, ~ C05_smith_benham_full_statement false sc.
Proof.
  intros sc H. specialize (H C05_benham_witness 3%positive).
  assert (Hin : In 3%positive (smith_schwartz (pairwise C05_benham_witness) true)).
  { apply H; [vm_compute; reflexivity|vm_compute; discriminate|destruct sc; vm_compute; reflexivity]. }
  vm_compute in Hin. destruct Hin as [Hin|[Hin|[]]]; discriminate Hin.
Qed.

(* a candidate that stands alone is elected by both hybrids (all repairs), however many seats are asked for; on the code
   without the repair both raise IndexError (C08_shape_hybrids_single_candidate_refuted) *)
Theorem C05_single_candidate : forall (votes : rvotes) (c : C), cands_of votes = [c] ->
  benham true true votes = H_ok [Cand c] /\ forall n, (1 <= n)%nat -> tideman_alt true true true votes n = H_ok [Cand c].
Proof.
  intros votes c E. pose proof (cands_single votes c E) as EK. split.
  - rewrite (benham_single true votes c EK). reflexivity.
  - intros n Hn. exact (tideman_single votes n c EK Hn).
Qed.

(* the repair for profiles without a pairwise contest changes no answer on a profile that has one (Tideman, one seat:
   every round of the tier keeps a contest, Proofs/TidemanIndex_proofs.v) resp. two candidates (Benham) *)
Theorem C05_single_candidate_repair_conservative : forall (tr : bool) (votes : rvotes),
  wf_votes votes = true -> pairwise votes <> [] ->
  tideman_alt true true tr votes 1 = tideman_alt true false tr votes 1 /\ benham true true votes = benham true false votes.
Proof.
  intros tr votes Hwf Hne. split; [exact (tideman_repair_conservative tr votes Hwf Hne)|].
  exact (benham_repair_conservative votes Hwf (arc_two votes Hwf Hne)).
Qed.

(* the fuel of the model's elimination / tier loops always suffices: every round removes at least one candidate from the ballots,
   every tier one from the eligible set *)
Theorem C05_hybrid_fuel : forall (fx sc tr : bool) (votes : rvotes) (n : nat),
  wf_votes votes = true -> benham fx sc votes <> H_fuel /\ tideman_alt fx sc tr votes n <> H_fuel.
Proof. intros fx sc tr votes n Hwf. split; [exact (benham_fuel fx sc votes Hwf)|exact (tideman_fuel fx sc tr votes n Hwf)]. Qed.

(* non-vacuity: a three-candidate cycle above a fourth candidate, no Condorcet winner; both hybrids go through an elimination
   round and elect a member of the Smith set {1, 2, 3}; with all repairs Tideman fills two, three, four (and "five") seats tier by
   tier (the second tier is the contest 2 > 3 > 4, the last one a single candidate); the witness of the refutation is repaired by
   the fix (refusal); {1, 2, 3} is a dominating set of the four candidates, {2} one of the three left after 1 is elected *)
Definition C05_hybrid_example : rvotes :=
  [([IP 1%positive; IP 2%positive; IP 3%positive; IP 4%positive], 4); ([IP 2%positive; IP 3%positive; IP 1%positive; IP 4%positive], 3);
   ([IP 3%positive; IP 1%positive; IS [2%positive; 4%positive]], 2)].
Example C05_hybrid_example_runs :
  wf_votes C05_hybrid_example = true /\ pairwise C05_hybrid_example <> [] /\
  condorcet_winner (pairwise C05_hybrid_example) = [] /\
  smith_schwartz (pairwise C05_hybrid_example) true = [1%positive; 2%positive; 3%positive] /\
  benham true true C05_hybrid_example = H_ok [Cand 1%positive] /\ benham false false C05_hybrid_example = H_ok [Cand 1%positive] /\
  tideman_alt true true true C05_hybrid_example 1 = H_ok [Cand 1%positive] /\
  tideman_alt true true true C05_hybrid_example 2 = H_ok [Cand 1%positive; Cand 2%positive] /\
  tideman_alt true true true C05_hybrid_example 4 = H_ok [Cand 1%positive; Cand 2%positive; Cand 3%positive; Cand 4%positive] /\
  tideman_alt true true true C05_hybrid_example 5 = H_ok [Cand 1%positive; Cand 2%positive; Cand 3%positive; Cand 4%positive] /\
  tideman_alt true false true C05_hybrid_example 4 = H_index /\ tideman_alt true true false C05_hybrid_example 2 = H_type /\
  benham true true C05_benham_witness = H_nie /\ benham false false C05_benham_witness = H_ok [Cand 3%positive] /\
  smith_schwartz (pairwise C05_benham_witness) true = [2%positive; 1%positive].
Proof. vm_compute. repeat split; try reflexivity. discriminate. Qed.

Example C05_hybrid_example_dominating :
  dominating (pairwise C05_hybrid_example) (remaining (cands_of C05_hybrid_example) []) [1%positive; 2%positive; 3%positive] /\
  dominating (pairwise C05_hybrid_example) (remaining (cands_of C05_hybrid_example) [1%positive]) [2%positive].
Proof.
  split; (split; [discriminate|split; [intros x Hx; vm_compute; vm_compute in Hx; tauto|]]); intros a b Ha Hb Hnb; vm_compute in Hb;
    repeat (destruct Ha as [<-|Ha]; [repeat (destruct Hb as [<-|Hb]; [try (vm_compute; reflexivity); exfalso; apply Hnb; cbn; tauto|]); destruct Hb|]); destruct Ha.
Qed.

Print Assumptions C05_cw_copeland.
Print Assumptions C05_copeland_score.
Print Assumptions C05_smith_copeland.
Print Assumptions C05_cw_minimax.
Print Assumptions C05_minimax_nobody_dropped.
Print Assumptions C05_cw_schulze.
Print Assumptions C05_schulze_nobody_dropped.
Print Assumptions C05_schulze_strongest_paths.
Print Assumptions C05_schulze_score.
Print Assumptions C05_schulze_path_win.
Print Assumptions C05_schulze_order_irrelevant.
Print Assumptions C05_cw_full_schulze_minimax.
Print Assumptions C05_nobody_dropped_full_schulze_minimax.
Print Assumptions C05_cw_kemeny.
Print Assumptions C05_kemeny_defining.
Print Assumptions C05_kemeny_answers.
Print Assumptions C05_kemeny_refusal.
Print Assumptions C05_kemeny_nobody_dropped.
Print Assumptions C05_permutations.
Print Assumptions C05_ranked_pairs_defining.
Print Assumptions C05_ranked_pairs_lock.
Print Assumptions C05_cw_ranked_pairs.
Print Assumptions C05_ranked_pairs_nobody_dropped.
Print Assumptions C05_cw_all_but_schulze.
Print Assumptions C05_cw_full.
Print Assumptions C05_smith_schulze.
Print Assumptions C05_smith_schulze_gap.
Print Assumptions C05_smith_ranked_pairs.
Print Assumptions C05_smith_ranked_pairs_locked.
Print Assumptions C05_smith_kemeny.
Print Assumptions C05_smith_kemeny_order.
Print Assumptions C05_copeland2_nobody_dropped.
Print Assumptions C05_nobody_dropped_full.
Print Assumptions C05_smith_copeland_first.
Print Assumptions C05_smith_schulze_first.
Print Assumptions C05_subset_restriction.
Print Assumptions C05_subset_candidates.
Print Assumptions C05_cw_benham.
Print Assumptions C05_cw_tideman.
Print Assumptions C05_smith_tideman.
Print Assumptions C05_smith_tideman_tiers.
Print Assumptions C05_tideman_first_in_winner_set.
Print Assumptions C05_smith_benham.
Print Assumptions C05_smith_benham_refuted.
Print Assumptions C05_single_candidate.
Print Assumptions C05_single_candidate_repair_conservative.
Print Assumptions C05_hybrid_fuel.
