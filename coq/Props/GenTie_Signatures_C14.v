(* C14 - Gen signatures = Model signatures.

   Model/Wrappers.v binds every evaluate() call against a hand-written signature table ([sig_of], [lsig], [attr_of]) and
   computes core.accepts_seats / accepts_prev_gains from it.  Gen/Signatures.v (tools/py2v.py part 5, regenerated from
   votelib/**/*.py on every run) holds the parameter list of evaluate of every class as the SOURCE declares it and the
   accepts_seats class attribute.  The lemmas below read the generated parameter lists as [sigt] values and state that they
   ARE the hand-written ones, for every wrapper class of core.py and for the leaf evaluators the C14 harness uses: adding,
   removing, renaming, reordering a parameter of one of these evaluate() methods, changing its kind or its default breaks
   this file (a broken obligation of C14) - until now the table was only compared with inspect.signature on the nodes of
   the generated trees. *)
From Coq Require Import ZArith List String Bool.
From VL Require Import Gen.Signatures Model.Wrappers.
Import ListNotations.
Open Scope string_scope.

Definition kw_of (s : string) : option kw :=
  if String.eqb s "n_seats" then Some KSeats
  else if String.eqb s "prev_gains" then Some KPrev
  else if String.eqb s "max_seats" then Some KMax
  else if String.eqb s "party_lists" then Some KPl
  else if String.eqb s "list_votes" then Some KLv
  else if String.eqb s "candidate_list" then Some KCl
  else None.

(* a default the model can hold: required / None / {} / an int *)
Definition dflt_val (d : dflt) : option (option val) :=
  match d with
  | DReq => Some None
  | DNone => Some (Some VNone)
  | DEmptyDict => Some (Some (VDict []))
  | DInt z => Some (Some (VInt z))
  | _ => None
  end.

Definition named (p : mparam) : option (kw * option val) :=
  match kw_of (mp_name p), dflt_val (mp_default p) with
  | Some k, Some d => Some (k, d)
  | _, _ => None
  end.

Fixpoint all_some {X} (l : list (option X)) : option (list X) :=
  match l with
  | [] => Some []
  | Some x :: t => match all_some t with Some r => Some (x :: r) | None => None end
  | None :: _ => None
  end.

Definition is_kind (k : pkind) (p : mparam) : bool :=
  match k, mp_kind p with
  | PPos, PPos | PVarPos, PVarPos | PKwOnly, PKwOnly | PVarKw, PVarKw | PPosOnly, PPosOnly => true
  | _, _ => false
  end.

(* evaluate(self, votes, <pos>, [*args], <kwonly>, [**kwargs]): the first parameter is the votes (required, positional);
   None when the list has another shape or names a parameter / default the model does not have *)
Definition sig_of_params (ps : list mparam) : option sigt :=
  match ps with
  | v :: rest =>
      if is_kind PPos v && match mp_default v with DReq => true | _ => false end
         && negb (existsb (is_kind PPosOnly) rest) then
        match all_some (map named (filter (is_kind PPos) rest)), all_some (map named (filter (is_kind PKwOnly) rest)) with
        | Some pos, Some kwo => Some (SG pos (existsb (is_kind PVarPos) rest) kwo (existsb (is_kind PVarKw) rest))
        | _, _ => None
        end
      else None
  | [] => None
  end.

Definition find_class (n : string) : option cls := find (fun c => String.eqb (c_name c) n) classes.
Definition gen_sig (n : string) : option sigt :=
  match find_class n with
  | Some c =>
      match find (fun m => String.eqb (m_name m) "evaluate") (c_methods c) with
      | Some m => sig_of_params (m_params m)
      | None => None
      end
  | None => None
  end.
Definition gen_attr (n : string) : option (option bool) := option_map c_accepts_seats (find_class n).

(* ------------------------------------------------------------------ the wrapper classes of core.py *)
Lemma gen_sig_PreConverted : gen_sig "votelib.evaluate.core.PreConverted" = Some sig_generic.
Proof. vm_compute. reflexivity. Qed.
Lemma gen_sig_PostConverted : gen_sig "votelib.evaluate.core.PostConverted" = Some sig_generic.
Proof. vm_compute. reflexivity. Qed.
Lemma gen_sig_TieBreaking : gen_sig "votelib.evaluate.core.TieBreaking" = Some sig_generic.
Proof. vm_compute. reflexivity. Qed.
Lemma gen_sig_FixedSeatCount : gen_sig "votelib.evaluate.core.FixedSeatCount" = Some sig_fixed.
Proof. vm_compute. reflexivity. Qed.
Lemma gen_sig_Conditioned : gen_sig "votelib.evaluate.core.Conditioned" = Some sig_cond.
Proof. vm_compute. reflexivity. Qed.
Lemma gen_sig_ByConstituency : gen_sig "votelib.evaluate.core.ByConstituency" = Some sig_constit.
Proof. vm_compute. reflexivity. Qed.
Lemma gen_sig_PreApportioned : gen_sig "votelib.evaluate.core.PreApportioned" = Some sig_constit.
Proof. vm_compute. reflexivity. Qed.
Lemma gen_sig_RemovedApportionment : gen_sig "votelib.evaluate.core.RemovedApportionment" = Some sig_constit.
Proof. vm_compute. reflexivity. Qed.
Lemma gen_sig_ByParty : gen_sig "votelib.evaluate.core.ByParty" = Some sig_constit.
Proof. vm_compute. reflexivity. Qed.
Lemma gen_sig_MultistageDistributor : gen_sig "votelib.evaluate.core.MultistageDistributor" = Some sig_distr.
Proof. vm_compute. reflexivity. Qed.
Lemma gen_sig_PartyListEvaluator : gen_sig "votelib.evaluate.core.PartyListEvaluator" = Some sig_plist.
Proof. vm_compute. reflexivity. Qed.
Lemma gen_sig_UnusedVotesDistributor : gen_sig "votelib.evaluate.core.UnusedVotesDistributor" = Some sig_distr.
Proof. vm_compute. reflexivity. Qed.
Lemma gen_sig_AdjustedSeatCount : gen_sig "votelib.evaluate.core.AdjustedSeatCount" = Some sig_adj.
Proof. vm_compute. reflexivity. Qed.
(* votelib.VotingSystem.evaluate takes only a variadic positional and a variadic keyword parameter: it has no parameter of its own, every argument is passed on; the model treats the
   node as transparent ([takes (VSys e) k = takes e k]) and binds the call against the generic signature, which is an abstraction - the
   node is therefore NOT claimed below ([class_of (VSys _) = None]; [gen_sig] reads only signatures that start with the votes) *)

(* the accepts_seats class attribute: FixedSeatCount says False, no other wrapper sets it ([attr_of]) *)
Lemma gen_attr_wrappers :
  gen_attr "votelib.evaluate.core.FixedSeatCount" = Some (Some false) /\
  forallb (fun n => match gen_attr n with Some None => true | _ => false end)
    ["votelib.evaluate.core.PreConverted"; "votelib.evaluate.core.PostConverted"; "votelib.evaluate.core.TieBreaking";
     "votelib.evaluate.core.Conditioned"; "votelib.evaluate.core.ByConstituency"; "votelib.evaluate.core.PreApportioned";
     "votelib.evaluate.core.RemovedApportionment"; "votelib.evaluate.core.ByParty";
     "votelib.evaluate.core.MultistageDistributor"; "votelib.evaluate.core.PartyListEvaluator";
     "votelib.evaluate.core.Plurality"; "votelib.evaluate.proportional.HighestAverages";
     "votelib.evaluate.proportional.LargestRemainder"; "votelib.evaluate.threshold.AbsoluteThreshold";
     "votelib.evaluate.threshold.RelativeThreshold"; "votelib.evaluate.threshold.AlternativeThresholds";
     "votelib.evaluate.threshold.PreviousGainThreshold"; "votelib.evaluate.proportional.VotesPerSeat";
     "votelib.evaluate.openlist.ListOrderTieBreaker"] = true.
Proof. vm_compute. split; reflexivity. Qed.

(* ------------------------------------------------------------------ the leaf evaluators of the C14 trees ([lsig]) *)
Lemma gen_sig_leaves :
  gen_sig "votelib.evaluate.core.Plurality" = Some (lsig LSelD) /\
  gen_sig "votelib.evaluate.proportional.HighestAverages" = Some (lsig LDist) /\
  gen_sig "votelib.evaluate.proportional.LargestRemainder" = Some (lsig LDist) /\
  gen_sig "votelib.evaluate.threshold.AbsoluteThreshold" = Some (lsig LThr) /\
  gen_sig "votelib.evaluate.threshold.RelativeThreshold" = Some (lsig LThr) /\
  gen_sig "votelib.evaluate.threshold.AlternativeThresholds" = Some (lsig LThrP) /\
  gen_sig "votelib.evaluate.threshold.PreviousGainThreshold" = Some (lsig LThrPR) /\
  gen_sig "votelib.evaluate.proportional.VotesPerSeat" = Some (lsig LSDist) /\
  gen_sig "votelib.evaluate.openlist.ListOrderTieBreaker" = Some (lsig LOpen).
Proof. vm_compute. repeat split; reflexivity. Qed.

(* ------------------------------------------------------------------ the model table IS the generated one *)
(* the class a node of a wrapper tree is an instance of (leaves: one class per kind the harness builds; LSel has no fixed
   class - any selector with evaluate(votes, n_seats)) *)
Definition class_of (t : ev) : option string :=
  match t with
  | Leaf _ LSelD => Some "votelib.evaluate.core.Plurality"
  | Leaf _ LDist => Some "votelib.evaluate.proportional.HighestAverages"
  | Leaf _ LThr => Some "votelib.evaluate.threshold.AbsoluteThreshold"
  | Leaf _ LThrP => Some "votelib.evaluate.threshold.AlternativeThresholds"
  | Leaf _ LThrPR => Some "votelib.evaluate.threshold.PreviousGainThreshold"
  | Leaf _ LSDist => Some "votelib.evaluate.proportional.VotesPerSeat"
  | Leaf _ LOpen => Some "votelib.evaluate.openlist.ListOrderTieBreaker"
  | Leaf _ LSel => None
  | PreConv _ _ => Some "votelib.evaluate.core.PreConverted"
  | PostConv _ _ => Some "votelib.evaluate.core.PostConverted"
  | Fixed _ _ => Some "votelib.evaluate.core.FixedSeatCount"
  | Cond _ _ _ => Some "votelib.evaluate.core.Conditioned"
  | ByCons _ _ | ByConsD _ _ => Some "votelib.evaluate.core.ByConstituency"
  | PreApp _ _ | PreAppD _ _ => Some "votelib.evaluate.core.PreApportioned"
  | RemApp _ => Some "votelib.evaluate.core.RemovedApportionment"
  | Wrappers.ByParty _ _ | ByPartyS _ => Some "votelib.evaluate.core.ByParty"
  | Multi _ _ => Some "votelib.evaluate.core.MultistageDistributor"
  | TieBr _ _ => Some "votelib.evaluate.core.TieBreaking"
  | PListC _ | PListO _ _ _ => Some "votelib.evaluate.core.PartyListEvaluator"
  | VSys _ => None
  | Unused _ _ _ => Some "votelib.evaluate.core.UnusedVotesDistributor"
  | AdjLeaf _ _ | AdjAllow _ _ | AdjLevel _ _ _ | AdjLevelC _ _ _ _ | AdjLevelC0 _ _ _ => Some "votelib.evaluate.core.AdjustedSeatCount"
  | ByConsP _ _ _ => Some "votelib.evaluate.core.ByConstituency"
  end.

(* For EVERY wrapper tree (any nesting): the signature the model binds the root's evaluate() call against, and the
   accepts_seats / accepts_prev_gains answers the model computes for it, are the ones read from the current source *)
Theorem GenTie_Signatures_C14 : forall t n, class_of t = Some n ->
  gen_sig n = Some (sig_of t) /\ gen_attr n = Some (attr_of t) /\
  (forall s a, gen_sig n = Some s -> gen_attr n = Some a ->
     acc_seats_sig a s = acc_seats t /\ acc_prev_sig s = acc_prev t).
Proof.
  intros t n H.
  assert (gen_sig n = Some (sig_of t) /\ gen_attr n = Some (attr_of t)) as [Hs Ha].
  { destruct gen_sig_leaves as [L1 [L2 [L3 [L4 [L5 [L6 [L7 [L8 L9]]]]]]]].
    destruct t as [l k| | | | | | | | | | | | | | | | | | | | | | |]; try destruct k; simpl in H; inversion H; subst n; clear H; cbn [sig_of attr_of];
      (split; [first [ exact L1 | exact L2 | exact L4 | exact L6 | exact L7 | exact L8 | exact L9
                     | exact gen_sig_PreConverted | exact gen_sig_PostConverted | exact gen_sig_FixedSeatCount
                     | exact gen_sig_Conditioned | exact gen_sig_ByConstituency | exact gen_sig_PreApportioned
                     | exact gen_sig_RemovedApportionment | exact gen_sig_ByParty | exact gen_sig_MultistageDistributor
                     | exact gen_sig_TieBreaking | exact gen_sig_PartyListEvaluator
                     | exact gen_sig_UnusedVotesDistributor | exact gen_sig_AdjustedSeatCount ]
              | vm_compute; reflexivity ]). }
  split; [exact Hs | split; [exact Ha |]].
  intros s a Hs' Ha'. rewrite Hs in Hs'. rewrite Ha in Ha'. inversion Hs'. inversion Ha'. subst.
  unfold acc_seats, acc_prev. split; reflexivity.
Qed.

Print Assumptions GenTie_Signatures_C14.
Print Assumptions gen_sig_leaves.
Print Assumptions gen_attr_wrappers.
