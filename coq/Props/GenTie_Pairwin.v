(* Generated-vs-handwritten tie for the pairwise win scorers: the definitions regenerated from
   votelib/component/pairwin_scorer.py on every run (Gen/Pairwin.v) ARE the scorers of Model/Condorcet.v that
   minimax and ranked pairs are modelled with.  A source edit that changes a scorer breaks these lemmas. *)
From Coq Require Import ZArith List.
From VL Require Import Prelude.PyDict Model.Condorcet Gen.Pairwin.
Open Scope Z_scope.

Lemma gen_winning_votes : forall v, Pairwin.winning_votes v = score_pairs WinningVotes v.
Proof. intros v. reflexivity. Qed.
Lemma gen_margins : forall v, Pairwin.margins v = score_pairs Margins v.
Proof. intros v. reflexivity. Qed.
Lemma gen_pairwise_opposition : forall v, Pairwin.pairwise_opposition v = score_pairs PairwiseOpposition v.
Proof. intros v. reflexivity. Qed.

Print Assumptions gen_winning_votes.
Print Assumptions gen_margins.
Print Assumptions gen_pairwise_opposition.
