(* Generated-vs-handwritten tie for the WHOLE of openlist.ThresholdOpenList.evaluate (C16): the jump threshold, the `jumping`
   comprehension ordered by votes, and what follows it - the cut to n seats (by votes, or with list precedence: in-place sort by
   candidate_list.index, slice, in-place sort by votes.get in reverse), the fill-up loop with its break - regenerated from the source
   on every run (Gen/OpenlistEval.v), IS [openlist_eval] of Model/Threshold.v that C16_openlist_count / C16_openlist_structure /
   C16_no_leapfrog (Props/C16.v) are about:

     tie_ol_evaluate       for a votes dictionary (distinct keys) whose candidates are on the list and n_seats >= 0:
                           generated = inl (openlist_eval cfg votes n lst)   - nothing is raised
     gen_ol_value_error    outside that domain: with list precedence and more jumpers than seats, a jumper missing from the
                           candidate list is a ValueError (candidate_list.index)
     gen_C16_openlist_*    the last clause of the property, for all inputs, about the generated function itself

   The generated function is factored through the jump threshold the unit Openlist generates from the same statements
   (gen_ol_factor), so that tie_ol_threshold (GenTie_Openlist.v) is reused; the loop is only used through its pointwise
   behaviour (fill_step_tac), the sorts through their characterisations. *)
From Coq Require Import ZArith QArith List Bool Lia Lqa Arith Permutation.
From VL Require Import Prelude.PyDict Prelude.PyNum Prelude.PyList Prelude.PySeq Prelude.PyTie Model.GetNBest Model.QuotaDistributor
     Model.Threshold Proofs.QBool_tac Proofs.GetNBest_proofs Proofs.QOrd Proofs.PySeq_proofs Proofs.Threshold_proofs.
From VL Require Import Proofs.PyTie_proofs Props.GenTie_Openlist.
From VL Require Gen.Openlist Gen.OpenlistEval.
Import ListNotations.
Close Scope Q_scope.

Definition cfg_thr (ae lp : bool) (thr : Q) : ol_cfg :=
  {| ol_jump := None; ol_quota := Some (fun _ _ => thr); ol_take_higher := false; ol_accept_equal := ae; ol_list_precedence := lp |}.

(* the generated function reads its configuration only through the jump threshold *)
Lemma gen_ol_factor : forall j qf th ae lp votes n lst,
  Gen.OpenlistEval.ThresholdOpenList_evaluate j qf th ae lp votes n lst =
  match Gen.Openlist.ThresholdOpenList_threshold j qf th votes n with
  | None => inl (py_slice_to lst n)
  | Some thr => Gen.OpenlistEval.ThresholdOpenList_evaluate None (Some (fun _ _ => thr)) false ae lp votes n lst
  end.
Proof.
  intros j qf th ae lp votes n lst.
  unfold Gen.OpenlistEval.ThresholdOpenList_evaluate, Gen.Openlist.ThresholdOpenList_threshold.
  destruct j as [j|], qf as [qf|], th; reflexivity.
Qed.

(* ---- what follows the threshold, in the model *)
Definition ol_rest (ae lp : bool) (votes : list (C * Q)) (n : nat) (lst : list C) (thr : Q) : list C :=
  openlist_eval (cfg_thr ae lp thr) votes n lst.

Lemma passes_thr_eq ae v thr thr' : (thr == thr')%Q -> passes ae v thr = passes ae v thr'.
Proof. intros H. unfold passes. q_bool. Qed.

Lemma openlist_eval_rest cfg votes n lst :
  openlist_eval cfg votes n lst =
  match ol_threshold cfg (qsumv votes) (Z.of_nat n) with
  | None => firstn n lst
  | Some thr => ol_rest (ol_accept_equal cfg) (ol_list_precedence cfg) votes n lst thr
  end.
Proof. unfold ol_rest, openlist_eval. destruct (ol_threshold cfg (qsumv votes) (Z.of_nat n)); reflexivity. Qed.

Lemma ol_rest_thr_eq ae lp votes n lst thr thr' : (thr == thr')%Q -> ol_rest ae lp votes n lst thr = ol_rest ae lp votes n lst thr'.
Proof.
  intros H. unfold ol_rest, openlist_eval. cbn [ol_threshold cfg_thr ol_jump ol_quota ol_accept_equal ol_list_precedence].
  assert (E : ol_jumping (cfg_thr ae lp thr) votes thr = ol_jumping (cfg_thr ae lp thr') votes thr').
  { unfold ol_jumping. cbn [ol_accept_equal cfg_thr]. apply filter_ext. intros cv. apply passes_thr_eq, H. }
  rewrite E. reflexivity.
Qed.

(* ---- sorting pairs by a key of their first component commutes with projecting *)
Lemma insert_asc_fst {X Y K} (leb : K -> K -> bool) (g : X -> Y) (x : X * K) l :
  map (fun p => (g (fst p), snd p)) (insert_asc leb x l) = insert_asc leb (g (fst x), snd x) (map (fun p => (g (fst p), snd p)) l).
Proof.
  induction l as [|y t IH]; cbn [insert_asc map fst snd]; [reflexivity|].
  destruct (leb (snd x) (snd y)); cbn [map fst snd]; [reflexivity|]. rewrite IH. reflexivity.
Qed.
Lemma sort_asc_fst {X Y K} (leb : K -> K -> bool) (g : X -> Y) (l : list (X * K)) :
  map (fun p => (g (fst p), snd p)) (sort_asc leb l) = sort_asc leb (map (fun p => (g (fst p), snd p)) l).
Proof. induction l as [|x t IH]; cbn [sort_asc map]; [reflexivity|]. rewrite insert_asc_fst, IH. reflexivity. Qed.

Lemma sort_by_list_pairs lst (l : list (C * Q)) :
  sort_by_list lst (map fst l) = map fst (map fst (sort_asc Nat.leb (map (fun cv => (cv, index_of (fst cv) lst)) l))).
Proof.
  unfold sort_by_list. rewrite (map_map fst fst).
  replace (map (fun c => (c, index_of c lst)) (map fst l))
    with (map (fun p : (C * Q) * nat => (fst (fst p), snd p)) (map (fun cv => (cv, index_of (fst cv) lst)) l))
    by (rewrite !map_map; reflexivity).
  rewrite <- sort_asc_fst, map_map. reflexivity.
Qed.

(* ---- x.sort(key=votes.get, reverse=True) on candidates that are keys of votes *)
Lemma In_dget (d : list (C * Q)) c v : NoDup (map fst d) -> In (c, v) d -> dget d c = Some v.
Proof.
  induction d as [|[k w] t IH]; cbn [map fst dget]; intros N H; [destruct H|].
  inversion N as [|? ? Hk Nt]; subst. destruct H as [H|H].
  - inversion H; subst. unfold ceqb. rewrite Pos.eqb_refl. reflexivity.
  - destruct (ceqb c k) eqn:E; [|apply IH; assumption].
    apply Pos.eqb_eq in E. subst. exfalso. apply Hk. apply in_map_iff. exists (k, v). split; [reflexivity|exact H].
Qed.

Lemma opt_all_get votes (l : list (C * Q)) : (forall cv, In cv l -> dget votes (fst cv) = Some (snd cv)) ->
  py_opt_all (map (fun x => option_map (fun k => (x, k)) (py_dict_get votes x)) (map fst l)) = Some l.
Proof.
  induction l as [|[c v] t IH]; intros H; cbn [map py_opt_all fst]; [reflexivity|].
  pose proof (H (c, v) (or_introl eq_refl)) as Hc. cbn [fst snd] in Hc. unfold py_dict_get at 1. rewrite Hc. cbn [option_map py_opt_all].
  rewrite IH by (intros cv Hcv; apply H; right; exact Hcv). reflexivity.
Qed.

Lemma py_sort_by_get_spec votes (l : list (C * Q)) : (forall cv, In cv l -> dget votes (fst cv) = Some (snd cv)) ->
  py_sort_nonekey (py_dict_get votes) Qle_bool (map fst l) true = Some (map fst (sort_desc Qle_bool l)).
Proof.
  intros H. unfold py_sort_nonekey, py_sort_optkey. rewrite (opt_all_get votes l H).
  rewrite (py_sorted_desc Qle_bool Qle_bool_total Qle_bool_trans). reflexivity.
Qed.

(* ---- the fill-up loop *)
Definition fill_step (n : nat) (st : bool * list C) (c : C) : bool * list C :=
  if fst st then st
  else if Nat.eqb (length (snd st)) n then (true, snd st)
  else (false, if cmem c (snd st) then snd st else snd st ++ [c]).

Lemma fill_fold n {A} (p : A -> C) : forall (l : list A) b el,
  exists b', fold_left (fun (sr : (bool * list C) + pyexn) it => match sr with inr e => inr e | inl st => inl (fill_step n st (p it)) end)
                       l (inl (b, el)) = inl (b', if b then el else fill n el (map p l)).
Proof.
  induction l as [|x l IH]; intros b el; cbn [fold_left map].
  - exists b. destruct b; reflexivity.
  - unfold fill_step at 2. cbn [fst snd]. destruct b.
    + destruct (IH true el) as (b' & E). exists b'. exact E.
    + cbn [fill]. destruct (Nat.eqb (length el) n).
      * destruct (IH true el) as (b' & E). exists b'. exact E.
      * destruct (cmem (p x) el); [destruct (IH false el) as (b' & E)|destruct (IH false (el ++ [p x])) as (b' & E)]; exists b'; exact E.
Qed.

Lemma map_snd_enumerate {A} (l : list A) : map snd (py_enumerate l) = l.
Proof.
  unfold py_enumerate, py_range, py_len. rewrite Nat2Z.id.
  assert (H : forall k, map snd (combine (map Z.of_nat (seq k (length l))) l) = l).
  { induction l as [|x t IH]; intros k; cbn [length seq map combine snd]; [reflexivity|]. rewrite IH. reflexivity. }
  apply H.
Qed.

Lemma py_len_eqb_nat {A} (l : list A) n : (py_len l =? Z.of_nat n)%Z = Nat.eqb (length l) n.
Proof.
  unfold py_len. destruct (Nat.eqb (length l) n) eqn:E.
  - apply Nat.eqb_eq in E. apply Z.eqb_eq. lia.
  - apply Nat.eqb_neq in E. apply Z.eqb_neq. lia.
Qed.

(* one iteration of the generated loop, pointwise, whatever its body looks like (the items are the list members, with or
   without their position) *)
Ltac fill_cases n b el c :=
  unfold fill_step; cbn [fst snd];
  rewrite ?py_len_eqb_nat, ?(Z.eqb_sym (Z.of_nat n)), ?py_len_eqb_nat;
  destruct b; [reflexivity|]; destruct (Nat.eqb (length el) n); [reflexivity|]; destruct (cmem c el); reflexivity.
Ltac fill_step_tac_enum n :=
  let b := fresh "b" in let el := fresh "el" in let e := fresh "e" in let i := fresh "i" in let c := fresh "c" in
  intros [[b el]|e] [i c]; [|reflexivity]; fill_cases n b el c.
Ltac fill_step_tac_plain n :=
  let b := fresh "b" in let el := fresh "el" in let e := fresh "e" in let c := fresh "c" in
  intros [[b el]|e] c; [|reflexivity]; fill_cases n b el c.

(* ---- the whole function after the threshold *)
Lemma jumping_in_votes cfg votes thr cv : In cv (ol_jumping cfg votes thr) -> In cv votes.
Proof. unfold ol_jumping. intros H. apply filter_In in H. destruct H as [H _]. eapply Permutation_in; [apply (sort_desc_perm Qle_bool)|exact H]. Qed.

Lemma gen_ol_rest : forall ae lp votes n lst thr,
  NoDup (map fst votes) -> incl (map fst votes) lst ->
  Gen.OpenlistEval.ThresholdOpenList_evaluate None (Some (fun _ _ => thr)) false ae lp votes (Z.of_nat n) lst =
  inl (ol_rest ae lp votes n lst thr).
Proof.
  intros ae lp votes n lst thr ND INC.
  unfold Gen.OpenlistEval.ThresholdOpenList_evaluate. cbv zeta.
  cbn [app py_len length Z.of_nat Pos.of_succ_nat Z.ltb Z.compare negb py_min_list py_max_list fold_left].
  match goal with |- context [map ?f (filter ?p (sort_desc Qle_bool votes))] =>
    change (map f (filter p (sort_desc Qle_bool votes))) with (Gen.Openlist.ThresholdOpenList_jumping ae thr votes) end.
  pose proof (tie_ol_jumping (cfg_thr ae lp thr) votes thr) as EJ. cbn [ol_accept_equal cfg_thr] in EJ. rewrite EJ. clear EJ.
  unfold ol_rest, openlist_eval. cbn [ol_threshold cfg_thr ol_jump ol_quota ol_list_precedence].
  set (Jm := ol_jumping (cfg_thr ae lp thr) votes thr).
  assert (HJ : forall cv, In cv Jm -> In cv votes) by (intros cv; apply jumping_in_votes).
  rewrite (py_len_lt_nat (map fst Jm) (Z.of_nat n)) by lia. rewrite Nat2Z.id, map_length.
  destruct (Nat.ltb n (length Jm)) eqn:L.
  - destruct lp.
    + rewrite py_sort_by_index_spec.
      assert (Hin : forallb (fun c => cmem c lst) (map fst Jm) = true).
      { apply forallb_forall. intros c Hc. apply cmem_In, INC. apply in_map_iff in Hc. destruct Hc as (cv & <- & Hcv).
        apply in_map, HJ, Hcv. }
      rewrite Hin. rewrite py_slice_to_nat, sort_by_list_pairs, !firstn_map.
      set (kept := map fst (firstn n (sort_asc Nat.leb (map (fun cv => (cv, index_of (fst cv) lst)) Jm)))).
      rewrite (py_sort_by_get_spec votes kept); [reflexivity|].
      intros [c v] Hk. cbn [fst snd]. apply In_dget; [exact ND|]. apply HJ.
      unfold kept in Hk. apply in_map_iff in Hk. destruct Hk as ([cv i] & E & Hk). cbn [fst] in E. subst cv.
      apply firstn_incl in Hk. eapply Permutation_in in Hk; [|apply sort_asc_nat_perm].
      apply in_map_iff in Hk. destruct Hk as (cv & E & Hk). inversion E; subst. exact Hk.
    + rewrite py_slice_to_nat, firstn_map. reflexivity.
  - first
      [ match goal with |- context [fold_left ?f (py_enumerate lst) ?i] =>
          rewrite (fold_exn_ext f (fun sr it => match sr with inr e => inr e | inl st => inl (fill_step n st (snd it)) end)
                                (py_enumerate lst) i ltac:(fill_step_tac_enum n)) end;
        destruct (fill_fold n (@snd Z C) (py_enumerate lst) false (map fst Jm)) as (b' & E); rewrite E; cbn [snd];
        rewrite map_snd_enumerate; reflexivity
      | match goal with |- context [fold_left ?f lst ?i] =>
          rewrite (fold_exn_ext f (fun sr it => match sr with inr e => inr e | inl st => inl (fill_step n st ((fun c : C => c) it)) end)
                                lst i ltac:(fill_step_tac_plain n)) end;
        destruct (fill_fold n (fun c : C => c) lst false (map fst Jm)) as (b' & E); rewrite E; cbn [snd];
        rewrite map_id; reflexivity ].
Qed.

Theorem tie_ol_evaluate : forall cfg votes n lst,
  NoDup (map fst votes) -> incl (map fst votes) lst ->
  Gen.OpenlistEval.ThresholdOpenList_evaluate (ol_jump cfg) (ol_quota cfg) (ol_take_higher cfg) (ol_accept_equal cfg)
      (ol_list_precedence cfg) votes (Z.of_nat n) lst
  = inl (openlist_eval cfg votes n lst).
Proof.
  intros cfg votes n lst ND INC. rewrite gen_ol_factor, openlist_eval_rest.
  pose proof (tie_ol_threshold cfg votes (Z.of_nat n)) as T. unfold oq_eq in T.
  destruct (Gen.Openlist.ThresholdOpenList_threshold (ol_jump cfg) (ol_quota cfg) (ol_take_higher cfg) votes (Z.of_nat n)) as [thr|],
           (ol_threshold cfg (qsumv votes) (Z.of_nat n)) as [thr'|]; try contradiction.
  - rewrite (gen_ol_rest _ _ _ _ _ _ ND INC). f_equal. apply ol_rest_thr_eq, T.
  - rewrite py_slice_to_nat. reflexivity.
Qed.
Print Assumptions tie_ol_evaluate.

(* outside the domain: list precedence, more jumpers than seats, a jumper that is not on the candidate list *)
Theorem gen_ol_value_error : forall ae votes n lst thr,
  (n < length (ol_jumping (cfg_thr ae true thr) votes thr))%nat ->
  forallb (fun c => cmem c lst) (map fst (ol_jumping (cfg_thr ae true thr) votes thr)) = false ->
  Gen.OpenlistEval.ThresholdOpenList_evaluate None (Some (fun _ _ => thr)) false ae true votes (Z.of_nat n) lst = inr PyValueError.
Proof.
  intros ae votes n lst thr L Hout.
  unfold Gen.OpenlistEval.ThresholdOpenList_evaluate. cbv zeta.
  cbn [app py_len length Z.of_nat Pos.of_succ_nat Z.ltb Z.compare negb py_min_list py_max_list fold_left].
  match goal with |- context [map ?f (filter ?p (sort_desc Qle_bool votes))] =>
    change (map f (filter p (sort_desc Qle_bool votes))) with (Gen.Openlist.ThresholdOpenList_jumping ae thr votes) end.
  pose proof (tie_ol_jumping (cfg_thr ae true thr) votes thr) as EJ. cbn [ol_accept_equal cfg_thr] in EJ. rewrite EJ. clear EJ.
  rewrite (py_len_lt_nat _ (Z.of_nat n)) by lia. rewrite Nat2Z.id, map_length.
  apply Nat.ltb_lt in L. rewrite L, py_sort_by_index_spec, Hout. reflexivity.
Qed.
Print Assumptions gen_ol_value_error.

(* ---- the last clause of C16, for all inputs, about the generated function *)
Section Clauses.
  Variables (cfg : ol_cfg) (votes : list (C * Q)) (n : nat) (lst : list C).
  Hypothesis ND : NoDup (map fst votes).
  Hypothesis INC : incl (map fst votes) lst.
  Let gen := Gen.OpenlistEval.ThresholdOpenList_evaluate (ol_jump cfg) (ol_quota cfg) (ol_take_higher cfg) (ol_accept_equal cfg)
               (ol_list_precedence cfg) votes (Z.of_nat n) lst.

  (* exactly the requested number of distinct list members *)
  Theorem gen_C16_openlist_count : NoDup lst -> (1 <= n <= length lst)%nat ->
    exists r, gen = inl r /\ length r = n /\ NoDup r /\ incl r lst.
  Proof.
    intros NL Hn. exists (openlist_eval cfg votes n lst). split; [apply tie_ol_evaluate; assumption|].
    exact (openlist_count cfg votes n lst NL ND INC Hn).
  Qed.

  (* the candidates over the jump threshold first, ordered by votes, then the remaining list members in list order *)
  Theorem gen_C16_openlist_structure : forall thr, NoDup lst ->
    ol_threshold cfg (qsumv votes) (Z.of_nat n) = Some thr -> (length (ol_jumping cfg votes thr) <= n)%nat ->
    let jumping := ol_jumping cfg votes thr in
    gen = inl (map fst jumping ++ firstn (n - length jumping) (filter (fun c => negb (cmem c (map fst jumping))) lst))
    /\ (forall c, In c (map fst jumping) <->
          exists v, In (c, v) votes /\ ((thr < v)%Q \/ (ol_accept_equal cfg = true /\ (v == thr)%Q)))
    /\ @sorted_desc C Q Qle_bool jumping.
  Proof.
    intros thr NL HT HL. destruct (openlist_structure cfg votes n lst thr NL HT HL) as (E & rest).
    split; [|exact rest]. unfold gen. rewrite tie_ol_evaluate by assumption. f_equal. exact E.
  Qed.

  (* nobody is passed over by a lower-listed colleague who did not reach the threshold: of two list members below the
     threshold, the lower-listed one is seated only if the higher-listed one is *)
  Theorem gen_C16_openlist_no_leapfrog : forall thr pre a mid b post r,
    lst = pre ++ a :: mid ++ b :: post -> NoDup lst ->
    ol_threshold cfg (qsumv votes) (Z.of_nat n) = Some thr -> (length (ol_jumping cfg votes thr) <= n)%nat ->
    ~ In a (map fst (ol_jumping cfg votes thr)) -> ~ In b (map fst (ol_jumping cfg votes thr)) ->
    gen = inl r -> In b r -> In a r.
  Proof.
    intros thr pre a mid b post r EL NL HT HL Ha Hb Hg Hbr.
    unfold gen in Hg. rewrite tie_ol_evaluate in Hg by assumption. inversion Hg as [Er]. clear Hg.
    rewrite <- Er in *. clear Er.
    unfold openlist_eval in *. rewrite HT in *.
    assert (L : Nat.ltb n (length (ol_jumping cfg votes thr)) = false) by (apply Nat.ltb_ge; exact HL).
    rewrite L in *. subst lst.
    apply (fill_no_leapfrog n (map fst (ol_jumping cfg votes thr)) pre a mid b post NL); try assumption.
    rewrite map_length. exact HL.
  Qed.
End Clauses.
Print Assumptions gen_C16_openlist_count.
Print Assumptions gen_C16_openlist_structure.
Print Assumptions gen_C16_openlist_no_leapfrog.

Theorem GenTie_OpenlistEval :
  forall cfg votes n lst, NoDup (map fst votes) -> incl (map fst votes) lst ->
  Gen.OpenlistEval.ThresholdOpenList_evaluate (ol_jump cfg) (ol_quota cfg) (ol_take_higher cfg) (ol_accept_equal cfg)
      (ol_list_precedence cfg) votes (Z.of_nat n) lst
  = inl (openlist_eval cfg votes n lst).
Proof. exact tie_ol_evaluate. Qed.

(* non-vacuity on CPython values: 100 votes, 10 % jump fraction, accept_equal; list 1 2 3 4.  Two jumpers for two seats (by votes);
   three jumpers for two seats: by votes, and with list precedence (the two highest on the list, by votes); fill-up from the list *)
Example gen_openlist_examples :
  let v := [(1, (10 # 1)%Q); (2, (30 # 1)%Q); (3, (9 # 1)%Q); (4, (51 # 1)%Q)]%positive in
  Gen.OpenlistEval.ThresholdOpenList_evaluate (Some (1 # 10)%Q) None false true true v 2 [1; 2; 3; 4]%positive = inl [2; 1]%positive /\
  Gen.OpenlistEval.ThresholdOpenList_evaluate (Some (1 # 10)%Q) None false true false v 2 [1; 2; 3; 4]%positive = inl [4; 2]%positive /\
  Gen.OpenlistEval.ThresholdOpenList_evaluate (Some (1 # 10)%Q) None false false false v 4 [1; 2; 3; 4]%positive = inl [4; 2; 1; 3]%positive /\
  Gen.OpenlistEval.ThresholdOpenList_evaluate (Some (1 # 10)%Q) None false true true v 2 [1; 2; 3]%positive = inr PyValueError /\
  Gen.OpenlistEval.ThresholdOpenList_evaluate None None false true true v 3 [3; 1; 2; 4]%positive = inl [3; 1; 2]%positive.
Proof. repeat split. Qed.

Print Assumptions GenTie_OpenlistEval.
