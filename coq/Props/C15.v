(* C15 - Overhang handling never removes direct seats and levels minimally.
   Property theorems only.  Model: Model/Overhang.v over an ARBITRARY proportional evaluator
   E : house size -> distribution (so the statements hold for D'Hondt, Sainte-Lague, Hare
   largest remainder and anything else), Model/HighestAverages.v for the final distribution;
   proofs: Proofs/Overhang_proofs.v, Proofs/HA_proofs.v.
   Reading fixed in DESIGN.md: the levelling loop tests the proportional result at the full
   house first, then at house n - drop + a for a = 1, 2, ... (drop = direct seats of parties
   outside the tier). *)
From Coq Require Import ZArith QArith List Bool Lia.
From VL Require Import Prelude.PyDict Model.Overhang Model.Divisor Model.HighestAverages
     Proofs.Dict_proofs Proofs.Overhang_proofs Proofs.HA_proofs Proofs.Divisor_proofs
     Model.OverhangByC Proofs.OverhangByC_proofs Proofs.OverhangByC_ha_proofs Proofs.OverhangByC_total_proofs.
Import ListNotations.
Open Scope Z_scope.

(* with overhang merely allowed the adjustment equals the number of overhang seats,
   is never negative, and is zero exactly when nobody holds more direct than proportional seats *)
Theorem C15_allow : forall E n prev prop, E n = Some prop ->
  allow_overhang E n prev = Some (overhang_sum prop prev) /\
  0 <= overhang_sum prop prev /\
  (overhang_sum prop prev = 0 <-> Forall (fun cp => snd cp <= dget_or prop (fst cp) 0) prev).
Proof.
  intros E n prev prop H. split; [exact (allow_spec E n prev prop H)|].
  split; [apply overhang_sum_nonneg|apply overhang_sum_zero].
Qed.

(* levelling: the loop returns the FIRST house size at which every tier party has at least its
   direct seats and its initial proportional share *)
Theorem C15_level_minimal : forall E pmins fuel adj prop r,
  level_loop E fuel pmins adj prop = Some r ->
  adj <= r /\
  (r = adj -> satisfied pmins prop = true) /\
  (adj < r -> satisfied pmins prop = false /\
              (exists pr, E r = Some pr /\ satisfied pmins pr = true) /\
              (forall h, adj < h < r -> exists ph, E h = Some ph /\ satisfied pmins ph = false)).
Proof. intros E pmins. exact (level_loop_spec E pmins). Qed.

Theorem C15_level_zero : forall E fuel n prev prop, E n = Some prop -> NoDup (map fst prop) ->
  Forall (fun pg => dget_or prev (fst pg) 0 <= snd pg) prop ->
  level_overhang E fuel n prev = Some 0.
Proof. exact level_zero_without_overhang. Qed.

Theorem C15_level_nonneg : forall E fuel n prev r, level_overhang E fuel n prev = Some r -> 0 <= r.
Proof. exact level_nonneg. Qed.

(* the final highest-averages distribution with previous gains never removes a direct seat:
   final total = direct seats + seats awarded *)
Theorem C15_keeps_direct : forall d votes caps prev n, divisor_ok d ->
  (forall c v, In (c, v) votes -> (0 <= v)%Q) -> NoDup (map fst votes) ->
  (forall c, 0 <= dget_or prev c 0) ->
  forall c, dget_or prev c 0 <= dget_or (st_totals (final_state d votes n prev caps)) c 0.
Proof.
  intros d votes caps prev n Hd Hv Hnd Hp c.
  pose proof (ha_account d votes caps prev n (proj1 Hd) (proj2 Hd) Hv Hnd Hp c) as Hacc. unfold tot in Hacc. rewrite Hacc.
  pose proof (count_nonneg c (map fst (st_awards (final_state d votes n prev caps)))). lia.
Qed.

(* ================================================================ LevelOverhangByConstituency
   Model: Model/OverhangByC.v (calculate, ByConstituency, the two overall evaluators, AdjustedSeatCount + ByParty);
   proofs: Proofs/OverhangByC_proofs.v (any key type with a boolean equivalence - parties and Tie objects - and ANY
   constituency / overall evaluator), Proofs/OverhangByC_ha_proofs.v (highest averages with any divisor).
   Sizes the loop examines: n - drop + a for a = 0, 1, 2, ... (drop = first round seats of parties outside the tier);
   the reported adjustment is the first such a whose overall result meets every minimum. *)
Definition kequiv {K : Type} (keqb : K -> K -> bool) : Prop :=
  (forall a, keqb a a = true) /\ (forall a b, keqb a b = keqb b a) /\
  (forall a b c, keqb a b = true -> keqb b c = true -> keqb a c = true).

Theorem C15_pk_equiv : kequiv pk_eqb.
Proof. split; [exact pk_eqb_refl|split; [exact pk_eqb_sym|exact pk_eqb_trans]]. Qed.

(* the minima the code accumulates in two passes: exactly the parties (and Ties) with a proportional seat entry in some
   constituency have one, and it is the sum over the constituencies of max(first round seats, proportional seats) *)
Theorem C15_byc_minima : forall (K : Type) (keqb : K -> K -> bool), kequiv keqb ->
  forall res prev ctys k, wf_res keqb res -> wf_prev keqb prev -> NoDup ctys ->
  incl (map fst res) ctys -> incl (map fst prev) ctys ->
  kmem keqb (lowest_allowed keqb res prev) k = tier keqb res k /\
  (tier keqb res k = true ->
   kget0 keqb (lowest_allowed keqb res prev) k = need keqb res prev ctys k /\
   zsumf (fun c => direct keqb prev c k) ctys <= need keqb res prev ctys k /\
   zsumf (fun c => share keqb res c k) ctys <= need keqb res prev ctys k).
Proof.
  intros K keqb (_ & Hs & Ht) res prev ctys k Hr Hp Hk Hir Hip. split; [apply lowest_allowed_mem; assumption|].
  intros Hm. split; [apply lowest_allowed_need; assumption|]. split; [apply need_ge_direct|apply need_ge_share].
Qed.

(* non-negative; at the returned house every tier party reaches its minimum; no smaller enlargement examined does *)
Theorem C15_byc_levels : forall (K : Type) (keqb : K -> K -> bool), kequiv keqb ->
  forall (OE : Z -> eres (list (K * Z))) CEn fuel n prev r ctys,
  bc_calculate keqb OE CEn fuel n prev = BC_ok r ->
  exists res, CEn = Ok res /\ 0 <= r /\
    (wf_res keqb res -> wf_prev keqb prev -> NoDup ctys -> incl (map fst res) ctys -> incl (map fst prev) ctys ->
     (exists pr, OE (n - drop_of keqb res prev + r) = Ok pr /\
        forall k, tier keqb res k = true -> need keqb res prev ctys k <= kget0 keqb pr k) /\
     (forall a, 0 <= a < r -> exists ph, OE (n - drop_of keqb res prev + a) = Ok ph /\
        exists k, tier keqb res k = true /\ kget0 keqb ph k < need keqb res prev ctys k)).
Proof. intros K keqb (Hr & Hs & Ht). exact (bc_calculate_meaning keqb Hr Hs Ht). Qed.

(* zero adjustment when no party holds more first round seats in a constituency than proportional seats there and the
   overall result of the baseline house covers the constituency-wise shares *)
Theorem C15_byc_zero : forall (K : Type) (keqb : K -> K -> bool), kequiv keqb ->
  forall (OE : Z -> eres (list (K * Z))) res fuel n prev pr ctys,
  wf_res keqb res -> wf_prev keqb prev -> nonneg_nested res -> NoDup ctys ->
  incl (map fst res) ctys -> incl (map fst prev) ctys ->
  no_overhang keqb res prev -> OE n = Ok pr ->
  (forall k, tier keqb res k = true -> zsumf (fun c => share keqb res c k) ctys <= kget0 keqb pr k) ->
  bc_calculate keqb OE (Ok res) fuel n prev = BC_ok 0.
Proof. intros K keqb (Hr & Hs & Ht). exact (bc_calculate_zero keqb Hr Hs Ht). Qed.

(* out of fuel = every one of the fuel + 1 sizes fails; any other answer is independent of the fuel *)
Theorem C15_byc_fuel : forall (K : Type) (keqb : K -> K -> bool) (OE : Z -> eres (list (K * Z))) res CEn fuel fuel' n prev,
  (bc_calculate keqb OE (Ok res) fuel n prev = BC_fuel <->
   forall a, 0 <= a <= Z.of_nat fuel -> exists ph, OE (n - drop_of keqb res prev + a) = Ok ph /\
                                                   ksatisfied keqb (lowest_allowed keqb res prev) ph = false) /\
  ((fuel <= fuel')%nat -> bc_calculate keqb OE CEn fuel n prev <> BC_fuel ->
   bc_calculate keqb OE CEn fuel' n prev = bc_calculate keqb OE CEn fuel n prev).
Proof. intros. split; [apply bc_calculate_fuel_iff|apply bc_calculate_fuel_mono]. Qed.

(* the same for LevelOverhangByConstituency(ByConstituency(HighestAverages(dc), apportioner), overall) with ANY divisor
   (D'Hondt, Sainte-Lague, ...), dictionary or evaluator apportioner, given or default overall evaluator *)
Theorem C15_byc_ha_levels : forall dc a o fuel votes n prev r,
  NoDup (map fst votes) -> wf_prev pk_eqb prev ->
  lobc_calculate dc a o fuel votes n prev = BC_ok r ->
  exists res, constituency_evaluator pk_eqb (ha_eval dc) PK a votes n = Ok res /\
    0 <= r /\
    (exists pr, lobc_overall dc a o votes (n - drop_of pk_eqb res prev + r) = Ok pr /\
       forall k, tier pk_eqb res k = true -> need pk_eqb res prev (cty_list votes prev) k <= kget0 pk_eqb pr k) /\
    (forall x, 0 <= x < r -> exists ph, lobc_overall dc a o votes (n - drop_of pk_eqb res prev + x) = Ok ph /\
       exists k, tier pk_eqb res k = true /\ kget0 pk_eqb ph k < need pk_eqb res prev (cty_list votes prev) k).
Proof. exact lobc_calculate_meaning. Qed.

Corollary C15_byc_dhondt_sainte_lague : forall a o fuel votes n prev r,
  NoDup (map fst votes) -> wf_prev pk_eqb prev ->
  (lobc_calculate d_hondt a o fuel votes n prev = BC_ok r \/ lobc_calculate sainte_lague a o fuel votes n prev = BC_ok r) ->
  0 <= r.
Proof.
  intros a o fuel votes n prev r Hn Hp [H|H];
    destruct (lobc_calculate_meaning _ a o fuel votes n prev r Hn Hp H) as (_ & _ & Hr & _); exact Hr.
Qed.

Theorem C15_byc_ha_zero_default : forall dc a fuel votes n prev res,
  NoDup (map fst votes) -> wf_prev pk_eqb prev ->
  constituency_evaluator pk_eqb (ha_eval dc) PK a votes n = Ok res ->
  no_overhang pk_eqb res prev ->
  lobc_calculate dc a Ov_default fuel votes n prev = BC_ok 0.
Proof. exact lobc_zero_default. Qed.

Theorem C15_byc_ha_zero_given : forall dc dn a fuel votes n prev res pr,
  NoDup (map fst votes) -> wf_prev pk_eqb prev ->
  constituency_evaluator pk_eqb (ha_eval dc) PK a votes n = Ok res ->
  no_overhang pk_eqb res prev ->
  ha_eval dn (qtotals votes) n = Ok pr ->
  (forall k, tier pk_eqb res k = true ->
     zsumf (fun c => share pk_eqb res c k) (cty_list votes prev) <= kget0 pk_eqb pr k) ->
  lobc_calculate dc a (Ov_given dn) fuel votes n prev = BC_ok 0.
Proof. exact lobc_zero_given. Qed.

(* the cover hypothesis cannot be dropped: without any first round seat the house still grows when the national
   distribution gives a party less than its constituency-wise seats (D'Hondt, one seat in each of two constituencies,
   votes {A 1, B 2} and {A 2, B 3}: B wins both constituencies, nationally A 3 : B 5 gives 1 : 1 at house 2) *)
Theorem C15_byc_zero_needs_cover : exists votes a n,
  lobc_calculate d_hondt a (Ov_given d_hondt) 50 votes n [] = BC_ok 1.
Proof.
  exists [(1%positive, [(1%positive, 1%Q); (2%positive, 2%Q)]); (2%positive, [(1%positive, 2%Q); (2%positive, 3%Q)])],
         (App_dict [(1%positive, 1); (2%positive, 1)]), 2.
  vm_compute. reflexivity.
Qed.

Theorem C15_byc_ha_fuel : forall dc a o fuel fuel' votes n prev res,
  constituency_evaluator pk_eqb (ha_eval dc) PK a votes n = Ok res ->
  (lobc_calculate dc a o fuel votes n prev = BC_fuel <->
   forall x, 0 <= x <= Z.of_nat fuel ->
     exists ph, lobc_overall dc a o votes (n - drop_of pk_eqb res prev + x) = Ok ph /\
                ksatisfied pk_eqb (lowest_allowed pk_eqb res prev) ph = false) /\
  ((fuel <= fuel')%nat -> lobc_calculate dc a o fuel votes n prev <> BC_fuel ->
   lobc_calculate dc a o fuel' votes n prev = lobc_calculate dc a o fuel votes n prev).
Proof. intros. split; [apply lobc_fuel_iff; assumption|apply lobc_fuel_mono]. Qed.

(* AdjustedSeatCount(LevelOverhangByConstituency, ByParty): house = n + adjustment, the second stage only adds seats, and
   with all first round seats in the tier the national distribution of the enlarged house covers them *)
Theorem C15_byc_adjusted : forall dc a dn da fuel votes n prev adj fin,
  NoDup (map fst votes) -> wf_prev pk_eqb prev ->
  adjusted_byc dc a (Ov_given dn) dn da fuel votes n prev = ASC adj fin ->
  0 <= adj /\ fin = by_party dn da votes (n + adj) prev /\
  (forall gains, fin = BP_ok gains -> Forall (fun g : Cty * C * Z => 0 < snd g) gains) /\
  exists res, constituency_evaluator pk_eqb (ha_eval dc) PK a votes n = Ok res /\
    (direct_in_tier pk_eqb res prev ->
     exists nat, ha_eval dn (qtotals votes) (n + adj) = Ok nat /\
       forall k, tier pk_eqb res k = true ->
         zsumf (fun c => direct pk_eqb prev c k) (cty_list votes prev) <= kget0 pk_eqb nat k /\
         zsumf (fun c => share pk_eqb res c k) (cty_list votes prev) <= kget0 pk_eqb nat k).
Proof. exact adjusted_byc_meaning. Qed.

(* ... and the allocator of ByParty, started from a party's first round seats, never ends below them in any
   constituency (C15_keeps_direct with the constituencies as candidates) *)
Theorem C15_byc_allocator_keeps_direct : forall da votes prev p np, divisor_ok da ->
  (forall c v, In (c, v) (party_votes votes p) -> (0 <= v)%Q) -> NoDup (map fst votes) ->
  (forall c, 0 <= dget_or (party_prev prev p) c 0) ->
  forall c, dget_or (party_prev prev p) c 0
            <= dget_or (st_totals (final_state da (party_votes votes p) np (party_prev prev p) [])) c 0.
Proof.
  intros da votes prev p np Hd Hv Hn Hp. apply C15_keeps_direct; [exact Hd|exact Hv| |exact Hp].
  unfold party_votes. rewrite map_map. simpl. exact Hn.
Qed.

(* ... and when all first round seats belong to tier parties, every party of the national distribution of the enlarged
   house ends with EXACTLY its national seats: first round seats + seats gained over the constituencies = national seats
   (the allocator hands out all of the difference: Proofs/OverhangByC_total_proofs.v) *)
Theorem C15_byc_final_totals : forall dc a dn da fuel votes n prev adj gains res,
  NoDup (map fst votes) -> votes <> [] -> wf_prev pk_eqb prev -> divisor_ok da ->
  Forall (fun cv => Forall (fun pv : C * Q => (0 <= snd pv)%Q) (snd cv)) votes ->
  adjusted_byc dc a (Ov_given dn) dn da fuel votes n prev = ASC adj (BP_ok gains) ->
  constituency_evaluator pk_eqb (ha_eval dc) PK a votes n = Ok res ->
  direct_in_tier pk_eqb res prev ->
  exists nat, ha_eval dn (qtotals votes) (n + adj) = Ok nat /\
    forall p np, In (PK p, np) nat ->
      zsumf (fun c => direct pk_eqb prev c (PK p)) (cty_list votes prev) + party_gain gains p = np.
Proof. exact adjusted_byc_totals. Qed.

(* non-vacuity.  The repaired witness of d14cd5d: D'Hondt, seats N 2 / S 3, votes N {A 32, B 54}, S {A 300, B 30},
   first round seat S: B 1 -> 4 *)
Definition ex_votes : list (Cty * list (C * Q)) :=
  [(1%positive, [(1%positive, 32%Q); (2%positive, 54%Q)]); (2%positive, [(1%positive, 300%Q); (2%positive, 30%Q)])].
Definition ex_prev : list (Cty * list (pk * Z)) := [(2%positive, [(PK 2%positive, 1)])].
Example C15_byc_witness :
  lobc_calculate d_hondt (App_dict [(1%positive, 2); (2%positive, 3)]) (Ov_given d_hondt) 400 ex_votes 5 ex_prev = BC_ok 4
  /\ NoDup (map fst ex_votes) /\ wf_prev pk_eqb ex_prev.
Proof.
  split; [vm_compute; reflexivity|]. split.
  - simpl. constructor; [simpl; intros [H|[]]; discriminate|constructor; [simpl; tauto|constructor]].
  - split; [simpl; constructor; [simpl; tauto|constructor]|].
    constructor; [|constructor]. simpl. split; [split; [reflexivity|exact I]|constructor; [simpl; lia|constructor]].
Qed.

Example C15_byc_final_totals_example :
  adjusted_byc d_hondt (App_dict [(1%positive, 2); (2%positive, 3)]) (Ov_given d_hondt) d_hondt d_hondt 400 ex_votes 5 ex_prev
  = ASC 4 (BP_ok [(2%positive, 1%positive, 7); (1%positive, 2%positive, 1)]).
Proof. vm_compute. reflexivity. Qed.
(* house 9: A 7, B 2 nationally; A gains 7 seats (all in S), B keeps its first round seat in S and gains its second seat in N *)

(* a Tie of the constituency evaluator is a key like a party.  Three parties level in both constituencies (one seat each):
   the national result carries the same Tie with both seats and the loop ends at once; two parties level: the national
   Tie never holds more than one seat, the minimum of the Tie is 2, and the loop does not end (fuel 400 here) *)
Example C15_byc_tie_key_met :
  lobc_calculate d_hondt (App_dict [(1%positive, 1); (2%positive, 1)]) (Ov_given d_hondt) 400
    [(1%positive, [(1%positive, 1%Q); (2%positive, 1%Q); (3%positive, 1%Q)]);
     (2%positive, [(1%positive, 1%Q); (2%positive, 1%Q); (3%positive, 1%Q)])] 2 [] = BC_ok 0.
Proof. vm_compute. reflexivity. Qed.
(* "the loop always ends" is FALSE of the code: on this input the model is out of fuel for EVERY fuel, i.e. the Python
   loop has no end (replayed on the implementation: corpus/C15/byc-tie-no-end.json, cut after 400 rounds) *)
Definition C15_byc_terminates_full_statement : Prop :=
  forall dc a o votes n prev, exists fuel, lobc_calculate dc a o fuel votes n prev <> BC_fuel.
Theorem C15_byc_terminates_refuted : ~ C15_byc_terminates_full_statement.
Proof.
  intros H.
  destruct (H d_hondt (App_dict [(1%positive, 1); (2%positive, 1)]) (Ov_given d_hondt)
              [(1%positive, [(1%positive, 1%Q); (2%positive, 1%Q)]); (2%positive, [(1%positive, 1%Q); (2%positive, 1%Q)])] 2 [])
    as (fuel & Hf).
  apply Hf. apply lobc_tie_diverges.
Qed.
(* what holds instead: C15_byc_fuel / C15_byc_ha_fuel (out of fuel = every examined size fails; otherwise the answer
   does not depend on the fuel), and every other theorem excludes out-of-fuel by its hypothesis "= BC_ok r" *)

Print Assumptions C15_allow.
Print Assumptions C15_level_minimal.
Print Assumptions C15_level_zero.
Print Assumptions C15_level_nonneg.
Print Assumptions C15_keeps_direct.
Print Assumptions C15_pk_equiv.
Print Assumptions C15_byc_minima.
Print Assumptions C15_byc_levels.
Print Assumptions C15_byc_zero.
Print Assumptions C15_byc_fuel.
Print Assumptions C15_byc_ha_levels.
Print Assumptions C15_byc_dhondt_sainte_lague.
Print Assumptions C15_byc_ha_zero_default.
Print Assumptions C15_byc_ha_zero_given.
Print Assumptions C15_byc_zero_needs_cover.
Print Assumptions C15_byc_ha_fuel.
Print Assumptions C15_byc_adjusted.
Print Assumptions C15_byc_allocator_keeps_direct.
Print Assumptions C15_byc_final_totals.
Print Assumptions C15_byc_final_totals_example.
Print Assumptions C15_byc_witness.
Print Assumptions C15_byc_tie_key_met.
Print Assumptions C15_byc_terminates_refuted.
