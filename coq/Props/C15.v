(* C15 - Overhang handling never removes direct seats and levels minimally.
   Property theorems only.  Model: Model/Overhang.v over an ARBITRARY proportional evaluator
   E : house size -> distribution (so the statements hold for D'Hondt, Sainte-Lague, Hare
   largest remainder and anything else), Model/HighestAverages.v for the final distribution;
   proofs: Proofs/Overhang_proofs.v, Proofs/HA_proofs.v.
   Reading fixed in DESIGN.md: the levelling loop tests the proportional result at the full
   house first, then at house n - drop + a for a = 1, 2, ... (drop = direct seats of parties
   outside the tier). *)
From Coq Require Import ZArith QArith List Bool Lia.
From VL Require Import Prelude.PyDict Model.Overhang Model.Divisor Model.HighestAverages
     Proofs.Dict_proofs Proofs.Overhang_proofs Proofs.HA_proofs Proofs.Divisor_proofs.
Import ListNotations.
Open Scope Z_scope.

(* with overhang merely allowed the adjustment equals the number of overhang seats,
   is never negative, and is zero exactly when nobody holds more direct than proportional seats *)
Theorem C15_allow : forall E n prev prop, E n = Some prop ->
  allow_overhang E n prev = Some (overhang_sum prop prev) /\
  0 <= overhang_sum prop prev /\
  (overhang_sum prop prev = 0 <-> Forall (fun cp => snd cp <= dget_or prop (fst cp) 0) prev).
Proof.
  intros E n prev prop H. split; [exact (allow_spec E n prev prop H)|].
  split; [apply overhang_sum_nonneg|apply overhang_sum_zero].
Qed.

(* levelling: the loop returns the FIRST house size at which every tier party has at least its
   direct seats and its initial proportional share *)
Theorem C15_level_minimal : forall E pmins fuel adj prop r,
  level_loop E fuel pmins adj prop = Some r ->
  adj <= r /\
  (r = adj -> satisfied pmins prop = true) /\
  (adj < r -> satisfied pmins prop = false /\
              (exists pr, E r = Some pr /\ satisfied pmins pr = true) /\
              (forall h, adj < h < r -> exists ph, E h = Some ph /\ satisfied pmins ph = false)).
Proof. intros E pmins. exact (level_loop_spec E pmins). Qed.

Theorem C15_level_zero : forall E fuel n prev prop, E n = Some prop -> NoDup (map fst prop) ->
  Forall (fun pg => dget_or prev (fst pg) 0 <= snd pg) prop ->
  level_overhang E fuel n prev = Some 0.
Proof. exact level_zero_without_overhang. Qed.

Theorem C15_level_nonneg : forall E fuel n prev r, level_overhang E fuel n prev = Some r -> 0 <= r.
Proof. exact level_nonneg. Qed.

(* the final highest-averages distribution with previous gains never removes a direct seat:
   final total = direct seats + seats awarded *)
Theorem C15_keeps_direct : forall d votes caps prev n, divisor_ok d ->
  (forall c v, In (c, v) votes -> (0 <= v)%Q) -> NoDup (map fst votes) ->
  (forall c, 0 <= dget_or prev c 0) ->
  forall c, dget_or prev c 0 <= dget_or (st_totals (final_state d votes n prev caps)) c 0.
Proof.
  intros d votes caps prev n Hd Hv Hnd Hp c.
  pose proof (ha_account d votes caps prev n (proj1 Hd) (proj2 Hd) Hv Hnd Hp c) as Hacc. unfold tot in Hacc. rewrite Hacc.
  pose proof (count_nonneg c (map fst (st_awards (final_state d votes n prev caps)))). lia.
Qed.

Print Assumptions C15_allow.
Print Assumptions C15_level_minimal.
Print Assumptions C15_level_zero.
Print Assumptions C15_level_nonneg.
Print Assumptions C15_keeps_direct.
