(* Generated-vs-handwritten tie for votelib/evaluate/threshold.py: the acceptance predicates and the evaluate()
   bodies of AbsoluteThreshold / RelativeThreshold and the union of AlternativeThresholds, regenerated from the
   source on every run (Gen/Threshold.v, tools/py2v.py typed method translator), ARE the predicate [passes] and
   the selector semantics [sel_eval] of Model/Threshold.v that the theorems of Props/C16.v are about.
   A source edit that changes a comparison ([>] to [>=]), the share ([Fraction(n_votes, total)]), the operand
   order or the union breaks these lemmas - a proof obligation of C16.  The proofs go by case analysis on the
   comparisons, not by syntactic identity, so a semantically equal rewrite (operands of [or] swapped,
   [not n <= t] for [n > t], a renamed local) keeps them. *)
From Coq Require Import ZArith QArith List Bool Lia Lqa.
From VL Require Import Prelude.PyDict Prelude.PyNum Prelude.PyList Model.GetNBest Model.QuotaDistributor Model.Threshold.
From VL Require Import Proofs.QBool_tac.
From VL Require Gen.Threshold.
Import ListNotations.
Close Scope Q_scope.

(* ---- the acceptance predicates (the [if] of the list comprehensions, threshold.py L48-51 and L86-90) *)
Lemma tie_abs_accept : forall thr ae v, Gen.Threshold.AbsoluteThreshold_accept thr ae v = passes ae v thr.
Proof. intros thr ae v. unfold Gen.Threshold.AbsoluteThreshold_accept. q_bool. Qed.

Lemma tie_rel_accept : forall thr ae total v,
  Gen.Threshold.RelativeThreshold_accept thr ae total v = passes ae (v / total)%Q thr.
Proof. intros thr ae total v. unfold Gen.Threshold.RelativeThreshold_accept. q_bool. Qed.

(* ---- the evaluate() bodies *)
Lemma tie_abs_evaluate : forall thr ae votes,
  Gen.Threshold.AbsoluteThreshold_evaluate thr ae votes = sel_eval (SAbs thr ae) votes.
Proof.
  intros thr ae votes. unfold Gen.Threshold.AbsoluteThreshold_evaluate. cbn [sel_eval].
  apply map_filter_ext; intros [c v]; cbn [fst snd]; [reflexivity|]. q_bool.
Qed.

Lemma tie_rel_evaluate : forall thr ae votes,
  Gen.Threshold.RelativeThreshold_evaluate thr ae votes = sel_eval (SRel thr ae) votes.
Proof.
  intros thr ae votes. unfold Gen.Threshold.RelativeThreshold_evaluate. cbn [sel_eval].
  change (py_sum_values votes) with (qsumv votes).
  apply map_filter_ext; intros [c v]; cbn [fst snd]; [reflexivity|]. q_bool.
Qed.

(* ---- AlternativeThresholds: the union of the partial results (the order - mean rank - is not translated; the model
   and the property compare the result as a set).  The partial selectors are passed as their evaluate() functions. *)
Lemma In_dedup c l : In c (dedup l) <-> In c l.
Proof.
  induction l as [|x t IH]; [reflexivity|]. cbn [dedup].
  destruct (cmem x t) eqn:E.
  - rewrite IH. split; [right; assumption|]. intros [->|H]; [|exact H].
    clear IH. induction t as [|y t IH]; [discriminate|]. cbn [cmem] in E. apply orb_true_iff in E. destruct E as [E|E].
    + left. symmetry. apply Pos.eqb_eq. exact E.
    + right. apply IH. exact E.
  - cbn [In]. rewrite IH. reflexivity.
Qed.

Lemma tie_alt_evaluate : forall parts votes pg c,
  In c (Gen.Threshold.AlternativeThresholds_evaluate (map sel_eval parts) votes pg) <-> In c (sel_eval (SAlt parts) votes).
Proof.
  intros parts votes pg c. unfold Gen.Threshold.AlternativeThresholds_evaluate.
  cbn [sel_eval]. rewrite In_dedup. cbv zeta. rewrite !in_flat_map. split.
  - intros (res & Hres & Hc). rewrite map_map in Hres. apply in_map_iff in Hres. destruct Hres as (p & <- & Hp).
    exists p. split; [exact Hp|]. rewrite map_id in Hc. exact Hc.
  - intros (p & Hp & Hc). exists (sel_eval p votes). split.
    + rewrite map_map. apply in_map_iff. exists p. split; [reflexivity|exact Hp].
    + rewrite map_id. exact Hc.
Qed.

Theorem GenTie_Threshold :
  (forall thr ae v, Gen.Threshold.AbsoluteThreshold_accept thr ae v = passes ae v thr) /\
  (forall thr ae total v, Gen.Threshold.RelativeThreshold_accept thr ae total v = passes ae (v / total)%Q thr) /\
  (forall thr ae votes, Gen.Threshold.AbsoluteThreshold_evaluate thr ae votes = sel_eval (SAbs thr ae) votes) /\
  (forall thr ae votes, Gen.Threshold.RelativeThreshold_evaluate thr ae votes = sel_eval (SRel thr ae) votes) /\
  (forall parts votes pg c,
     In c (Gen.Threshold.AlternativeThresholds_evaluate (map sel_eval parts) votes pg) <-> In c (sel_eval (SAlt parts) votes)).
Proof. exact (conj tie_abs_accept (conj tie_rel_accept (conj tie_abs_evaluate (conj tie_rel_evaluate tie_alt_evaluate)))). Qed.

(* non-vacuity: the generated predicate decides the boundary case of the property text (5 of 100 at 5 %) both ways *)
Example gen_on_threshold_accept : Gen.Threshold.RelativeThreshold_accept (1 # 20)%Q true (100 # 1)%Q (5 # 1)%Q = true.
Proof. reflexivity. Qed.
Example gen_on_threshold_strict : Gen.Threshold.RelativeThreshold_accept (1 # 20)%Q false (100 # 1)%Q (5 # 1)%Q = false.
Proof. reflexivity. Qed.
Example gen_alt_union :
  Gen.Threshold.AlternativeThresholds_evaluate [sel_eval (SAbs (10 # 1)%Q true); sel_eval (SRel (1 # 2)%Q false)]
    [(1%positive, (10 # 1)%Q); (2%positive, (3 # 1)%Q); (3%positive, (20 # 1)%Q)] tt = [3%positive; 1%positive; 3%positive].
Proof. reflexivity. Qed.

Print Assumptions GenTie_Threshold.
