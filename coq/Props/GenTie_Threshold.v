(* Generated-vs-handwritten tie for votelib/evaluate/threshold.py: the acceptance predicates and the evaluate()
   bodies of AbsoluteThreshold / RelativeThreshold, the union of AlternativeThresholds and the whole of
   CoalitionMemberBracketer.evaluate (dictionary comprehensions, dispatch with default, membership filter), regenerated from the
   source on every run (Gen/Threshold.v, tools/py2v.py typed method translator), ARE the predicate [passes] and
   the selector semantics [sel_eval] of Model/Threshold.v that the theorems of Props/C16.v are about.
   A source edit that changes a comparison ([>] to [>=]), the share ([Fraction(n_votes, total)]), the operand
   order or the union breaks these lemmas - a proof obligation of C16.  The proofs go by case analysis on the
   comparisons, not by syntactic identity, so a semantically equal rewrite (operands of [or] swapped,
   [not n <= t] for [n > t], a renamed local) keeps them. *)
From Coq Require Import ZArith QArith List Bool Lia Lqa Permutation.
From VL Require Import Prelude.PyDict Prelude.PyNum Prelude.PyList Model.GetNBest Model.QuotaDistributor Model.Threshold.
From VL Require Import Proofs.QBool_tac Proofs.PyList_proofs Proofs.GetNBest_proofs Proofs.Threshold_proofs Proofs.Threshold_tie_support.
From VL Require Gen.Threshold.
Import ListNotations.
Close Scope Q_scope.

(* ---- the acceptance predicates (the [if] of the list comprehensions, threshold.py L48-51 and L86-90) *)
Lemma tie_abs_accept : forall thr ae v, Gen.Threshold.AbsoluteThreshold_accept thr ae v = passes ae v thr.
Proof. intros thr ae v. unfold Gen.Threshold.AbsoluteThreshold_accept. q_bool. Qed.
Print Assumptions tie_abs_accept.

Lemma tie_rel_accept : forall thr ae total v,
  Gen.Threshold.RelativeThreshold_accept thr ae total v = passes ae (v / total)%Q thr.
Proof. intros thr ae total v. unfold Gen.Threshold.RelativeThreshold_accept. q_bool. Qed.
Print Assumptions tie_rel_accept.

(* ---- the evaluate() bodies *)
Lemma tie_abs_evaluate : forall thr ae votes,
  Gen.Threshold.AbsoluteThreshold_evaluate thr ae votes = sel_eval (SAbs thr ae) votes.
Proof.
  intros thr ae votes. unfold Gen.Threshold.AbsoluteThreshold_evaluate. cbn [sel_eval].
  apply map_filter_ext; intros [c v]; cbn [fst snd]; [reflexivity|]. q_bool.
Qed.
Print Assumptions tie_abs_evaluate.

Lemma tie_rel_evaluate : forall thr ae votes,
  Gen.Threshold.RelativeThreshold_evaluate thr ae votes = sel_eval (SRel thr ae) votes.
Proof.
  intros thr ae votes. unfold Gen.Threshold.RelativeThreshold_evaluate. cbn [sel_eval].
  change (py_sum_values votes) with (qsumv votes).
  apply map_filter_ext; intros [c v]; cbn [fst snd]; [reflexivity|]. q_bool.
Qed.
Print Assumptions tie_rel_evaluate.

(* ---- AlternativeThresholds: the union of the partial results (the order - mean rank - is not translated; the model
   and the property compare the result as a set).  The partial selectors are passed as their evaluate() functions. *)
Lemma tie_alt_evaluate : forall parts votes pg c,
  In c (Gen.Threshold.AlternativeThresholds_evaluate (map sel_eval parts) votes pg) <-> In c (sel_eval (SAlt parts) votes).
Proof.
  intros parts votes pg c. unfold Gen.Threshold.AlternativeThresholds_evaluate.
  cbn [sel_eval]. rewrite In_dedup. cbv zeta. rewrite !in_flat_map. split.
  - intros (res & Hres & Hc). rewrite map_map in Hres. apply in_map_iff in Hres. destruct Hres as (p & <- & Hp).
    exists p. split; [exact Hp|]. rewrite map_id in Hc. exact Hc.
  - intros (p & Hp & Hc). exists (sel_eval p votes). split.
    + rewrite map_map. apply in_map_iff. exists p. split; [reflexivity|exact Hp].
    + rewrite map_id. exact Hc.
Qed.
Print Assumptions tie_alt_evaluate.

(* ---- CoalitionMemberBracketer.evaluate (threshold.py L117-142): three comprehensions and a filter.  The candidate
   attributes it reads are passed as functions ([is_coalition], [get_n_coalition_members]); the evaluators dictionary maps
   the member count to a selector's evaluate().  On a votes dictionary (distinct keys) the generated function IS
   [bracket_eval] of Model/Threshold.v with every bracket configured ([Some]) and the bracket table listing, for each
   candidate, 1 or its number of coalition members. *)
Lemma tie_coalition_evaluate : forall (evals : list (Z * sel)) (dflt : sel) (isc : C -> bool) (nmem : C -> Z) votes,
  NoDup (map fst votes) ->
  Gen.Threshold.CoalitionMemberBracketer_evaluate (map (fun e => (fst e, sel_eval (snd e))) evals) (sel_eval dflt) isc nmem votes =
  bracket_eval (map (fun e => (fst e, Some (snd e))) evals) (Some dflt)
               (map (fun cv => (fst cv, if isc (fst cv) then nmem (fst cv) else 1%Z)) votes) votes.
Proof.
  intros evals dflt isc nmem votes Hnd.
  set (br := fun c => if isc c then nmem c else 1%Z).
  unfold Gen.Threshold.CoalitionMemberBracketer_evaluate, bracket_eval. cbv zeta.
  fold (bracket_pick (map (fun e : Z * sel => (fst e, Some (snd e))) evals) (Some dflt)).
  set (S := sort_desc Qle_bool votes).
  assert (Hperm : Permutation S votes) by apply sort_desc_perm.
  assert (HndS : NoDup (map fst S)).
  { apply (Permutation_NoDup (l := map fst votes)); [apply Permutation_map, Permutation_sym, Hperm|exact Hnd]. }
  set (g := fun it : C * Q => (fst it, br (fst it))).
  (* the member-count table: whatever the form of the conditional, it maps a candidate to [br] of it *)
  match goal with |- context [py_dict_c (map ?gg S)] =>
    rewrite (map_ext gg g) by (intros [c0 v0]; cbn [fst snd]; unfold g, br; cbn [fst]; destruct (isc c0); reflexivity)
  end.
  rewrite (py_dict_c_nodup (map g S)) by (rewrite map_map; exact HndS).
  rewrite filter_map_swap, !map_map. cbn [fst snd g].
  apply map_filter_ext_in; [reflexivity|].
  intros [c v] Hin. cbn [fst snd].
  unfold py_getitem_z.
  rewrite (py_dict_z_tabulate (fun n => py_get_z (map (fun e : Z * sel => (fst e, sel_eval (snd e))) evals) n (sel_eval dflt) votes)
                              (fun x : C * Q => br (fst x))).
  replace (existsb (fun x : C * Q => Z.eqb (br (fst x)) (br c)) S) with true.
  2:{ symmetry. apply existsb_exists. exists (c, v). split; [exact Hin|apply Z.eqb_refl]. }
  fold (bracket_pick (map (fun e : Z * sel => (fst e, Some (snd e))) evals) (Some dflt)).
  replace (map (fun cv : C * Q => (fst cv, if isc (fst cv) then nmem (fst cv) else 1%Z)) votes)
    with (map (fun cv : C * Q => (fst cv, br (fst cv))) votes) by reflexivity.
  rewrite (dget_or_tabulate br votes c).
  2:{ apply in_map_iff. exists (c, v). split; [reflexivity|]. apply (Permutation_in _ Hperm). exact Hin. }
  destruct (pick_configured evals dflt votes (br c)) as [E NE]. unfold bracket_pick in E, NE.
  set (pk := match find _ (map (fun e : Z * sel => (fst e, Some (snd e))) evals) with Some e => snd e | None => Some dflt end) in *.
  destruct pk as [s|]; [|congruence].
  rewrite E. reflexivity.
Qed.
Print Assumptions tie_coalition_evaluate.

Theorem GenTie_Threshold :
  (forall thr ae v, Gen.Threshold.AbsoluteThreshold_accept thr ae v = passes ae v thr) /\
  (forall thr ae total v, Gen.Threshold.RelativeThreshold_accept thr ae total v = passes ae (v / total)%Q thr) /\
  (forall thr ae votes, Gen.Threshold.AbsoluteThreshold_evaluate thr ae votes = sel_eval (SAbs thr ae) votes) /\
  (forall thr ae votes, Gen.Threshold.RelativeThreshold_evaluate thr ae votes = sel_eval (SRel thr ae) votes) /\
  (forall parts votes pg c,
     In c (Gen.Threshold.AlternativeThresholds_evaluate (map sel_eval parts) votes pg) <-> In c (sel_eval (SAlt parts) votes)) /\
  (forall (evals : list (Z * sel)) (dflt : sel) (isc : C -> bool) (nmem : C -> Z) votes,
     NoDup (map fst votes) ->
     Gen.Threshold.CoalitionMemberBracketer_evaluate (map (fun e => (fst e, sel_eval (snd e))) evals) (sel_eval dflt) isc nmem votes =
     bracket_eval (map (fun e => (fst e, Some (snd e))) evals) (Some dflt)
                  (map (fun cv => (fst cv, if isc (fst cv) then nmem (fst cv) else 1%Z)) votes) votes).
Proof.
  exact (conj tie_abs_accept (conj tie_rel_accept (conj tie_abs_evaluate (conj tie_rel_evaluate (conj tie_alt_evaluate tie_coalition_evaluate))))).
Qed.

(* ---- the clauses of C16 (Props/C16.v), restated of the code GENERATED from the source text: what the property says holds,
   for every input, of the functions the translator reads off threshold.py in this run *)
Corollary gen_C16_absolute : forall thr ae votes c,
  In c (Gen.Threshold.AbsoluteThreshold_evaluate thr ae votes) <->
  exists v, In (c, v) votes /\ ((thr < v)%Q \/ (ae = true /\ (v == thr)%Q)).
Proof. intros thr ae votes c. rewrite tie_abs_evaluate. apply absolute_spec. Qed.

Corollary gen_C16_relative : forall thr ae votes c,
  In c (Gen.Threshold.RelativeThreshold_evaluate thr ae votes) <->
  exists v, In (c, v) votes /\
    ((thr < v / py_sum_values votes)%Q \/ (ae = true /\ (v / py_sum_values votes == thr)%Q)).
Proof. intros thr ae votes c. rewrite tie_rel_evaluate. apply relative_spec. Qed.

Corollary gen_C16_alternative : forall parts votes pg c,
  In c (Gen.Threshold.AlternativeThresholds_evaluate (map sel_eval parts) votes pg) <->
  exists p, In p parts /\ In c (sel_eval p votes).
Proof. intros parts votes pg c. rewrite tie_alt_evaluate. apply alternative_spec. Qed.

Corollary gen_C16_coalition : forall (evals : list (Z * sel)) (dflt : sel) (isc : C -> bool) (nmem : C -> Z) votes c,
  NoDup (map fst votes) ->
  (In c (Gen.Threshold.CoalitionMemberBracketer_evaluate (map (fun e => (fst e, sel_eval (snd e))) evals) (sel_eval dflt) isc nmem votes) <->
   exists v, In (c, v) votes /\
     In c (match find (fun e => Z.eqb (fst e) (if isc c then nmem c else 1%Z)) evals with Some e => sel_eval (snd e) votes | None => sel_eval dflt votes end)).
Proof.
  intros evals dflt isc nmem votes c Hnd. rewrite (tie_coalition_evaluate evals dflt isc nmem votes Hnd), bracket_eval_spec.
  split; intros (v & Hin & H); exists v; (split; [exact Hin|]);
    rewrite (dget_or_tabulate (fun c => if isc c then nmem c else 1%Z) votes c) in *
      by (apply in_map_iff; exists (c, v); split; [reflexivity|exact Hin]);
    revert H; unfold bracket_pick; generalize (if isc c then nmem c else 1%Z); intros b;
    induction evals as [|[k s] t IH]; cbn [map find fst snd]; try (destruct (Z.eqb k b)); auto.
Qed.
Print Assumptions gen_C16_absolute.
Print Assumptions gen_C16_relative.
Print Assumptions gen_C16_alternative.
Print Assumptions gen_C16_coalition.

(* non-vacuity: the generated predicate decides the boundary case of the property text (5 of 100 at 5 %) both ways *)
Example gen_on_threshold_accept : Gen.Threshold.RelativeThreshold_accept (1 # 20)%Q true (100 # 1)%Q (5 # 1)%Q = true.
Proof. reflexivity. Qed.
Example gen_on_threshold_strict : Gen.Threshold.RelativeThreshold_accept (1 # 20)%Q false (100 # 1)%Q (5 # 1)%Q = false.
Proof. reflexivity. Qed.
Example gen_alt_union :
  Gen.Threshold.AlternativeThresholds_evaluate [sel_eval (SAbs (10 # 1)%Q true); sel_eval (SRel (1 # 2)%Q false)]
    [(1%positive, (10 # 1)%Q); (2%positive, (3 # 1)%Q); (3%positive, (20 # 1)%Q)] tt = [3%positive; 1%positive; 3%positive].
Proof. reflexivity. Qed.

(* a votes dictionary has distinct keys; a coalition of two (candidate 2) is held to 10 %, single parties to 5 % *)
Example gen_coalition :
  let votes := [(1%positive, (6 # 1)%Q); (2%positive, (8 # 1)%Q); (3%positive, (86 # 1)%Q)] in
  NoDup (map fst votes) /\
  Gen.Threshold.CoalitionMemberBracketer_evaluate [(2%Z, sel_eval (SRel (1 # 10)%Q true))] (sel_eval (SRel (1 # 20)%Q true))
    (fun c => Pos.eqb c 2) (fun _ => 2%Z) votes = [3%positive; 1%positive].
Proof.
  split; [|reflexivity]. repeat constructor; cbn; intuition discriminate.
Qed.

Print Assumptions GenTie_Threshold.
