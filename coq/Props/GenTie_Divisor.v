(* Tie between the divisor functions GENERATED from votelib/component/divisor.py
   (Gen/Divisor.v, regenerated on every run) and the hand-written twins the
   theorems are about (Model/Divisor.v).  An edit of the Python arithmetic
   breaks these lemmas. *)
From Coq Require Import ZArith QArith Qpower Lia Bool.
From VL Require Import Prelude.PyNum Model.Divisor.
From VL Require Gen.Divisor.
Open Scope Q_scope.

(* robust against harmless rewrites (commuted operands, re-associated sums):
   reduce the rational equation to an integer one and let lia/ring decide *)
Ltac q_tie :=
  unfold Qeq, Qplus, Qminus, Qopp, Qmult, Qdiv, inject_Z; cbn [Qnum Qden Qinv Qplus Qmult];
  rewrite ?Pos2Z.inj_mul; lia.

Lemma tie_d_hondt k : Gen.Divisor.d_hondt k == d_hondt k.
Proof. unfold Gen.Divisor.d_hondt, d_hondt, py_frac. q_tie. Qed.

Lemma tie_sainte_lague k : Gen.Divisor.sainte_lague k == sainte_lague k.
Proof. unfold Gen.Divisor.sainte_lague, sainte_lague, py_frac. q_tie. Qed.

Lemma tie_imperiali k : Gen.Divisor.imperiali k == imperiali k.
Proof. unfold Gen.Divisor.imperiali, imperiali, py_frac. q_tie. Qed.

Lemma tie_danish k : Gen.Divisor.danish k == danish k.
Proof. unfold Gen.Divisor.danish, danish, py_frac. q_tie. Qed.

Lemma tie_macau k : (0 <= k)%Z -> Gen.Divisor.macau k == macau k.
Proof.
  intros Hk. unfold Gen.Divisor.macau, macau, py_pow.
  rewrite (Zpower_Qpower 2 k Hk). reflexivity.
Qed.

Lemma tie_modified f g c k : (forall j, f j == g j) ->
  Gen.Divisor.modified_first_coef f c k == modified_first_coef g c k.
Proof.
  intros H. unfold Gen.Divisor.modified_first_coef, modified_first_coef, py_gt.
  destruct (0 <? k)%Z eqn:E.
  - assert (Qle_bool (inject_Z k) (0 # 1) = false) as ->.
    { apply not_true_iff_false. rewrite Qle_bool_iff. unfold Qle. simpl. apply Z.ltb_lt in E. lia. }
    simpl. apply H.
  - assert (Qle_bool (inject_Z k) (0 # 1) = true) as ->.
    { rewrite Qle_bool_iff. unfold Qle. simpl. apply Z.ltb_ge in E. lia. }
    reflexivity.
Qed.

Theorem GenTie_Divisor :
  (forall k, Gen.Divisor.d_hondt k == d_hondt k) /\
  (forall k, Gen.Divisor.sainte_lague k == sainte_lague k) /\
  (forall k, Gen.Divisor.imperiali k == imperiali k) /\
  (forall k, Gen.Divisor.danish k == danish k) /\
  (forall k, (0 <= k)%Z -> Gen.Divisor.macau k == macau k) /\
  (forall f g c k, (forall j, f j == g j) ->
     Gen.Divisor.modified_first_coef f c k == modified_first_coef g c k).
Proof.
  exact (conj tie_d_hondt (conj tie_sainte_lague (conj tie_imperiali (conj tie_danish
        (conj tie_macau tie_modified))))).
Qed.
Print Assumptions GenTie_Divisor.
