(* Generated-vs-handwritten tie for the jump-threshold test of openlist.ThresholdOpenList.evaluate (openlist.py L122-127):
   the comprehension selecting the jumping candidates, regenerated from the source on every run (Gen/Openlist.v), IS
   [ol_jumping] of Model/Threshold.v (the candidates over - or, when accepted, on - the threshold, in descending vote
   order) that C16_openlist_structure (Props/C16.v) is stated with.  The threshold itself (jump fraction / quota,
   max / min) and the fill-up loop are tied by correspondence. *)
From Coq Require Import ZArith QArith List Bool Lia Lqa.
From VL Require Import Prelude.PyDict Prelude.PyNum Prelude.PyList Model.GetNBest Model.QuotaDistributor Model.Threshold Proofs.QBool_tac.
From VL Require Gen.Openlist.
Import ListNotations.
Close Scope Q_scope.

Lemma tie_ol_jump_test : forall ae thr v, Gen.Openlist.ThresholdOpenList_jump_test ae thr v = passes ae v thr.
Proof. intros ae thr v. unfold Gen.Openlist.ThresholdOpenList_jump_test. q_bool. Qed.

Lemma tie_ol_jumping : forall cfg votes thr,
  Gen.Openlist.ThresholdOpenList_jumping (ol_accept_equal cfg) thr votes = map fst (ol_jumping cfg votes thr).
Proof.
  intros cfg votes thr. unfold Gen.Openlist.ThresholdOpenList_jumping, ol_jumping.
  apply map_filter_ext; intros [c v]; cbn [fst snd]; [reflexivity|]. q_bool.
Qed.

Theorem GenTie_Openlist :
  (forall ae thr v, Gen.Openlist.ThresholdOpenList_jump_test ae thr v = passes ae v thr) /\
  (forall cfg votes thr,
     Gen.Openlist.ThresholdOpenList_jumping (ol_accept_equal cfg) thr votes = map fst (ol_jumping cfg votes thr)).
Proof. exact (conj tie_ol_jump_test tie_ol_jumping). Qed.

Example gen_jump_on_threshold :
  Gen.Openlist.ThresholdOpenList_jumping true (10 # 1)%Q [(1%positive, (10 # 1)%Q); (2%positive, (30 # 1)%Q); (3%positive, (9 # 1)%Q)] = [2%positive; 1%positive] /\
  Gen.Openlist.ThresholdOpenList_jumping false (10 # 1)%Q [(1%positive, (10 # 1)%Q); (2%positive, (30 # 1)%Q); (3%positive, (9 # 1)%Q)] = [2%positive].
Proof. split; reflexivity. Qed.

Print Assumptions GenTie_Openlist.
