(* Generated-vs-handwritten tie for the jump-threshold test of openlist.ThresholdOpenList.evaluate (openlist.py L122-127):
   the comprehension selecting the jumping candidates, regenerated from the source on every run (Gen/Openlist.v), IS
   [ol_jumping] of Model/Threshold.v (the candidates over - or, when accepted, on - the threshold, in descending vote
   order) that C16_openlist_structure (Props/C16.v) is stated with, and the jump threshold computed before it (jump fraction
   of the total and / or the quota, the higher or lower of the two) IS [ol_threshold].  What happens after the comprehension
   (cut to n seats, list precedence, the fill-up loop) and the constructor's quota_fraction wrapper are tied by correspondence. *)
From Coq Require Import ZArith QArith List Bool Lia Lqa.
From VL Require Import Prelude.PyDict Prelude.PyNum Prelude.PyList Model.GetNBest Model.QuotaDistributor Model.Threshold Proofs.QBool_tac Proofs.Threshold_proofs.
From VL Require Gen.Openlist.
Import ListNotations.
Close Scope Q_scope.

Lemma tie_ol_jump_test : forall ae thr v, Gen.Openlist.ThresholdOpenList_jump_test ae thr v = passes ae v thr.
Proof. intros ae thr v. unfold Gen.Openlist.ThresholdOpenList_jump_test. q_bool. Qed.
Print Assumptions tie_ol_jump_test.

Lemma tie_ol_jumping : forall cfg votes thr,
  Gen.Openlist.ThresholdOpenList_jumping (ol_accept_equal cfg) thr votes = map fst (ol_jumping cfg votes thr).
Proof.
  intros cfg votes thr. unfold Gen.Openlist.ThresholdOpenList_jumping, ol_jumping.
  apply map_filter_ext; intros [c v]; cbn [fst snd]; [reflexivity|]. q_bool.
Qed.
Print Assumptions tie_ol_jumping.

(* the jump threshold (openlist.py L110-121): total * jump_fraction and / or the quota, the higher or the lower of the two;
   None = neither configured (the list order alone decides).  Compared up to == on the rational. *)
Definition oq_eq (a b : option Q) : Prop :=
  match a, b with Some x, Some y => (x == y)%Q | None, None => True | _, _ => False end.

Lemma tie_ol_threshold : forall cfg votes n,
  oq_eq (Gen.Openlist.ThresholdOpenList_threshold (ol_jump cfg) (ol_quota cfg) (ol_take_higher cfg) votes n)
        (ol_threshold cfg (qsumv votes) n).
Proof.
  intros cfg votes n. unfold Gen.Openlist.ThresholdOpenList_threshold, ol_threshold. cbv zeta.
  change (py_sum_values votes) with (qsumv votes).
  destruct (ol_jump cfg) as [j|], (ol_quota cfg) as [qf|], (ol_take_higher cfg);
    cbn [app py_len length Z.of_nat Z.ltb Z.compare negb py_max_list py_min_list fold_left oq_eq];
    repeat match goal with |- context [Pos.of_succ_nat ?k] => let v := eval compute in (Pos.of_succ_nat k) in change (Pos.of_succ_nat k) with v end;
    cbn [Z.ltb Z.compare negb oq_eq];
    try exact I;
    (* products become atoms; [b * a] is recorded as equal to the atom of [a * b] *)
    repeat match goal with |- context [(?a * ?b)%Q] =>
             let x := fresh "x" in set (x := (a * b)%Q) in *;
             assert (b * a == x)%Q by (unfold x; apply Qmult_comm); clearbody x end;
    repeat match goal with |- context [qf ?a ?b] => let y := fresh "y" in set (y := qf a b) in *; clearbody y end;
    q_atoms; cbn [oq_eq]; solve [ reflexivity | lra ].
Qed.
Print Assumptions tie_ol_threshold.

(* who jumps (the membership clause of C16_openlist_structure), restated of the generated comprehension *)
Corollary gen_C16_jumping : forall ae thr votes c,
  In c (Gen.Openlist.ThresholdOpenList_jumping ae thr votes) <->
  exists v, In (c, v) votes /\ ((thr < v)%Q \/ (ae = true /\ (v == thr)%Q)).
Proof.
  intros ae thr votes c.
  pose proof (tie_ol_jumping {| ol_jump := None; ol_quota := None; ol_take_higher := false; ol_accept_equal := ae; ol_list_precedence := false |} votes thr) as H.
  cbn [ol_accept_equal] in H. rewrite H.
  exact (absolute_spec thr ae votes c).
Qed.
Print Assumptions gen_C16_jumping.

Theorem GenTie_Openlist :
  (forall ae thr v, Gen.Openlist.ThresholdOpenList_jump_test ae thr v = passes ae v thr) /\
  (forall cfg votes thr,
     Gen.Openlist.ThresholdOpenList_jumping (ol_accept_equal cfg) thr votes = map fst (ol_jumping cfg votes thr)) /\
  (forall cfg votes n,
     oq_eq (Gen.Openlist.ThresholdOpenList_threshold (ol_jump cfg) (ol_quota cfg) (ol_take_higher cfg) votes n)
           (ol_threshold cfg (qsumv votes) n)).
Proof. exact (conj tie_ol_jump_test (conj tie_ol_jumping tie_ol_threshold)). Qed.

Example gen_threshold_lower :    (* 10 % of 120 votes = 12 against a Hare quota 120 / 4 = 30: the lower one unless take_higher *)
  Gen.Openlist.ThresholdOpenList_threshold (Some (1 # 10)%Q) (Some (fun v s => v / inject_Z s)%Q) false [(1%positive, (120 # 1)%Q)] 4 = Some ((120 # 1) * (1 # 10))%Q /\
  Gen.Openlist.ThresholdOpenList_threshold None None false [(1%positive, (120 # 1)%Q)] 4 = None.
Proof. split; reflexivity. Qed.

Example gen_jump_on_threshold :
  Gen.Openlist.ThresholdOpenList_jumping true (10 # 1)%Q [(1%positive, (10 # 1)%Q); (2%positive, (30 # 1)%Q); (3%positive, (9 # 1)%Q)] = [2%positive; 1%positive] /\
  Gen.Openlist.ThresholdOpenList_jumping false (10 # 1)%Q [(1%positive, (10 # 1)%Q); (2%positive, (30 # 1)%Q); (3%positive, (9 # 1)%Q)] = [2%positive].
Proof. split; reflexivity. Qed.

Print Assumptions GenTie_Openlist.
