(* C20 - Vote validators accept exactly the ballots their rules describe.
   Property theorems only.  Model: Model/Validate.v; proofs: Proofs/Validate_proofs.v.

   Ballots range over the whole grammar [pyobj] (wrong containers, nested
   collections, numbers, None, candidate objects of every kind).  Acceptance is
   characterised declaratively for each validator; "names none twice" is
   |distinct names| = |names|; all bounds are inclusive (in_bounds = lo <= x <= hi).
   Reading fixed in DESIGN.md: per-rank bounds constrain shared ranks (frozenset
   items) - "candidates sharing a rank" - a plain rank always holds one candidate. *)
From Coq Require Import ZArith QArith List Bool.
From VL Require Import Model.Validate Proofs.Validate_proofs.
Import ListNotations.
Close Scope Q_scope.

Theorem C20_simple_iff : forall nm v, validate_simple nm v = VOk <-> nominate nm v = true.
Proof. exact simple_iff. Qed.

Theorem C20_approval_iff : forall nm cnt v, validate_approval nm cnt v = VOk <->
  exists l, v = OFrozen l /\ Forall (fun o => nominate nm o = true) l /\ in_bounds cnt (qnat (length l)) = true.
Proof. exact approval_iff. Qed.

Theorem C20_ranked_iff : forall nm tot ranks v, validate_ranked nm tot ranks v = VOk <->
  exists items, v = OTuple items /\ ranks_ok ranks 0 items /\
    in_bounds tot (qnat (length (flatten items))) = true /\
    length (distinct (flatten items)) = length (flatten items) /\
    Forall (fun o => nominate nm o = true) (distinct (flatten items)).
Proof. exact ranked_iff. Qed.

Theorem C20_score_iff : forall nm nsc sums rule v, validate_score nm nsc sums rule v = VOk <->
  exists l, v = OFrozen l /\
    in_bounds nsc (qnat (length l)) = true /\
    Forall (fun o => exists c s, o = OTuple [c; s] /\ nominate nm c = true) l /\
    length (distinct (map scored_cand l)) = length l /\
    (let sb := kb_get sums (Z.of_nat (length l)) in
     active sb = true -> exists s, sum_scores l = Some s /\ in_bounds sb s = true) /\
    Forall (rule_ok rule) l.
Proof. exact score_iff. Qed.

(* rejections of simple and approval ballots are always vote / candidate errors *)
Theorem C20_errors_simple : forall nm v, validate_simple nm v <> VCrash.
Proof. exact simple_no_crash. Qed.
Theorem C20_errors_approval : forall nm cnt v, validate_approval nm cnt v <> VCrash.
Proof. exact approval_no_crash. Qed.

(* the invalid-vote filter keeps exactly the accepted ballots with their counts, and removes
   exactly those rejected with a vote error; it answers whenever no ballot is rejected with a
   candidate error (which it re-raises: known finding C20-eliminator-candidate-error) *)
Theorem C20_filter : forall validate votes kept, eliminate validate votes = EOk kept ->
  kept = filter (fun bn => match validate (fst bn) with VOk => true | _ => false end) votes /\
  Forall (fun bn => validate (fst bn) = VOk \/ validate (fst bn) = VVoteError) votes.
Proof. exact eliminate_spec. Qed.
Theorem C20_filter_total : forall validate votes,
  Forall (fun bn => validate (fst bn) = VOk \/ validate (fst bn) = VVoteError) votes ->
  exists kept, eliminate validate votes = EOk kept.
Proof. exact eliminate_total. Qed.

(* non-vacuity: a ranked ballot with a shared rank under per-rank bounds (1,2) is accepted;
   the same candidate twice is rejected *)
Example C20_example :
  validate_ranked (NBasic true) (None, None) ([], (Some (1#1)%Q, Some (2#1)%Q))
    (OTuple [OCand KStr 1; OFrozen [OCand KStr 2; OCand KStr 3]]) = VOk /\
  validate_ranked (NBasic true) (None, None) ([], (Some (1#1)%Q, Some (2#1)%Q))
    (OTuple [OCand KStr 1; OFrozen [OCand KStr 2; OCand KStr 1]]) = VVoteError.
Proof. split; vm_compute; reflexivity. Qed.

Print Assumptions C20_simple_iff.
Print Assumptions C20_approval_iff.
Print Assumptions C20_ranked_iff.
Print Assumptions C20_score_iff.
Print Assumptions C20_errors_simple.
Print Assumptions C20_errors_approval.
Print Assumptions C20_filter.
Print Assumptions C20_filter_total.
