(* C03 - Transferable-vote counts conserve votes and eliminate only the lowest.
   Property theorems only.  Model: Model/STV.v (Gregory transfers); proofs: Proofs/STV_proofs.v.

   [reach] is the set of states (allocation, seats so far, seats filled by quota so far)
   the count loop of nth_count passes through - for ANY profile (truncated ballots, shared
   ranks, empty ballots), any seat count, caps (selector form = all caps 1, distributor
   form = any caps), quota function with positive values, accept_quota_equal,
   mandatory_quota, eliminate_step.  asum = all weight held (continuing + exhausted). *)
From Coq Require Import ZArith QArith List.
From VL Require Import Prelude.PyDict Model.GetNBest Model.Convert Model.STV Proofs.STV_proofs Proofs.STV_elim_proofs
     Proofs.STV_resting_proofs.
Import ListNotations.
Open Scope Q_scope.

(* I1 at EVERY count: votes held + one quota per seat filled by quota = votes cast (exactly) *)
Theorem C03_conservation_every_count :
  forall cf votes n_seats caps prev0,
  (forall c, (0 <= dget_or prev0 c 0)%Z) ->
  let total := Qred (fold_left Qplus (map snd votes) 0) in
  (forall qv, quota_of cf total n_seats = Some qv -> 0 < qv) ->
  forall a seats qs, reach cf votes n_seats caps prev0 a seats qs ->
    NoDup (akeys a) /\ (forall c, (0 <= dget_or seats c 0)%Z) /\
    match quota_of cf total n_seats with
    | Some qv => asum a + inject_Z qs * qv == cast votes
    | None => asum a == cast votes /\ qs = 0%Z
    end.
Proof. intros cf votes n_seats caps prev0 H0 total Hq. exact (reach_conservation cf votes n_seats caps prev0 H0 Hq). Qed.

(* the two moves of a count, separately *)
Theorem C03_transfer_conserves : forall a elim, NoDup (akeys a) ->
  asum (transfer a elim) == asum a /\ NoDup (akeys (transfer a elim)).
Proof. exact transfer_conserves. Qed.

Theorem C03_initial_allocation : forall votes,
  NoDup (akeys (initial_allocation votes)) /\ asum (initial_allocation votes) == cast votes.
Proof. exact initial_allocation_conserves. Qed.

(* I2: no ballot weight ever becomes negative *)
Theorem C03_nonneg_transfer : forall a elim, alloc_nonneg a -> alloc_nonneg (transfer a elim).
Proof. exact transfer_nonneg. Qed.
Theorem C03_nonneg_subtract : forall elected a a', alloc_nonneg a ->
  (forall c amt, In (c, amt) elected -> 0 <= amt) -> subtract a elected = Some a' -> alloc_nonneg a'.
Proof. exact subtract_nonneg. Qed.

(* election rule: whoever is elected in a count by quota holds at least one quota per seat
   received, and receives at least one seat; distinct candidates *)
Theorem C03_election_rule : forall cf q, 0 < q -> forall a n_rem prev caps el,
  NoDup (akeys a) -> (forall c, (0 <= dget_or prev c 0)%Z) ->
  elect_by_quota cf (totals a) (Some q) n_rem prev caps = inl (Some el) ->
  NoDup (map fst el) /\
  forall c s, In (c, s) el -> (0 < s)%Z /\ exists p, alloc_get a (Some c) = Some p /\ inject_Z s * q <= wsum p.
Proof. exact elect_by_quota_sound. Qed.

(* elimination rule.  When the shortcut does not apply and nobody reaches the quota, next_count refuses with
   NotImplementedError on a tie at the cut and otherwise transfers away exactly the candidates [eliminated cf a]:
   - their number is the number of continuing candidates minus the retained count (for eliminate_step = -s:
     min(s, continuing - 1));
   - nobody eliminated holds strictly more than somebody retained;
   - only continuing candidates are ranked: the exhausted pile (key None) is not among the contenders, whatever it holds. *)
Theorem C03_elimination_step : forall cf a n total prev caps quota,
  next_count cf a n total prev caps <> CR_all (flat_map (fun kt : option C * Q => match fst kt with
                                         | Some c => [(c, (dget_or caps c 0 - dget_or prev c 0)%Z)]
                                         | None => [] end) (sort_desc Qle_bool (totals a))) ->
  quota = match c_quota cf with
          | Some qf => if Qeq_bool total 0 || (n =? 0)%Z then None else Some (qf total n)
          | None => None end ->
  elect_by_quota cf (totals a) quota (n - zsum (map snd prev))%Z prev caps = inl None ->
  next_count cf a n total prev caps =
    if has_tie_r (retained cf a) then CR_stop S_nie
    else CR_next (match eliminated cf a with [] => a | _ => transfer a (eliminated cf a) end) [].
Proof. exact next_count_noquota. Qed.

Theorem C03_elimination_count : forall cf a, NoDup (map fst (in_play a)) -> has_tie_r (retained cf a) = false ->
  (1 <= retained_count cf (length (in_play a)) <= length (in_play a))%nat ->
  length (eliminated cf a) = (length (in_play a) - retained_count cf (length (in_play a)))%nat.
Proof. exact eliminated_count. Qed.

Theorem C03_elimination_configured : forall cf m, (c_step cf < 0)%Z -> (1 <= m)%nat ->
  (1 <= retained_count cf m <= m)%nat /\ (m - retained_count cf m = Nat.min (Z.to_nat (- c_step cf)) (m - 1))%nat.
Proof. exact retained_count_neg. Qed.

Theorem C03_elimination_lowest : forall cf a, NoDup (map fst (in_play a)) ->
  (1 <= retained_count cf (length (in_play a)) <= length (in_play a))%nat ->
  forall e ve c vc, In e (eliminated cf a) -> In (e, ve) (in_play a) ->
    In (Cand c) (retained cf a) -> In (c, vc) (in_play a) -> ve <= vc.
Proof. intros cf a Hnd Hk. exact (eliminated_lowest cf a Hnd Hk). Qed.

Theorem C03_pile_not_a_contender : forall a c v, In (c, v) (in_play a) -> exists p, In (Some c, p) a.
Proof. exact in_play_no_pile. Qed.

(* a transferred ballot goes only to candidates still in the count *)
Theorem C03_targets_continuing : forall vote cand allowed, incl (ranked_next vote cand allowed) allowed.
Proof. exact ranked_next_allowed. Qed.

(* ---------------------------------------------------------------- I3: the resting place of every ballot, at every count.
   [resting_ok a]: for every pile (k, p) of the allocation and every ballot b in it without shared ranks
   ([plainb b = true], whatever its weight): if k = Some c then c is the highest-ranked candidate of b that is a key of
   the allocation ([highest_continuing (keys_some a) b c]: b = pre ++ IP c :: post, no candidate of pre is a key);
   if k = None (exhausted pile) then no candidate of b is a key ([none_continuing]).  Keys = the candidates still in the
   count; an elected candidate that may still gain seats keeps its pile and stays a key.  No hypothesis on the
   ballots (repeated candidates allowed), the weights, the caps or the configuration. *)
Theorem C03_resting_initial : forall votes, resting_ok (initial_allocation votes).
Proof. exact initial_resting. Qed.

Theorem C03_resting_transfer : forall a elim, resting_ok a -> resting_ok (transfer a elim).
Proof. exact transfer_resting. Qed.

(* the keys only shrink in a transfer: what is left are keys of before outside the removed candidates *)
Theorem C03_transfer_keys_shrink : forall a elim,
  incl (keys_some (transfer a elim)) (filter (fun c => negb (cmem c elim)) (keys_some a)).
Proof. exact transfer_keys_shrink. Qed.

(* Gregory reweighting (surplus subtraction) keeps every ballot where it is *)
Theorem C03_resting_subtract : forall elected a a', resting_ok a -> subtract a elected = Some a' -> resting_ok a'.
Proof. exact subtract_resting. Qed.

Theorem C03_resting_next_count : forall cf a n_seats total prev caps a' el,
  resting_ok a -> next_count cf a n_seats total prev caps = CR_next a' el -> resting_ok a'.
Proof. exact next_count_resting. Qed.

(* at EVERY count of every run (the states of [reach], as for conservation), spelled out *)
Theorem C03_resting_every_count :
  forall cf votes n_seats caps prev0 a seats qs, reach cf votes n_seats caps prev0 a seats qs ->
  forall k p b w, In (k, p) a -> In (b, w) p -> plainb b = true ->
    match k with
    | Some c => exists pre post, b = pre ++ IP c :: post /\ In c (keys_some a) /\
                                 forall x, In (IP x) pre -> ~ In x (keys_some a)
    | None => forall x, In (IP x) b -> ~ In x (keys_some a)
    end.
Proof.
  intros cf votes n_seats caps prev0 a seats qs Hr k p b w Hk Hb Hp.
  pose proof (reach_resting cf votes n_seats caps prev0 a seats qs Hr k p b w Hk Hb Hp) as H.
  destruct k as [c|]; exact H.
Qed.

(* every count recorded in the trace of [stv] is the totals of a reachable allocation satisfying the invariant
   (or the elect-all-remaining shortcut, which records no allocation: []) *)
Theorem C03_resting_every_recorded_count : forall cf votes n_seats prev caps e,
  In e (t_counts (stv cf votes n_seats prev caps)) ->
  (exists a seats qs, reach cf votes n_seats caps prev a seats qs /\ resting_ok a /\ fst e = totals a) \/ fst e = [].
Proof. intros cf votes n_seats prev caps e. exact (stv_recorded cf votes n_seats caps prev e). Qed.

(* the invariant is decidable: the checker evaluated on the explored allocations decides exactly [resting_ok]
   ([next_after b K] = the first rank of b with a candidate in K) *)
Theorem C03_resting_checker : forall a, resting_okb a = true <-> resting_ok a.
Proof. exact resting_okb_spec. Qed.

(* the shared-first-rank sub-clause.  One ballot leaving for the targets T: every target receives w / |T| (cnt T c = number
   of occurrences of c in T, 1 for the distinct members of a frozenset). *)
Theorem C03_move_ballot_equal_split : forall f a T b w c, respects f ->
  aweight f (move_ballot a T b w) (Some c)
  == aweight f a (Some c) + cnt T c * (if f b then w / inject_Z (Z.of_nat (length T)) else 0).
Proof. exact move_ballot_aweight. Qed.

(* In the initial allocation the weight held for candidate c of ANY ballot b0 (ballots identified as the pile, a dict
   keyed by the ballot, identifies them) is the sum over the cast ballots equal to b0 of: w if c is the plain first
   rank; w / |l| per occurrence of c in a shared first rank l; nothing otherwise.  Hypothesis: a shared first rank is
   not the empty set (an empty first rank is skipped to the next rank by model and implementation alike). *)
Theorem C03_shared_first_rank_split : forall votes b0 c, shared_first_nonempty votes = true ->
  aweight (ballot_eqb b0) (initial_allocation votes) (Some c)
  == fold_right (fun bw acc => (if ballot_eqb b0 (fst bw) then first_share (fst bw) (snd bw) c else 0) + acc) 0 votes.
Proof. intros votes b0 c. exact (initial_allocation_shares votes (ballot_eqb b0) c (respects_ballot b0)). Qed.

(* the same for the whole pile of c *)
Theorem C03_initial_pile_weight : forall votes c, shared_first_nonempty votes = true ->
  aweight (fun _ => true) (initial_allocation votes) (Some c)
  == fold_right (fun bw acc => first_share (fst bw) (snd bw) c + acc) 0 votes.
Proof. intros votes c. exact (initial_allocation_shares votes (fun _ => true) c respects_all). Qed.

Theorem C03_first_share_shared : forall l t w c, NoDup l ->
  first_share (IS l :: t) w c == if cmem c l then w / inject_Z (Z.of_nat (length l)) else 0.
Proof.
  intros l t w c Hn. unfold first_share. rewrite (cnt_nodup l c Hn). destruct (cmem c l); ring.
Qed.

(* non-vacuity of the hypothesis and of the split: {1,2} > 3 with weight 5 gives 5/2 to 1 and to 2 *)
Example C03_shared_first_example :
  let votes := [([IS [1%positive; 2%positive]; IP 3%positive], 5); ([IP 3%positive; IP 1%positive], 2)] in
  shared_first_nonempty votes = true /\
  initial_allocation votes =
    [(Some 1%positive, [([IS [1%positive; 2%positive]; IP 3%positive], 5 # 2)]);
     (Some 2%positive, [([IS [1%positive; 2%positive]; IP 3%positive], 5 # 2)]);
     (Some 3%positive, [([IP 3%positive; IP 1%positive], 2)])].
Proof. exact shared_first_example. Qed.

(* non-vacuity: a three-candidate count with an exhausted ballot *)
Example C03_example :
  t_seats (stv (Build_cfg (Some Model.Quota.droop) true false (-1))
    [([IP 1%positive; IP 2%positive], 5); ([IP 2%positive; IP 1%positive], 3); ([IP 3%positive], 2)] 1 []
    [(1%positive, 1%Z); (2%positive, 1%Z); (3%positive, 1%Z)]) = [(1%positive, 1%Z)].
Proof. vm_compute. reflexivity. Qed.

Print Assumptions C03_conservation_every_count.
Print Assumptions C03_transfer_conserves.
Print Assumptions C03_initial_allocation.
Print Assumptions C03_nonneg_transfer.
Print Assumptions C03_nonneg_subtract.
Print Assumptions C03_election_rule.
Print Assumptions C03_targets_continuing.
Print Assumptions C03_elimination_step.
Print Assumptions C03_elimination_count.
Print Assumptions C03_elimination_configured.
Print Assumptions C03_elimination_lowest.
Print Assumptions C03_pile_not_a_contender.
Print Assumptions C03_resting_initial.
Print Assumptions C03_resting_transfer.
Print Assumptions C03_transfer_keys_shrink.
Print Assumptions C03_resting_subtract.
Print Assumptions C03_resting_next_count.
Print Assumptions C03_resting_every_count.
Print Assumptions C03_resting_every_recorded_count.
Print Assumptions C03_resting_checker.
Print Assumptions C03_move_ballot_equal_split.
Print Assumptions C03_shared_first_rank_split.
Print Assumptions C03_initial_pile_weight.
Print Assumptions C03_first_share_shared.
