(* C03 - Transferable-vote counts conserve votes and eliminate only the lowest.
   Property theorems only.  Model: Model/STV.v (Gregory transfers); proofs: Proofs/STV_proofs.v.

   [reach] is the set of states (allocation, seats so far, seats filled by quota so far)
   the count loop of nth_count passes through - for ANY profile (truncated ballots, shared
   ranks, empty ballots), any seat count, caps (selector form = all caps 1, distributor
   form = any caps), quota function with positive values, accept_quota_equal,
   mandatory_quota, eliminate_step.  asum = all weight held (continuing + exhausted). *)
From Coq Require Import ZArith QArith Qround List.
From VL Require Import Prelude.PyDict Model.GetNBest Model.Convert Model.STV Proofs.STV_proofs Proofs.STV_elim_proofs
     Proofs.STV_resting_proofs.
From VL Require Import Model.STVHare Proofs.STVHare_draws_proofs Proofs.STVHare_proofs Proofs.STVHare_count_proofs.
Import ListNotations.
Open Scope Q_scope.

(* I1 at EVERY count: votes held + one quota per seat filled by quota = votes cast (exactly) *)
Theorem C03_conservation_every_count :
  forall cf votes n_seats caps prev0,
  (forall c, (0 <= dget_or prev0 c 0)%Z) ->
  let total := Qred (fold_left Qplus (map snd votes) 0) in
  (forall qv, quota_of cf total n_seats = Some qv -> 0 < qv) ->
  forall a seats qs, reach cf votes n_seats caps prev0 a seats qs ->
    NoDup (akeys a) /\ (forall c, (0 <= dget_or seats c 0)%Z) /\
    match quota_of cf total n_seats with
    | Some qv => asum a + inject_Z qs * qv == cast votes
    | None => asum a == cast votes /\ qs = 0%Z
    end.
Proof. intros cf votes n_seats caps prev0 H0 total Hq. exact (reach_conservation cf votes n_seats caps prev0 H0 Hq). Qed.

(* the two moves of a count, separately *)
Theorem C03_transfer_conserves : forall a elim, NoDup (akeys a) ->
  asum (transfer a elim) == asum a /\ NoDup (akeys (transfer a elim)).
Proof. exact transfer_conserves. Qed.

Theorem C03_initial_allocation : forall votes,
  NoDup (akeys (initial_allocation votes)) /\ asum (initial_allocation votes) == cast votes.
Proof. exact initial_allocation_conserves. Qed.

(* I2: no ballot weight ever becomes negative *)
Theorem C03_nonneg_transfer : forall a elim, alloc_nonneg a -> alloc_nonneg (transfer a elim).
Proof. exact transfer_nonneg. Qed.
Theorem C03_nonneg_subtract : forall elected a a', alloc_nonneg a ->
  (forall c amt, In (c, amt) elected -> 0 <= amt) -> subtract a elected = Some a' -> alloc_nonneg a'.
Proof. exact subtract_nonneg. Qed.

(* election rule: whoever is elected in a count by quota holds at least one quota per seat
   received, and receives at least one seat; distinct candidates *)
Theorem C03_election_rule : forall cf q, 0 < q -> forall a n_rem prev caps el,
  NoDup (akeys a) -> (forall c, (0 <= dget_or prev c 0)%Z) ->
  elect_by_quota cf (totals a) (Some q) n_rem prev caps = inl (Some el) ->
  NoDup (map fst el) /\
  forall c s, In (c, s) el -> (0 < s)%Z /\ exists p, alloc_get a (Some c) = Some p /\ inject_Z s * q <= wsum p.
Proof. exact elect_by_quota_sound. Qed.

(* elimination rule.  When the shortcut does not apply and nobody reaches the quota, next_count refuses with
   NotImplementedError on a tie at the cut and otherwise transfers away exactly the candidates [eliminated cf a]:
   - their number is the number of continuing candidates minus the retained count (for eliminate_step = -s:
     min(s, continuing - 1));
   - nobody eliminated holds strictly more than somebody retained;
   - only continuing candidates are ranked: the exhausted pile (key None) is not among the contenders, whatever it holds. *)
Theorem C03_elimination_step : forall cf a n total prev caps quota,
  next_count cf a n total prev caps <> CR_all (flat_map (fun kt : option C * Q => match fst kt with
                                         | Some c => [(c, (dget_or caps c 0 - dget_or prev c 0)%Z)]
                                         | None => [] end) (sort_desc Qle_bool (totals a))) ->
  quota = match c_quota cf with
          | Some qf => if Qeq_bool total 0 || (n =? 0)%Z then None else Some (qf total n)
          | None => None end ->
  elect_by_quota cf (totals a) quota (n - zsum (map snd prev))%Z prev caps = inl None ->
  next_count cf a n total prev caps =
    if has_tie_r (retained cf a) then CR_stop S_nie
    else CR_next (match eliminated cf a with [] => a | _ => transfer a (eliminated cf a) end) [].
Proof. exact next_count_noquota. Qed.

Theorem C03_elimination_count : forall cf a, NoDup (map fst (in_play a)) -> has_tie_r (retained cf a) = false ->
  (1 <= retained_count cf (length (in_play a)) <= length (in_play a))%nat ->
  length (eliminated cf a) = (length (in_play a) - retained_count cf (length (in_play a)))%nat.
Proof. exact eliminated_count. Qed.

Theorem C03_elimination_configured : forall cf m, (c_step cf < 0)%Z -> (1 <= m)%nat ->
  (1 <= retained_count cf m <= m)%nat /\ (m - retained_count cf m = Nat.min (Z.to_nat (- c_step cf)) (m - 1))%nat.
Proof. exact retained_count_neg. Qed.

Theorem C03_elimination_lowest : forall cf a, NoDup (map fst (in_play a)) ->
  (1 <= retained_count cf (length (in_play a)) <= length (in_play a))%nat ->
  forall e ve c vc, In e (eliminated cf a) -> In (e, ve) (in_play a) ->
    In (Cand c) (retained cf a) -> In (c, vc) (in_play a) -> ve <= vc.
Proof. intros cf a Hnd Hk. exact (eliminated_lowest cf a Hnd Hk). Qed.

Theorem C03_pile_not_a_contender : forall a c v, In (c, v) (in_play a) -> exists p, In (Some c, p) a.
Proof. exact in_play_no_pile. Qed.

(* a transferred ballot goes only to candidates still in the count *)
Theorem C03_targets_continuing : forall vote cand allowed, incl (ranked_next vote cand allowed) allowed.
Proof. exact ranked_next_allowed. Qed.

(* ---------------------------------------------------------------- I3: the resting place of every ballot, at every count.
   [resting_ok a]: for every pile (k, p) of the allocation and every ballot b in it without shared ranks
   ([plainb b = true], whatever its weight): if k = Some c then c is the highest-ranked candidate of b that is a key of
   the allocation ([highest_continuing (keys_some a) b c]: b = pre ++ IP c :: post, no candidate of pre is a key);
   if k = None (exhausted pile) then no candidate of b is a key ([none_continuing]).  Keys = the candidates still in the
   count; an elected candidate that may still gain seats keeps its pile and stays a key.  No hypothesis on the
   ballots (repeated candidates allowed), the weights, the caps or the configuration. *)
Theorem C03_resting_initial : forall votes, resting_ok (initial_allocation votes).
Proof. exact initial_resting. Qed.

Theorem C03_resting_transfer : forall a elim, resting_ok a -> resting_ok (transfer a elim).
Proof. exact transfer_resting. Qed.

(* the keys only shrink in a transfer: what is left are keys of before outside the removed candidates *)
Theorem C03_transfer_keys_shrink : forall a elim,
  incl (keys_some (transfer a elim)) (filter (fun c => negb (cmem c elim)) (keys_some a)).
Proof. exact transfer_keys_shrink. Qed.

(* Gregory reweighting (surplus subtraction) keeps every ballot where it is *)
Theorem C03_resting_subtract : forall elected a a', resting_ok a -> subtract a elected = Some a' -> resting_ok a'.
Proof. exact subtract_resting. Qed.

Theorem C03_resting_next_count : forall cf a n_seats total prev caps a' el,
  resting_ok a -> next_count cf a n_seats total prev caps = CR_next a' el -> resting_ok a'.
Proof. exact next_count_resting. Qed.

(* at EVERY count of every run (the states of [reach], as for conservation), spelled out *)
Theorem C03_resting_every_count :
  forall cf votes n_seats caps prev0 a seats qs, reach cf votes n_seats caps prev0 a seats qs ->
  forall k p b w, In (k, p) a -> In (b, w) p -> plainb b = true ->
    match k with
    | Some c => exists pre post, b = pre ++ IP c :: post /\ In c (keys_some a) /\
                                 forall x, In (IP x) pre -> ~ In x (keys_some a)
    | None => forall x, In (IP x) b -> ~ In x (keys_some a)
    end.
Proof.
  intros cf votes n_seats caps prev0 a seats qs Hr k p b w Hk Hb Hp.
  pose proof (reach_resting cf votes n_seats caps prev0 a seats qs Hr k p b w Hk Hb Hp) as H.
  destruct k as [c|]; exact H.
Qed.

(* every count recorded in the trace of [stv] is the totals of a reachable allocation satisfying the invariant
   (or the elect-all-remaining shortcut, which records no allocation: []) *)
Theorem C03_resting_every_recorded_count : forall cf votes n_seats prev caps e,
  In e (t_counts (stv cf votes n_seats prev caps)) ->
  (exists a seats qs, reach cf votes n_seats caps prev a seats qs /\ resting_ok a /\ fst e = totals a) \/ fst e = [].
Proof. intros cf votes n_seats prev caps e. exact (stv_recorded cf votes n_seats caps prev e). Qed.

(* the invariant is decidable: the checker evaluated on the explored allocations decides exactly [resting_ok]
   ([next_after b K] = the first rank of b with a candidate in K) *)
Theorem C03_resting_checker : forall a, resting_okb a = true <-> resting_ok a.
Proof. exact resting_okb_spec. Qed.

(* the shared-first-rank sub-clause.  One ballot leaving for the targets T: every target receives w / |T| (cnt T c = number
   of occurrences of c in T, 1 for the distinct members of a frozenset). *)
Theorem C03_move_ballot_equal_split : forall f a T b w c, respects f ->
  aweight f (move_ballot a T b w) (Some c)
  == aweight f a (Some c) + cnt T c * (if f b then w / inject_Z (Z.of_nat (length T)) else 0).
Proof. exact move_ballot_aweight. Qed.

(* In the initial allocation the weight held for candidate c of ANY ballot b0 (ballots identified as the pile, a dict
   keyed by the ballot, identifies them) is the sum over the cast ballots equal to b0 of: w if c is the plain first
   rank; w / |l| per occurrence of c in a shared first rank l; nothing otherwise.  Hypothesis: a shared first rank is
   not the empty set (an empty first rank is skipped to the next rank by model and implementation alike). *)
Theorem C03_shared_first_rank_split : forall votes b0 c, shared_first_nonempty votes = true ->
  aweight (ballot_eqb b0) (initial_allocation votes) (Some c)
  == fold_right (fun bw acc => (if ballot_eqb b0 (fst bw) then first_share (fst bw) (snd bw) c else 0) + acc) 0 votes.
Proof. intros votes b0 c. exact (initial_allocation_shares votes (ballot_eqb b0) c (respects_ballot b0)). Qed.

(* the same for the whole pile of c *)
Theorem C03_initial_pile_weight : forall votes c, shared_first_nonempty votes = true ->
  aweight (fun _ => true) (initial_allocation votes) (Some c)
  == fold_right (fun bw acc => first_share (fst bw) (snd bw) c + acc) 0 votes.
Proof. intros votes c. exact (initial_allocation_shares votes (fun _ => true) c respects_all). Qed.

Theorem C03_first_share_shared : forall l t w c, NoDup l ->
  first_share (IS l :: t) w c == if cmem c l then w / inject_Z (Z.of_nat (length l)) else 0.
Proof.
  intros l t w c Hn. unfold first_share. rewrite (cnt_nodup l c Hn). destruct (cmem c l); ring.
Qed.

(* non-vacuity of the hypothesis and of the split: {1,2} > 3 with weight 5 gives 5/2 to 1 and to 2 *)
Example C03_shared_first_example :
  let votes := [([IS [1%positive; 2%positive]; IP 3%positive], 5); ([IP 3%positive; IP 1%positive], 2)] in
  shared_first_nonempty votes = true /\
  initial_allocation votes =
    [(Some 1%positive, [([IS [1%positive; 2%positive]; IP 3%positive], 5 # 2)]);
     (Some 2%positive, [([IS [1%positive; 2%positive]; IP 3%positive], 5 # 2)]);
     (Some 3%positive, [([IP 3%positive; IP 1%positive], 2)])].
Proof. exact shared_first_example. Qed.

(* non-vacuity: a three-candidate count with an exhausted ballot *)
Example C03_example :
  t_seats (stv (Build_cfg (Some Model.Quota.droop) true false (-1))
    [([IP 1%positive; IP 2%positive], 5); ([IP 2%positive; IP 1%positive], 3); ([IP 3%positive], 2)] 1 []
    [(1%positive, 1%Z); (2%positive, 1%Z); (3%positive, 1%Z)]) = [(1%positive, 1%Z)].
Proof. vm_compute. reflexivity. Qed.

(* ================================================================ the Hare (random, whole-ballot) transferer
   Model: Model/STVHare.v.  The random draws of Hare._subtract / Hare._distribute_equal_ranking are an ORACLE argument
   [orc : oracle] (one list of integers per call of random.sample, consumed in call order); the theorems quantify over
   EVERY oracle - nothing is assumed about the generator or the seed.  An entry that random.sample(range(N), k) cannot
   return, or a missing entry, stops the count with HS_oracle.
   [reach_h cf votes n caps prev0 orc a seats qs o]: the states (allocation, seats, seats filled by quota, rest of the
   oracle) the count loop passes through when the transferer is Hare. *)

(* I1 at EVERY count, for every oracle: votes held + one quota per seat filled by quota = votes cast (exactly) *)
Theorem C03_hare_conservation_every_count :
  forall cf votes n_seats caps prev0 (orc : oracle),
  (forall c, (0 <= dget_or prev0 c 0)%Z) ->
  let total := Qred (fold_left Qplus (map snd votes) 0) in
  (forall qv, quota_of cf total n_seats = Some qv -> 0 < qv) ->
  forall a seats qs o, reach_h cf votes n_seats caps prev0 orc a seats qs o ->
    NoDup (akeys a) /\ (forall c, (0 <= dget_or seats c 0)%Z) /\
    match quota_of cf total n_seats with
    | Some qv => asum a + inject_Z qs * qv == cast votes
    | None => asum a == cast votes /\ qs = 0%Z
    end.
Proof. intros cf votes n_seats caps prev0 orc H0 total Hq. exact (reach_h_conservation cf votes n_seats caps prev0 orc H0 Hq). Qed.

(* I2 and whole ballots: from whole non-negative vote counts every weight of every reachable allocation is a
   non-negative WHOLE number - Hare never produces a fraction of a ballot, whatever is drawn *)
Theorem C03_hare_whole_weights_every_count :
  forall cf votes n_seats caps prev0 (orc : oracle), votes_whole votes ->
  forall a seats qs o, reach_h cf votes n_seats caps prev0 orc a seats qs o ->
  forall k p b w, In (k, p) a -> In (b, w) p -> 0 <= w /\ w == inject_Z (Qfloor w).
Proof.
  intros cf votes n_seats caps prev0 orc Hv a seats qs o Hr k p b w Hk Hb.
  pose proof (reach_h_whole cf votes n_seats caps prev0 orc a seats qs o Hv Hr) as Hw.
  unfold alloc_whole in Hw. rewrite Forall_forall in Hw. specialize (Hw (k, p) Hk). unfold pile_whole in Hw.
  rewrite Forall_forall in Hw. specialize (Hw (b, w) Hb). cbn [snd] in Hw.
  split; [apply whole_nonneg_ge0, Hw|]. apply whole_nonneg_spec in Hw. tauto.
Qed.

(* I3 at EVERY count, for every oracle: a ballot without shared ranks rests with its highest-ranked continuing
   candidate, or in the exhausted pile only when none continues - the drawn ballots leave, nothing else moves *)
Theorem C03_hare_resting_every_count :
  forall cf votes n_seats caps prev0 (orc : oracle) a seats qs o, reach_h cf votes n_seats caps prev0 orc a seats qs o ->
  forall k p b w, In (k, p) a -> In (b, w) p -> plainb b = true ->
    match k with
    | Some c => exists pre post, b = pre ++ IP c :: post /\ In c (keys_some a) /\
                                 forall x, In (IP x) pre -> ~ In x (keys_some a)
    | None => forall x, In (IP x) b -> ~ In x (keys_some a)
    end.
Proof.
  intros cf votes n_seats caps prev0 orc a seats qs o Hr k p b w Hk Hb Hp.
  pose proof (reach_h_resting cf votes n_seats caps prev0 orc a seats qs o Hr k p b w Hk Hb Hp) as H.
  destruct k as [c|]; exact H.
Qed.

(* the initial allocation (a shared first rank is split by the transferer: whole shares, the remainder drawn) *)
Theorem C03_hare_initial_allocation : forall votes (orc : oracle) a o, initial_allocation_h votes orc = HOk a o ->
  NoDup (akeys a) /\ asum a == cast votes /\ (votes_whole votes -> alloc_whole a) /\ resting_ok a.
Proof. exact initial_allocation_h_spec. Qed.

(* Hare._subtract, which individual ballots leave the pile of an elected candidate: the oracle entry is a sample of
   exactly n distinct numbers below the (whole) weight of the pile; the pile loses exactly n; what is left are ballots
   of before, in whole non-negative weights *)
Theorem C03_hare_subtract_draw : forall p n (orc : oracle) p' o', hare_subtract p n orc = HOk p' o' ->
  pile_whole p /\ pile_whole p' /\ wsum p' == wsum p - n /\ 0 <= n /\ n <= wsum p /\
  (exists ds, orc = ds :: o' /\ draws_ok ds (Qfloor n) (pile_total p) = true /\ p' = hare_sub_pile p 0 ds) /\
  (forall b w, In (b, w) p' -> exists w0, In (b, w0) p).
Proof. exact hare_subtract_spec. Qed.

(* a ballot can be drawn at most as often as it weighs: at most hi - lo distinct draws fall into [lo, hi) *)
Theorem C03_hare_draws_bounded : forall ds lo hi, nodupb ds = true -> (lo <= hi)%Z -> (cnt_in ds lo hi <= hi - lo)%Z.
Proof. exact cnt_in_le. Qed.

(* Hare._distribute_equal_ranking: the shares of a ballot over a shared rank go to its targets only, add up to the
   weight of the ballot exactly, and are whole non-negative numbers *)
Theorem C03_hare_shared_rank_split : forall T w (orc : oracle) shares o', hare_split T w orc = HOk shares o' ->
  ssum shares == w /\ (forall t s, In (t, s) shares -> In t T) /\
  (whole_nonneg w = true -> forall t s, In (t, s) shares -> whole_nonneg s = true).
Proof. exact hare_split_spec. Qed.

(* the two moves of a count *)
Theorem C03_hare_transfer : forall a elim (orc : oracle) a' o', NoDup (akeys a) -> resting_ok a ->
  transfer_h a elim orc = HOk a' o' ->
  asum a' == asum a /\ NoDup (akeys a') /\ resting_ok a' /\ (alloc_whole a -> alloc_whole a') /\
  incl (keys_some a') (filter (fun c => negb (cmem c elim)) (keys_some a)).
Proof.
  intros a elim orc a' o' Hn Hr Ht. destruct (transfer_h_conserves a elim orc a' o' Hn Ht) as [H1 H2].
  split; [exact H1|]. split; [exact H2|]. split; [exact (transfer_h_resting _ _ _ _ _ Hr Ht)|].
  split; [intros Hw; exact (transfer_h_whole _ _ _ _ _ Hw Ht)|exact (transfer_h_keys_shrink _ _ _ _ _ Hr Ht)].
Qed.

Theorem C03_hare_subtract : forall elected a (orc : oracle) a' o', NoDup (akeys a) -> NoDup (map fst elected) ->
  subtract_h a elected orc = HOk a' o' ->
  asum a' == asum a - fold_right (fun ca acc => snd ca + acc) 0 elected /\ akeys a' = akeys a /\
  (resting_ok a -> resting_ok a') /\ (alloc_whole a -> alloc_whole a').
Proof.
  intros elected a orc a' o' Hn Hd Hs. destruct (subtract_h_conserves elected a orc a' o' Hn Hd Hs) as [H1 H2].
  split; [exact H1|]. split; [exact H2|]. split; [intros Hr; exact (subtract_h_resting _ _ _ _ _ Hr Hs)|].
  intros Hw. exact (subtract_h_whole _ _ _ _ _ Hw Hs).
Qed.

(* election rule: whoever is elected in a count holds (before the draw) at least one quota per seat received and
   receives at least one seat; distinct candidates; without a quota nobody is elected in a count *)
Theorem C03_hare_election_rule : forall cf a n_seats total prev caps (orc : oracle) a' el o',
  NoDup (akeys a) -> (forall c, (0 <= dget_or prev c 0)%Z) ->
  (forall qv, quota_of cf total n_seats = Some qv -> 0 < qv) ->
  next_count_h cf a n_seats total prev caps orc = HC_next a' el o' ->
  NoDup (map fst el) /\
  forall c s, In (c, s) el -> (0 < s)%Z /\
    exists qv p, quota_of cf total n_seats = Some qv /\ alloc_get a (Some c) = Some p /\ inject_Z s * qv <= wsum p.
Proof. exact next_count_h_election. Qed.

(* ... or by being among the last standing: the elect-all-remaining shortcut does not look at the transferer; it fires
   exactly when Gregory's does and fills exactly the open seats *)
Theorem C03_hare_last_standing : forall cf a n total seats caps (orc : oracle) el,
  next_count_h cf a n total seats caps orc = HC_all el ->
  next_count cf a n total seats caps = CR_all el /\ seats_sum el = (n - zsum (map snd seats))%Z.
Proof.
  intros cf a n total seats caps orc el H. pose proof (next_count_h_all_eq _ _ _ _ _ _ _ _ H) as H1.
  split; [exact H1|exact (next_count_all _ _ _ _ _ _ _ H1)].
Qed.

(* elimination rule: when the shortcut does not apply and nobody reaches the quota, the count refuses a tie at the cut
   and otherwise transfers away exactly [eliminated cf a] - the same candidates as under Gregory: their number
   (C03_elimination_count / _configured), their being the lowest (C03_elimination_lowest) and the exhausted pile not
   being a contender (C03_pile_not_a_contender) are theorems about any allocation *)
Theorem C03_hare_elimination_step : forall cf a n total prev caps (orc : oracle) quota,
  next_count_h cf a n total prev caps orc <> HC_all (flat_map (fun kt : option C * Q => match fst kt with
                                         | Some c => [(c, (dget_or caps c 0 - dget_or prev c 0)%Z)]
                                         | None => [] end) (sort_desc Qle_bool (totals a))) ->
  quota = match c_quota cf with
          | Some qf => if Qeq_bool total 0 || (n =? 0)%Z then None else Some (qf total n)
          | None => None end ->
  elect_by_quota cf (totals a) quota (n - zsum (map snd prev))%Z prev caps = inl None ->
  next_count_h cf a n total prev caps orc =
    if has_tie_r (retained cf a) then HC_stop (HS_std S_nie)
    else match eliminated cf a with
         | [] => HC_next a [] orc
         | _ => lift_h (transfer_h a (eliminated cf a) orc) []
         end.
Proof. exact next_count_h_noquota. Qed.

(* how a count can end otherwise: with whole non-negative weights it never leaves the modelled domain
   (HS_unmodelled), never draws more than a pile holds (ValueError) and never misses a pile (KeyError) - it refuses a
   tie, meets a fractional number of ballots to draw (TypeError: seats * quota is not a whole number) or rejects the
   oracle *)
Theorem C03_hare_count_stops : forall cf a n_seats total prev caps (orc : oracle) s,
  NoDup (akeys a) -> alloc_whole a -> (forall c, (0 <= dget_or prev c 0)%Z) ->
  (forall qv, quota_of cf total n_seats = Some qv -> 0 < qv) ->
  next_count_h cf a n_seats total prev caps orc = HC_stop s ->
  s = HS_std S_nie \/ s = HS_oracle \/
  (s = HS_type /\ exists qv k, quota_of cf total n_seats = Some qv /\ (0 < k)%Z /\ is_int (inject_Z k * qv) = false).
Proof. exact next_count_h_stops. Qed.

(* the trace of stv_h (what the correspondence stream compares with nth_count / next_count): every recorded count is
   the elect-all-remaining shortcut (no allocation) or a reachable allocation - so it satisfies the invariants above -
   and the run stops only for a tie, the infinite-loop refusal, a fractional draw or a rejected oracle *)
Theorem C03_hare_every_recorded_count : forall cf votes n_seats prev caps (orc : oracle) e,
  (forall c, (0 <= dget_or prev c 0)%Z) ->
  let total := Qred (fold_left Qplus (map snd votes) 0) in
  (forall qv, quota_of cf total n_seats = Some qv -> 0 < qv) ->
  In e (h_counts (stv_h cf votes n_seats prev caps orc)) ->
  fst e = [] \/
  (NoDup (akeys (fst e)) /\ resting_ok (fst e) /\ (votes_whole votes -> alloc_whole (fst e)) /\
   exists qs, match quota_of cf total n_seats with
              | Some qv => asum (fst e) + inject_Z qs * qv == cast votes
              | None => asum (fst e) == cast votes /\ qs = 0%Z
              end).
Proof.
  intros cf votes n_seats prev caps orc e H0 total Hq He.
  destruct (stv_h_recorded cf votes n_seats caps prev orc e He) as [(seats & qs & o & Hr)|Hn]; [right|left; exact Hn].
  destruct (reach_h_conservation cf votes n_seats caps prev orc H0 Hq _ _ _ _ Hr) as (C1 & _ & C3).
  split; [exact C1|]. split; [exact (reach_h_resting _ _ _ _ _ _ _ _ _ _ Hr)|].
  split; [intros Hv; exact (reach_h_whole _ _ _ _ _ _ _ _ _ _ Hv Hr)|exists qs; exact C3].
Qed.

Theorem C03_hare_trace_stops : forall cf votes n_seats prev caps (orc : oracle),
  (forall c, (0 <= dget_or prev c 0)%Z) ->
  (forall qv, quota_of cf (Qred (fold_left Qplus (map snd votes) 0)) n_seats = Some qv -> 0 < qv) ->
  votes_whole votes ->
  match h_stop (stv_h cf votes n_seats prev caps orc) with
  | None | Some (HS_std S_nie) | Some (HS_std S_vse) | Some (HS_std S_fuel) | Some HS_oracle | Some HS_type => True
  | _ => False
  end.
Proof. intros cf votes n_seats prev caps orc H0 Hq Hv. exact (stv_h_stop cf votes n_seats caps prev orc H0 Hq Hv). Qed.

(* non-vacuity: 13 whole votes, a shared first rank {1,2} of weight 3, two seats, Droop quota 5.
   Oracle: [0] gives the odd vote of the shared rank to candidate 1; [0;3;4;1;6] draws 5 of the 7 votes of candidate 1
   (four of its own ballot, one of the shared one); [0;1;2;3;4] draws all 5 votes of candidate 2.  The count ends
   normally and consumed every entry.  The same count with a repeated number in the second entry is rejected. *)
Definition hare_ex_votes : list (ballot * Q) :=
  [([IP 1%positive; IP 2%positive], 5); ([IP 2%positive; IP 1%positive], 3); ([IP 3%positive; IP 1%positive], 2);
   ([IS [1%positive; 2%positive]; IP 3%positive], 3)].
Definition hare_ex_caps : list (C * Z) := [(1%positive, 1%Z); (2%positive, 1%Z); (3%positive, 1%Z)].
Example C03_hare_example :
  let t := stv_h (Build_cfg (Some Model.Quota.droop) true false (-1)) hare_ex_votes 2 [] hare_ex_caps
                 [[0%Z]; [0%Z; 3%Z; 4%Z; 1%Z; 6%Z]; [0%Z; 1%Z; 2%Z; 3%Z; 4%Z]] in
  votes_wholeb hare_ex_votes = true /\
  h_seats t = [(1%positive, 1%Z); (2%positive, 1%Z)] /\ h_stop t = None /\ h_left t = 0%nat /\
  map (fun e => totals (fst e)) (h_counts t) =
    [[(Some 2%positive, 5); (Some 3%positive, 3)]; [(Some 3%positive, 3)]] /\
  h_stop (stv_h (Build_cfg (Some Model.Quota.droop) true false (-1)) hare_ex_votes 2 [] hare_ex_caps
                [[0%Z]; [0%Z; 3%Z; 3%Z; 1%Z; 6%Z]; [0%Z; 1%Z; 2%Z; 3%Z; 4%Z]]) = Some HS_oracle.
Proof. vm_compute. repeat split; reflexivity. Qed.

Print Assumptions C03_conservation_every_count.
Print Assumptions C03_transfer_conserves.
Print Assumptions C03_initial_allocation.
Print Assumptions C03_nonneg_transfer.
Print Assumptions C03_nonneg_subtract.
Print Assumptions C03_election_rule.
Print Assumptions C03_targets_continuing.
Print Assumptions C03_elimination_step.
Print Assumptions C03_elimination_count.
Print Assumptions C03_elimination_configured.
Print Assumptions C03_elimination_lowest.
Print Assumptions C03_pile_not_a_contender.
Print Assumptions C03_resting_initial.
Print Assumptions C03_resting_transfer.
Print Assumptions C03_transfer_keys_shrink.
Print Assumptions C03_resting_subtract.
Print Assumptions C03_resting_next_count.
Print Assumptions C03_resting_every_count.
Print Assumptions C03_resting_every_recorded_count.
Print Assumptions C03_resting_checker.
Print Assumptions C03_move_ballot_equal_split.
Print Assumptions C03_shared_first_rank_split.
Print Assumptions C03_initial_pile_weight.
Print Assumptions C03_first_share_shared.
Print Assumptions C03_hare_conservation_every_count.
Print Assumptions C03_hare_whole_weights_every_count.
Print Assumptions C03_hare_resting_every_count.
Print Assumptions C03_hare_initial_allocation.
Print Assumptions C03_hare_subtract_draw.
Print Assumptions C03_hare_draws_bounded.
Print Assumptions C03_hare_shared_rank_split.
Print Assumptions C03_hare_transfer.
Print Assumptions C03_hare_subtract.
Print Assumptions C03_hare_election_rule.
Print Assumptions C03_hare_last_standing.
Print Assumptions C03_hare_elimination_step.
Print Assumptions C03_hare_count_stops.
Print Assumptions C03_hare_every_recorded_count.
Print Assumptions C03_hare_trace_stops.
