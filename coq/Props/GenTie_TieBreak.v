(* Generated-vs-handwritten tie for ListOrderTieBreaker / Tie.break_by_list (C16): votelib/evaluate/core.py Tie.any and
   Tie.break_by_list and votelib/evaluate/openlist.py ListOrderTieBreaker.evaluate, regenerated from the source on every run as
   WHOLE BODIES (Gen/TieBreak.v: the loop over the selection as a fold whose state is (broken, ties) or the exception raised, the
   dictionary keyed by the tie objects, ties[item][0] with its IndexError, sorted(item, key=breaker.index) with its ValueError,
   the slices, del), ARE [break_by_list] of Model/Threshold.v that the C16_break_by_list* theorems (Props/C16.v) are about:

     tie_break_by_list_total   for EVERY selection and breaker list the generated function is [bl_run] - the model's loop with
                               the ValueError of a tie member missing from the breaker list as a result
     tie_break_by_list         every tie inside the breaker list (the hypothesis [incl t lst] the model needs):
                               generated = break_by_list elected breaker [] []  (BL_index = IndexError)
     gen_break_by_list_value_error   outside that hypothesis: the first tie with a member missing from the breaker list, met for the
                               first time after a prefix that raised nothing, raises ValueError
     tie_tie_any, tie_list_order_tie_breaker   ListOrderTieBreaker.evaluate = the inner selection when it holds no tie, else
                               break_by_list of it

   The loop body of the generated code is only used through its pointwise behaviour (bl_step_tac), the sort through its
   characterisation (py_sort_by_index_spec). *)
From Coq Require Import ZArith QArith List Bool Lia Arith.
From VL Require Import Prelude.PyDict Prelude.PyNum Prelude.PyList Prelude.PySeq Prelude.PyTie Model.GetNBest Model.Threshold
     Proofs.PySeq_proofs Proofs.Threshold_proofs Proofs.TieBreak2_proofs Proofs.PyTie_proofs.
From VL Require Gen.TieBreak.
Import ListNotations.
Close Scope Q_scope.

(* ---- the dictionary keyed by ties is the model's association list *)
Lemma tdict_get_lookup ties t : py_tdict_get ties t = tie_lookup ties t.
Proof. induction ties as [|[k v] r IH]; cbn [py_tdict_get tie_lookup]; [reflexivity|]. rewrite IH. reflexivity. Qed.
Lemma tdict_mem_lookup ties t : py_tdict_mem ties t = match tie_lookup ties t with Some _ => true | None => false end.
Proof. unfold py_tdict_mem. rewrite tdict_get_lookup. reflexivity. Qed.
Lemma tdict_set_update ties t v : py_tdict_set ties t v = tie_update ties t (Some v).
Proof. induction ties as [|[k v0] r IH]; cbn [py_tdict_set tie_update]; [reflexivity|]. rewrite IH. reflexivity. Qed.
Lemma tdict_del_update ties t : tie_lookup ties t <> None -> py_tdict_del ties t = Some (tie_update ties t None).
Proof.
  induction ties as [|[k v0] r IH]; cbn [py_tdict_del tie_lookup tie_update]; [congruence|].
  change (py_set_eqb k t) with (same_set k t). destruct (same_set k t); [reflexivity|]. intros H. rewrite (IH H). reflexivity.
Qed.

(* ---- the loop: one iteration of the model (with the ValueError as a result), and the run *)
Definition tdict := list (list C * list C).
Definition bl_step (lst : list C) (st : list C * tdict) (it : res C) : (list C * tdict) + pyexn :=
  match it with
  | Cand c => inl (fst st ++ [c], snd st)
  | TieR t =>
      match tie_lookup (snd st) t with
      | Some (x :: rest) => inl (fst st ++ [x], tie_update (snd st) t (match rest with [] => None | _ => Some rest end))
      | Some [] => inr PyIndexError
      | None =>
          if forallb (fun c => cmem c lst) t then
            match sort_by_list lst t with
            | x :: rest => inl (fst st ++ [x], tie_update (snd st) t (Some rest))
            | [] => inr PyIndexError
            end
          else inr PyValueError
      end
  end.
Definition bl_fold (lst : list C) (el : list (res C)) (s0 : (list C * tdict) + pyexn) : (list C * tdict) + pyexn :=
  fold_left (fun sr it => match sr with inr e => inr e | inl st => bl_step lst st it end) el s0.
Definition bl_proj (x : (list C * tdict) + pyexn) : list C + pyexn := match x with inl st => inl (fst st) | inr e => inr e end.
(* Tie.break_by_list for every input *)
Definition bl_run (lst : list C) (el : list (res C)) : list C + pyexn := bl_proj (bl_fold lst el (inl ([], []))).
Definition bl_sum (r : bl_result) : list C + pyexn := match r with BL_ok l => inl l | BL_index => inr PyIndexError end.

Lemma bl_fold_exn lst el e : bl_fold lst el (inr e) = inr e.
Proof. induction el as [|it el IH]; [reflexivity|]. exact IH. Qed.
Lemma bl_fold_cons lst it el st : bl_fold lst (it :: el) (inl st) = bl_fold lst el (bl_step lst st it).
Proof. reflexivity. Qed.
Lemma bl_fold_app lst a b s : bl_fold lst (a ++ b) s = bl_fold lst b (bl_fold lst a s).
Proof. unfold bl_fold. apply fold_left_app. Qed.

(* one iteration of the generated loop, pointwise, whatever its body looks like *)
Lemma py_index_0_cons {A} (x : A) l : py_index (x :: l) 0 = Some x.   Proof. reflexivity. Qed.
Lemma py_index_0_nil {A} : py_index (@nil A) 0 = None.                  Proof. reflexivity. Qed.
Lemma py_len_gt1 {A} (x y : A) l : (1 <? py_len (x :: y :: l))%Z = true.
Proof. apply Z.ltb_lt. unfold py_len. cbn [length]. lia. Qed.
Lemma py_len_one {A} (x : A) : (1 <? py_len [x])%Z = false.            Proof. reflexivity. Qed.
Lemma py_slice_from_1_cons {A} (x : A) l : py_slice_from (x :: l) 1 = l.   Proof. reflexivity. Qed.

Ltac bl_norm :=
  rewrite ?py_index_0_cons, ?py_index_0_nil, ?py_len_gt1, ?py_len_one; cbv beta iota;
  rewrite ?py_slice_from_1_cons, ?tdict_set_update.

Ltac bl_step_tac lst :=
  let acc := fresh "acc" in let ties := fresh "ties" in let e := fresh "e" in let c := fresh "c" in let t := fresh "t" in
  intros [[acc ties]|e] [c|t]; try reflexivity; unfold bl_step; cbn [fst snd];
  rewrite ?tdict_mem_lookup, ?py_sort_by_index_spec;
  repeat match goal with |- context [py_tdict_get ?a ?b] => change (py_tdict_get a b) with (tie_lookup a b) end;
  destruct (tie_lookup ties t) as [[|? [|? ?]]|] eqn:?;
  [ bl_norm; reflexivity
  | bl_norm; rewrite ?tdict_del_update by congruence; reflexivity
  | bl_norm; reflexivity
  | destruct (forallb (fun c0 => cmem c0 lst) t); [|reflexivity];
    destruct (sort_by_list lst t) as [|? ?]; bl_norm; reflexivity ].

Theorem tie_break_by_list_total : forall el lst, Gen.TieBreak.Tie_break_by_list el lst = bl_run lst el.
Proof.
  intros el lst. unfold Gen.TieBreak.Tie_break_by_list, bl_run, bl_fold.
  match goal with |- context [fold_left ?f el ?i] =>
    rewrite (fold_exn_ext f (fun sr it => match sr with inr e => inr e | inl st => bl_step lst st it end) el i ltac:(bl_step_tac lst)) end.
  destruct (fold_left _ el _) as [[acc ties]|e]; reflexivity.
Qed.
Print Assumptions tie_break_by_list_total.

(* inside the model's domain the run is the model *)
Lemma bl_fold_model lst : forall el acc ties, (forall t, In (TieR t) el -> incl t lst) ->
  bl_proj (bl_fold lst el (inl (acc, ties))) = bl_sum (break_by_list el lst ties acc).
Proof.
  induction el as [|[c|t] el IH]; intros acc ties H.
  - reflexivity.
  - rewrite bl_fold_cons. cbn [bl_step break_by_list fst snd]. apply IH. intros t Ht. apply H. right. exact Ht.
  - assert (Hin : forallb (fun c => cmem c lst) t = true).
    { apply forallb_forall. intros c Hc. apply cmem_In. apply (H t (or_introl eq_refl)). exact Hc. }
    assert (H' : forall t0, In (TieR t0) el -> incl t0 lst) by (intros t0 Ht; apply H; right; exact Ht).
    rewrite bl_fold_cons. cbn [bl_step break_by_list fst snd].
    destruct (tie_lookup ties t) as [[|x rest]|].
    + rewrite bl_fold_exn. reflexivity.
    + apply IH. exact H'.
    + rewrite Hin. destruct (sort_by_list lst t) as [|x rest].
      * rewrite bl_fold_exn. reflexivity.
      * apply IH. exact H'.
Qed.

Theorem tie_break_by_list : forall el lst, (forall t, In (TieR t) el -> incl t lst) ->
  Gen.TieBreak.Tie_break_by_list el lst = bl_sum (break_by_list el lst [] []).
Proof. intros el lst H. rewrite tie_break_by_list_total. unfold bl_run. apply bl_fold_model. exact H. Qed.
Print Assumptions tie_break_by_list.

(* outside the model's domain.  The keys of the dictionary are ties already met *)
Lemma bl_fold_keys lst : forall el acc ties acc' ties', bl_fold lst el (inl (acc, ties)) = inl (acc', ties') ->
  forall k, In k (map fst ties') -> In k (map fst ties) \/ In (TieR k) el.
Proof.
  assert (U : forall ties t v k, In k (map fst (tie_update ties t v)) -> In k (map fst ties) \/ k = t).
  { induction ties as [|[k0 v0] r IH]; intros t v k; cbn [tie_update].
    - destruct v; cbn; intuition (auto; congruence).
    - destruct (same_set k0 t); [destruct v; cbn; tauto|]. cbn [map fst In]. intros [E|Hk]; [tauto|]. destruct (IH _ _ _ Hk); tauto. }
  induction el as [|it el IH]; intros acc ties acc' ties' Hf k Hk.
  - cbn in Hf. inversion Hf; subst. left. exact Hk.
  - rewrite bl_fold_cons in Hf.
    destruct (bl_step lst (acc, ties) it) as [[a1 t1]|e] eqn:Es; [|rewrite bl_fold_exn in Hf; discriminate].
    destruct (IH _ _ _ _ Hf k Hk) as [H1|H1]; [|right; right; exact H1].
    destruct it as [c|t]; cbn [bl_step fst snd] in Es.
    + inversion Es; subst. left. exact H1.
    + destruct (tie_lookup ties t) as [[|x rest]|]; try discriminate.
      * inversion Es; subst. destruct (U _ _ _ _ H1) as [H2| ->]; [left; exact H2|right; left; reflexivity].
      * destruct (forallb (fun c => cmem c lst) t); [|discriminate].
        destruct (sort_by_list lst t); [discriminate|]. inversion Es; subst.
        destruct (U _ _ _ _ H1) as [H2| ->]; [left; exact H2|right; left; reflexivity].
Qed.

Lemma tie_lookup_none ties t : (forall k, In k (map fst ties) -> same_set k t = false) -> tie_lookup ties t = None.
Proof.
  induction ties as [|[k v] r IH]; intros H; cbn [tie_lookup]; [reflexivity|].
  rewrite (H k (or_introl eq_refl)). apply IH. intros k0 Hk. apply H. right. exact Hk.
Qed.

(* a tie with a member missing from the breaker list, met for the first time (no earlier entry is the same set) after a prefix
   that raised nothing: ValueError (breaker.index) - whatever follows *)
Theorem gen_break_by_list_value_error : forall pre t post lst r,
  Gen.TieBreak.Tie_break_by_list pre lst = inl r ->
  (forall t', In (TieR t') pre -> same_set t' t = false) ->
  forallb (fun c => cmem c lst) t = false ->
  Gen.TieBreak.Tie_break_by_list (pre ++ TieR t :: post) lst = inr PyValueError.
Proof.
  intros pre t post lst r Hpre Hnew Hout. rewrite tie_break_by_list_total in *. unfold bl_run in *.
  rewrite bl_fold_app. destruct (bl_fold lst pre (inl ([], []))) as [[acc ties]|e] eqn:Ef; [|discriminate].
  assert (HL : tie_lookup ties t = None).
  { apply tie_lookup_none. intros k Hk. destruct (bl_fold_keys lst pre [] [] acc ties Ef k Hk) as [[]|H1]. apply Hnew. exact H1. }
  rewrite bl_fold_cons. cbn [bl_step fst snd]. rewrite HL, Hout. rewrite bl_fold_exn. reflexivity.
Qed.
Print Assumptions gen_break_by_list_value_error.

(* ---- Tie.any and ListOrderTieBreaker.evaluate *)
Definition has_tie (l : list (res C)) : bool := existsb (fun it => match it with TieR _ => true | Cand _ => false end) l.
Lemma tie_tie_any : forall l, Gen.TieBreak.Tie_any l = has_tie l.
Proof.
  intros l. unfold Gen.TieBreak.Tie_any, has_tie.
  induction l as [|[c|t] l IH]; cbn [existsb]; [reflexivity| |]; rewrite ?IH; reflexivity.
Qed.
Print Assumptions tie_tie_any.

Theorem tie_list_order_tie_breaker : forall evaluator votes n lst,
  (forall t, In (TieR t) (evaluator votes n) -> incl t lst) ->
  Gen.TieBreak.ListOrderTieBreaker_evaluate evaluator votes n lst =
    if has_tie (evaluator votes n)
    then match break_by_list (evaluator votes n) lst [] [] with BL_ok r => inl (map (@Cand C) r) | BL_index => inr PyIndexError end
    else inl (evaluator votes n).
Proof.
  intros evaluator votes n lst H. unfold Gen.TieBreak.ListOrderTieBreaker_evaluate. cbv zeta.
  rewrite ?tie_tie_any. destruct (has_tie (evaluator votes n)); [|reflexivity].
  rewrite (tie_break_by_list _ _ H). destruct (break_by_list (evaluator votes n) lst [] []); reflexivity.
Qed.
Print Assumptions tie_list_order_tie_breaker.

(* ---- the clauses of C16 for the tie breaker, restated of the generated function (Props/C16.v through the tie) *)
Corollary gen_C16_break_by_list : forall lst el, wf_sel lst el ->
  (forall t, In (TieR t) el -> length t = 1%nat -> (tcount (ties_of el) t <= 1)%nat) ->
  exists r, Gen.TieBreak.Tie_break_by_list el lst = inl r /\ length r = length el /\ Forall2 replaces el r /\
    (forall i c, nth_error el i = Some (Cand c) -> nth_error r i = Some c) /\
    (forall i t, nth_error el i = Some (TieR t) ->
       nth_error r i = Some (nth (occ_before el i t mod length t) (sort_by_list lst t) 1%positive)).
Proof.
  intros lst el W H1. destruct (break_by_list_defining lst el W H1) as (r & E & rest).
  exists r. split; [|exact rest]. rewrite tie_break_by_list, E; [reflexivity|]. intros t Ht. apply (W t Ht).
Qed.
Print Assumptions gen_C16_break_by_list.

Corollary gen_C16_break_by_list_distinct : forall lst el, NoDup lst -> wf_sel lst el -> shaped el ->
  exists r, Gen.TieBreak.Tie_break_by_list el lst = inl r /\ NoDup r /\ length r = length el /\
    (forall i c, nth_error el i = Some (Cand c) -> nth_error r i = Some c) /\
    (forall i t, nth_error el i = Some (TieR t) ->
       (occ_before el i t < length t)%nat /\
       nth_error r i = Some (nth (occ_before el i t) (filter (fun c => cmem c t) lst) 1%positive)).
Proof.
  intros lst el N W S. destruct (break_by_list_distinct lst el N W S) as (r & E & rest).
  exists r. split; [|exact rest]. rewrite tie_break_by_list, E; [reflexivity|]. intros t Ht. apply (W t Ht).
Qed.
Print Assumptions gen_C16_break_by_list_distinct.

Corollary gen_C16_break_by_list_index_error : forall lst el, wf_sel lst el ->
  (Gen.TieBreak.Tie_break_by_list el lst = inr PyIndexError <->
   exists t, In (TieR t) el /\ length t = 1%nat /\ (2 <= tcount (ties_of el) t)%nat).
Proof.
  intros lst el W. rewrite <- (break_by_list_index_error lst el W), tie_break_by_list by (intros t Ht; apply (W t Ht)).
  destruct (break_by_list el lst [] []); cbn [bl_sum]; split; intros H; try reflexivity; discriminate.
Qed.
Print Assumptions gen_C16_break_by_list_index_error.

Theorem GenTie_TieBreak :
  (forall el lst, Gen.TieBreak.Tie_break_by_list el lst = bl_run lst el) /\
  (forall el lst, (forall t, In (TieR t) el -> incl t lst) ->
     Gen.TieBreak.Tie_break_by_list el lst = bl_sum (break_by_list el lst [] [])) /\
  (forall l, Gen.TieBreak.Tie_any l = has_tie l) /\
  (forall evaluator votes n lst, (forall t, In (TieR t) (evaluator votes n) -> incl t lst) ->
     Gen.TieBreak.ListOrderTieBreaker_evaluate evaluator votes n lst =
       if has_tie (evaluator votes n)
       then match break_by_list (evaluator votes n) lst [] [] with BL_ok r => inl (map (@Cand C) r) | BL_index => inr PyIndexError end
       else inl (evaluator votes n)).
Proof. exact (conj tie_break_by_list_total (conj tie_break_by_list (conj tie_tie_any tie_list_order_tie_breaker))). Qed.

(* non-vacuity, on CPython values: get_n_best's [D, Tie{A,B}, Tie{A,B}] against the list B, D, A; one tie over three seats; two
   ties in one result; a one-member tie listed twice; a tie member missing from the breaker list *)
Example gen_break_by_list_examples :
  Gen.TieBreak.Tie_break_by_list [Cand 4; TieR [1; 2]; TieR [1; 2]]%positive [2; 4; 1]%positive = inl [4; 2; 1]%positive /\
  Gen.TieBreak.Tie_break_by_list [TieR [1; 2; 3; 4]; TieR [1; 2; 3; 4]; TieR [4; 3; 2; 1]]%positive [3; 1; 4; 2]%positive = inl [3; 1; 4]%positive /\
  Gen.TieBreak.Tie_break_by_list [TieR [1; 2]; TieR [3; 4]; TieR [1; 2]; Cand 5; TieR [3; 4]]%positive [4; 2; 5; 3; 1]%positive = inl [2; 4; 1; 5; 3]%positive /\
  Gen.TieBreak.Tie_break_by_list [TieR [1]; TieR [1]]%positive [2; 1]%positive = inr PyIndexError /\
  Gen.TieBreak.Tie_break_by_list [Cand 2; TieR [1; 3]]%positive [2; 1]%positive = inr PyValueError.
Proof. repeat split. Qed.

Print Assumptions GenTie_TieBreak.
