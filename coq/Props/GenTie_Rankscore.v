(* Generated-vs-handwritten tie for the rank scorers Dowdall, Geometric, ModifiedBorda, FixedTop: the per-rank
   score expressions regenerated from votelib/component/rankscore.py on every run (Gen/Rankscore.v) give exactly the
   score lists of Model/Convert.v [rank_scores] (the scorers of the positional converter, C13 / C17).
   Borda (stateful) and SequenceBased (slicing) are tied by correspondence only. *)
From Coq Require Import ZArith QArith Qpower List Lia Bool.
From VL Require Import Prelude.PyNum Model.Convert.
From VL Require Gen.Rankscore.
Import ListNotations.
Open Scope Q_scope.

Definition gen_list (f : Z -> Z -> Q) (n : nat) : list Q := map (fun r => f (Z.of_nat n) (Z.of_nat r)) (seq 0 n).

Lemma map_seq_Qeq (f g : nat -> Q) n : (forall r, f r == g r) -> Forall2 Qeq (map f (seq 0 n)) (map g (seq 0 n)).
Proof.
  intros H. generalize 0%nat as s. induction n as [|n IH]; intros s; simpl; constructor; [apply H|apply IH].
Qed.

Lemma inv_pos p : (1 # 1) / inject_Z (Z.pos p) == 1 # p.
Proof. unfold Qdiv, Qinv, inject_Z, Qmult, Qeq. cbn [Qnum Qden]. lia. Qed.

Lemma tie_dowdall n_cands n : exists l, rank_scores Dowdall n_cands n = Some l /\ Forall2 Qeq (gen_list Gen.Rankscore.Dowdall_score n) l.
Proof.
  eexists. split; [reflexivity|]. unfold gen_list. apply map_seq_Qeq. intros r.
  unfold Gen.Rankscore.Dowdall_score, py_frac.
  assert (E : inject_Z (Z.of_nat r) + (1 # 1) == inject_Z (Z.pos (Pos.of_nat (S r)))).
  { change (1 # 1) with (inject_Z 1). rewrite <- inject_Z_plus. replace (Z.of_nat r + 1)%Z with (Z.of_nat (S r)) by lia.
    rewrite <- Pos.of_nat_succ. reflexivity. }
  rewrite E. apply inv_pos.
Qed.

Lemma tie_modified_borda n_cands n : exists l, rank_scores ModifiedBorda n_cands n = Some l /\ Forall2 Qeq (gen_list Gen.Rankscore.ModifiedBorda_score n) l.
Proof.
  eexists. split; [reflexivity|]. unfold gen_list. apply map_seq_Qeq. intros r.
  unfold Gen.Rankscore.ModifiedBorda_score, Qminus. rewrite <- inject_Z_opp, <- inject_Z_plus. reflexivity.
Qed.

Lemma tie_fixed_top top n_cands n : exists l, rank_scores (FixedTop top) n_cands n = Some l /\ Forall2 Qeq (gen_list (Gen.Rankscore.FixedTop_score top) n) l.
Proof.
  eexists. split; [reflexivity|]. unfold gen_list. apply map_seq_Qeq. intros r.
  unfold Gen.Rankscore.FixedTop_score, py_max, Qminus. rewrite <- inject_Z_opp, <- inject_Z_plus.
  destruct (Qle_bool (inject_Z (top + - Z.of_nat r)) (0 # 1)) eqn:E.
  - apply Qle_bool_iff in E. change (0 # 1) with (inject_Z 0) in E. rewrite <- Zle_Qle in E.
    rewrite Z.max_r by lia. reflexivity.
  - assert (~ (inject_Z (top + - Z.of_nat r) <= inject_Z 0)) as H by (intros H; apply Qle_bool_iff in H; change (inject_Z 0) with (0 # 1) in H; congruence).
    rewrite <- Zle_Qle in H. rewrite Z.max_l by lia. replace (top - Z.of_nat r)%Z with (top + - Z.of_nat r)%Z by lia. reflexivity.
Qed.

Lemma tie_geometric base n_cands n : (0 < base)%Z ->
  exists l, rank_scores (Geometric base) n_cands n = Some l /\ Forall2 Qeq (gen_list (Gen.Rankscore.Geometric_score base) n) l.
Proof.
  intros Hb. eexists. split; [reflexivity|]. unfold gen_list. apply map_seq_Qeq. intros r.
  unfold Gen.Rankscore.Geometric_score, py_frac, py_pow.
  rewrite <- (Zpower_Qpower base (Z.of_nat r)) by lia. unfold Qdiv. rewrite Qmult_1_l. reflexivity.
Qed.

Theorem GenTie_Rankscore :
  (forall n_cands n, exists l, rank_scores Dowdall n_cands n = Some l /\ Forall2 Qeq (gen_list Gen.Rankscore.Dowdall_score n) l) /\
  (forall n_cands n, exists l, rank_scores ModifiedBorda n_cands n = Some l /\ Forall2 Qeq (gen_list Gen.Rankscore.ModifiedBorda_score n) l) /\
  (forall top n_cands n, exists l, rank_scores (FixedTop top) n_cands n = Some l /\ Forall2 Qeq (gen_list (Gen.Rankscore.FixedTop_score top) n) l) /\
  (forall base n_cands n, (0 < base)%Z -> exists l, rank_scores (Geometric base) n_cands n = Some l /\ Forall2 Qeq (gen_list (Gen.Rankscore.Geometric_score base) n) l).
Proof. exact (conj tie_dowdall (conj tie_modified_borda (conj tie_fixed_top tie_geometric))). Qed.
Print Assumptions GenTie_Rankscore.
