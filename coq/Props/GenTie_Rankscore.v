(* Generated-vs-handwritten tie for the rank scorers Dowdall, Geometric, ModifiedBorda, FixedTop: the per-rank
   score expressions regenerated from votelib/component/rankscore.py on every run (Gen/Rankscore.v) give exactly the
   score lists of Model/Convert.v [rank_scores] (the scorers of the positional converter, C13 / C17).
   Second part (typed translation): select_padded (slicing / padding), Borda.set_n_candidates / Borda.scores on an
   initialised scorer and SequenceBased.scores are the list functions of Model/Convert.v (select_padded, rank_scores) and
   the stored-state functions of Model/State.v (borda_set_n, borda_scores_st; C18). *)
From Coq Require Import ZArith QArith Qpower List Lia Bool.
From VL Require Import Prelude.PyDict Prelude.PyNum Prelude.PyList Model.Convert Model.State.
From VL Require Import Proofs.PyList_proofs.
From VL Require Gen.Rankscore.
Import ListNotations.
Open Scope Q_scope.

Definition gen_list (f : Z -> Z -> Q) (n : nat) : list Q := map (fun r => f (Z.of_nat n) (Z.of_nat r)) (seq 0 n).

Lemma map_seq_Qeq (f g : nat -> Q) n : (forall r, f r == g r) -> Forall2 Qeq (map f (seq 0 n)) (map g (seq 0 n)).
Proof.
  intros H. generalize 0%nat as s. induction n as [|n IH]; intros s; simpl; constructor; [apply H|apply IH].
Qed.

Lemma inv_pos p : (1 # 1) / inject_Z (Z.pos p) == 1 # p.
Proof. unfold Qdiv, Qinv, inject_Z, Qmult, Qeq. cbn [Qnum Qden]. lia. Qed.

Lemma tie_dowdall n_cands n : exists l, rank_scores Dowdall n_cands n = Some l /\ Forall2 Qeq (gen_list Gen.Rankscore.Dowdall_score n) l.
Proof.
  eexists. split; [reflexivity|]. unfold gen_list. apply map_seq_Qeq. intros r.
  unfold Gen.Rankscore.Dowdall_score, py_frac.
  assert (E : inject_Z (Z.of_nat r) + (1 # 1) == inject_Z (Z.pos (Pos.of_nat (S r)))).
  { change (1 # 1) with (inject_Z 1). rewrite <- inject_Z_plus. replace (Z.of_nat r + 1)%Z with (Z.of_nat (S r)) by lia.
    rewrite <- Pos.of_nat_succ. reflexivity. }
  rewrite E. apply inv_pos.
Qed.
Print Assumptions tie_dowdall.

Lemma tie_modified_borda n_cands n : exists l, rank_scores ModifiedBorda n_cands n = Some l /\ Forall2 Qeq (gen_list Gen.Rankscore.ModifiedBorda_score n) l.
Proof.
  eexists. split; [reflexivity|]. unfold gen_list. apply map_seq_Qeq. intros r.
  unfold Gen.Rankscore.ModifiedBorda_score, Qminus. rewrite <- inject_Z_opp, <- inject_Z_plus. reflexivity.
Qed.
Print Assumptions tie_modified_borda.

Lemma tie_fixed_top top n_cands n : exists l, rank_scores (FixedTop top) n_cands n = Some l /\ Forall2 Qeq (gen_list (Gen.Rankscore.FixedTop_score top) n) l.
Proof.
  eexists. split; [reflexivity|]. unfold gen_list. apply map_seq_Qeq. intros r.
  unfold Gen.Rankscore.FixedTop_score, py_max, Qminus. rewrite <- inject_Z_opp, <- inject_Z_plus.
  destruct (Qle_bool (inject_Z (top + - Z.of_nat r)) (0 # 1)) eqn:E.
  - apply Qle_bool_iff in E. change (0 # 1) with (inject_Z 0) in E. rewrite <- Zle_Qle in E.
    rewrite Z.max_r by lia. reflexivity.
  - assert (~ (inject_Z (top + - Z.of_nat r) <= inject_Z 0)) as H by (intros H; apply Qle_bool_iff in H; change (inject_Z 0) with (0 # 1) in H; congruence).
    rewrite <- Zle_Qle in H. rewrite Z.max_l by lia. replace (top - Z.of_nat r)%Z with (top + - Z.of_nat r)%Z by lia. reflexivity.
Qed.
Print Assumptions tie_fixed_top.

Lemma tie_geometric base n_cands n : (0 < base)%Z ->
  exists l, rank_scores (Geometric base) n_cands n = Some l /\ Forall2 Qeq (gen_list (Gen.Rankscore.Geometric_score base) n) l.
Proof.
  intros Hb. eexists. split; [reflexivity|]. unfold gen_list. apply map_seq_Qeq. intros r.
  unfold Gen.Rankscore.Geometric_score, py_frac, py_pow.
  rewrite <- (Zpower_Qpower base (Z.of_nat r)) by lia. unfold Qdiv. rewrite Qmult_1_l. reflexivity.
Qed.
Print Assumptions tie_geometric.

Theorem GenTie_Rankscore :
  (forall n_cands n, exists l, rank_scores Dowdall n_cands n = Some l /\ Forall2 Qeq (gen_list Gen.Rankscore.Dowdall_score n) l) /\
  (forall n_cands n, exists l, rank_scores ModifiedBorda n_cands n = Some l /\ Forall2 Qeq (gen_list Gen.Rankscore.ModifiedBorda_score n) l) /\
  (forall top n_cands n, exists l, rank_scores (FixedTop top) n_cands n = Some l /\ Forall2 Qeq (gen_list (Gen.Rankscore.FixedTop_score top) n) l) /\
  (forall base n_cands n, (0 < base)%Z -> exists l, rank_scores (Geometric base) n_cands n = Some l /\ Forall2 Qeq (gen_list (Gen.Rankscore.Geometric_score base) n) l).
Proof. exact (conj tie_dowdall (conj tie_modified_borda (conj tie_fixed_top tie_geometric))). Qed.
Print Assumptions GenTie_Rankscore.

(* ================================================================ select_padded, Borda, SequenceBased
   (typed translation: list slicing / padding as list functions, Borda's stored score list) *)
(* the proofs below go by case analysis on the integer comparisons and linear arithmetic, not by syntactic identity, so
   that an equivalent rewrite of the source ([len(selected) < n], the padding without its guard, the Borda score as
   [base + (n - 1) - rank]) keeps them *)
Ltac z_atoms :=
  repeat match goal with
  | |- context [(?a <? ?b)%Z] => destruct (Z.ltb_spec a b)
  | |- context [(?a <=? ?b)%Z] => destruct (Z.leb_spec a b)
  | |- context [(?a =? ?b)%Z] => destruct (Z.eqb_spec a b)
  end.

(* select_padded(sequence, n, pad_with) for n >= 0: the first n items, padded to length n *)
Lemma gen_select_padded_spec : forall (s : list Q) (n : nat) (p : Q),
  Gen.Rankscore.select_padded s (Z.of_nat n) p = firstn n s ++ repeat p (n - length (firstn n s)).
Proof.
  intros s n p. unfold Gen.Rankscore.select_padded, py_slice_to, py_len, py_list_mul. cbv zeta.
  rewrite ?Nat2Z.id. pose proof (firstn_length n s) as Hlen. set (sel := firstn n s) in *.
  z_atoms; cbn [negb andb orb]; try lia; rewrite ?concat_repeat_singleton;
    solve [ f_equal; f_equal; lia
          | replace (n - length sel)%nat with 0%nat by lia; cbn [repeat]; rewrite ?app_nil_r; reflexivity ].
Qed.

Lemma tie_select_padded : forall s n, Gen.Rankscore.select_padded s (Z.of_nat n) 0 = select_padded s n.
Proof. intros s n. rewrite gen_select_padded_spec. reflexivity. Qed.
Print Assumptions tie_select_padded.

(* Borda.set_n_candidates: the stored score list (ints in the source, injected into Q) *)
Lemma tie_borda_set_n : forall base k,
  map inject_Z (Gen.Rankscore.Borda_set_n_candidates base (Z.of_nat k)) =
  map (fun r => inject_Z (Z.of_nat k + base - 1 - Z.of_nat r)) (seq 0 k).
Proof.
  intros base k. unfold Gen.Rankscore.Borda_set_n_candidates, py_range. cbv zeta.
  rewrite Nat2Z.id, !map_map. apply map_ext. intros r. f_equal; lia.
Qed.
Print Assumptions tie_borda_set_n.

Lemma tie_borda_set_n_state : forall base k,
  b_scores (borda_set_n base k) = Some (map inject_Z (Gen.Rankscore.Borda_set_n_candidates base (Z.of_nat k))) /\
  b_n (borda_set_n base k) = Some k.
Proof. intros base k. rewrite tie_borda_set_n. split; reflexivity. Qed.
Print Assumptions tie_borda_set_n_state.

(* Borda.scores on an initialised scorer: ValueError when more ranks than candidates, else the padded selection *)
Definition exn_of (r : list Q + borda_err) : list Q + pyexn :=
  match r with inl l => inl l | inr BE_value => inr PyValueError | inr BE_runtime => inr PyRuntimeError end.

Lemma tie_borda_scores : forall k sc n,
  Gen.Rankscore.Borda_scores (Z.of_nat k) sc (Z.of_nat n) = exn_of (borda_scores_st {| b_n := Some k; b_scores := Some sc |} n).
Proof.
  intros k sc n. unfold Gen.Rankscore.Borda_scores, borda_scores_st. cbn [b_n b_scores]. cbv zeta.
  destruct (Nat.ltb_spec k n); z_atoms; cbn [negb andb orb exn_of]; try lia; try reflexivity;
    f_equal; apply (tie_select_padded sc n).
Qed.
Print Assumptions tie_borda_scores.

(* both together = the Borda scorer of the positional converter (Model/Convert.v rank_scores, C13 / C17) *)
Lemma tie_borda : forall base n_cands n,
  Gen.Rankscore.Borda_scores (Z.of_nat n_cands) (map inject_Z (Gen.Rankscore.Borda_set_n_candidates base (Z.of_nat n_cands))) (Z.of_nat n) =
  match rank_scores (Borda base) n_cands n with Some l => inl l | None => inr PyValueError end.
Proof.
  intros base n_cands n. rewrite tie_borda_scores, tie_borda_set_n. unfold borda_scores_st, rank_scores. cbn [b_n b_scores].
  destruct (Nat.ltb n_cands n); reflexivity.
Qed.
Print Assumptions tie_borda.

Lemma tie_sequence_based : forall sq n_cands n,
  rank_scores (SequenceBased sq) n_cands n = Some (Gen.Rankscore.SequenceBased_scores sq (Z.of_nat n)).
Proof.
  intros sq n_cands n. unfold Gen.Rankscore.SequenceBased_scores. cbn [rank_scores]. f_equal. symmetry. apply (tie_select_padded sq n).
Qed.
Print Assumptions tie_sequence_based.

Theorem GenTie_Rankscore_lists :
  (forall s n, Gen.Rankscore.select_padded s (Z.of_nat n) 0 = select_padded s n) /\
  (forall base k, b_scores (borda_set_n base k) = Some (map inject_Z (Gen.Rankscore.Borda_set_n_candidates base (Z.of_nat k))) /\
                  b_n (borda_set_n base k) = Some k) /\
  (forall k sc n, Gen.Rankscore.Borda_scores (Z.of_nat k) sc (Z.of_nat n) = exn_of (borda_scores_st {| b_n := Some k; b_scores := Some sc |} n)) /\
  (forall base n_cands n,
     Gen.Rankscore.Borda_scores (Z.of_nat n_cands) (map inject_Z (Gen.Rankscore.Borda_set_n_candidates base (Z.of_nat n_cands))) (Z.of_nat n) =
     match rank_scores (Borda base) n_cands n with Some l => inl l | None => inr PyValueError end) /\
  (forall sq n_cands n, rank_scores (SequenceBased sq) n_cands n = Some (Gen.Rankscore.SequenceBased_scores sq (Z.of_nat n))).
Proof. exact (conj tie_select_padded (conj tie_borda_set_n_state (conj tie_borda_scores (conj tie_borda tie_sequence_based)))). Qed.

(* non-vacuity: the generated functions on concrete inputs (CPython: Borda(base=1), set_n_candidates(4): scores(3) == [4, 3, 2];
   scores(5) raises ValueError; SequenceBased([12, 10, 8]).scores(5) == [12, 10, 8, 0, 0]) *)
Example gen_borda_4_3 :
  Gen.Rankscore.Borda_scores 4 (map inject_Z (Gen.Rankscore.Borda_set_n_candidates 1 4)) 3 = inl [4 # 1; 3 # 1; 2 # 1].
Proof. reflexivity. Qed.
Example gen_borda_4_5 :
  Gen.Rankscore.Borda_scores 4 (map inject_Z (Gen.Rankscore.Borda_set_n_candidates 1 4)) 5 = inr PyValueError.
Proof. reflexivity. Qed.
Example gen_seq_pad : Gen.Rankscore.SequenceBased_scores [12 # 1; 10 # 1; 8 # 1] 5 = [12 # 1; 10 # 1; 8 # 1; 0; 0].
Proof. reflexivity. Qed.
Example gen_seq_cut : Gen.Rankscore.SequenceBased_scores [12 # 1; 10 # 1; 8 # 1] 2 = [12 # 1; 10 # 1].
Proof. reflexivity. Qed.

Print Assumptions GenTie_Rankscore_lists.
