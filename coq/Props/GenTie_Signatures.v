(* C19 - the per-class premise of the serialisation round trip, read from the SOURCE.

   Gen/Signatures.v (tools/py2v.py part 5, regenerated from votelib/**/*.py on every run) holds one record per class:
   how to_dict comes about, the keys it emits, the constructor parameters and for each of them how __init__ stores it.
   This file
     1. states the premise the round-trip theorems of Props/C19.v need as a boolean over one record ([class_ok]: to_dict is
        the one of @simple_serialization, no from_dict, the keys are exactly the constructor parameters, every one of them a
        keyword-bindable parameter that __init__ stores VERBATIM under its own name, no key is 'class');
     2. gives the table its meaning ([construct]: the attribute store __init__ leaves behind as far as the table determines
        it; [to_dict_params]: what simple_serialization.to_dict reads) and proves for EVERY record - not only the generated
        ones - that [class_ok] makes to_dict read back exactly the constructor arguments ([class_ok_reads_back]);
     3. instantiates the round trip of Proofs/Persist_proofs.v: for a class with [class_ok], from_dict (to_dict obj), also
        via JSON text, names the same class with the same parameter record, which constructs the same attribute store
        ([C19_class_roundtrip]; [C19_class_roundtrip_table] discharges the class-table conditions of [representable] from
        the generated table as well: only the argument VALUES have to be representable);
     4. decides [class_ok] for all classes of the generated table by vm_compute - a finite-domain proof: the domain is the
        table (155 classes on the pinned tree, 109 of them with to_dict), re-decided against the current source on every
        run - and finds it true of every class with to_dict except the explicit list [exceptions] ([class_table_ok]).
        A class that is neither [class_ok] nor listed makes this file fail: a broken obligation of C19.
   For the listed exceptions the premise stays what it was before: tested per class by the classes stream of
   harness/props/c19.py (to_dict equality and outcome equality of the reloaded object); the harness checks that the list
   coincides with what it treats specially (harness/props/sigcheck.py). *)
From Coq Require Import ZArith List String Bool Ascii Lia.
From VL Require Import Gen.Signatures Model.Persist Proofs.Persist_proofs Proofs.PersistRejects_proofs.
Import ListNotations.
Open Scope string_scope.

(* ------------------------------------------------------------------ the premise, per record *)
Definition serialisable (c : cls) : bool := match c_todict c with TDNone => false | _ => true end.
Definition by_decorator (c : cls) : bool := match c_todict c with TDDecorated | TDInherited => true | _ => false end.
Definition stored_verbatim (p : param) : bool :=
  match p_store p, p_kind p with
  | Stored, PPos | Stored, PKwOnly => true
  | _, _ => false
  end.
Fixpoint strs_eqb (a b : list string) : bool :=
  match a, b with
  | [], [] => true
  | x :: a', y :: b' => String.eqb x y && strs_eqb a' b'
  | _, _ => false
  end.
Definition smem (s : string) (l : list string) : bool := existsb (String.eqb s) l.
Fixpoint snodup (l : list string) : bool :=
  match l with [] => true | x :: t => negb (smem x t) && snodup t end.

Definition class_ok (c : cls) : bool :=
  by_decorator c && negb (c_from_dict c)
  && strs_eqb (c_keys c) (map p_name (c_params c))
  && forallb stored_verbatim (c_params c)
  && snodup (c_keys c) && negb (smem "class" (c_keys c)).

(* ------------------------------------------------------------------ what the table says about an object *)
Section Objects.
  Variable V : Type.                       (* attribute / argument values *)
  Definition record := list (string * V).
  Fixpoint rget (r : record) (k : string) : option V :=
    match r with
    | [] => None
    | (k', v) :: t => if String.eqb k k' then Some v else rget t k
    end.

  (* the attribute store __init__ leaves behind, as far as the table determines it: None when a parameter is Transformed
     (unknown code ran), an argument is missing, or two parameters are written to one attribute *)
  Fixpoint construct_ps (ps : list param) (args : record) : option record :=
    match ps with
    | [] => Some []
    | p :: t =>
        match p_store p, rget args (p_name p), construct_ps t args with
        | Stored, Some v, Some st => Some ((p_name p, v) :: st)
        | StoredAs a, Some v, Some st => Some ((a, v) :: st)
        | NotStored, _, Some st => Some st
        | _, _, _ => None
        end
    end.
  Definition construct (c : cls) (args : record) : option record :=
    match construct_ps (c_params c) args with
    | Some st => if snodup (map fst st) then Some st else None
    | None => None
    end.

  (* simple_serialization.to_dict: getattr(self, k) for every key, in order (None: AttributeError, or a to_dict that is
     not the decorator's) *)
  Fixpoint read_keys (ks : list string) (st : record) : option record :=
    match ks with
    | [] => Some []
    | k :: t =>
        match rget st k, read_keys t st with
        | Some v, Some r => Some ((k, v) :: r)
        | _, _ => None
        end
    end.
  Definition to_dict_params (c : cls) (st : record) : option record :=
    if by_decorator c then read_keys (c_keys c) st else None.

  Lemma strs_eqb_eq : forall a b, strs_eqb a b = true -> a = b.
  Proof.
    induction a as [|x a IH]; destruct b as [|y b]; simpl; intros H; try discriminate; auto.
    apply andb_true_iff in H. destruct H as [H1 H2]. apply String.eqb_eq in H1. subst. f_equal. auto.
  Qed.

  Lemma smem_in : forall s l, smem s l = true <-> In s l.
  Proof.
    intros s l. unfold smem. rewrite existsb_exists. split.
    - intros [x [Hx He]]. apply String.eqb_eq in He. subst. exact Hx.
    - intros H. exists s. split; auto. apply String.eqb_refl.
  Qed.

  (* in a record with pairwise different names every binding is the one a lookup finds *)
  Lemma rget_nodup : forall (l : record) k v, snodup (map fst l) = true -> In (k, v) l -> rget l k = Some v.
  Proof.
    induction l as [|[k' v'] l IH]; intros k v Hn Hin; simpl in *.
    - contradiction.
    - apply andb_true_iff in Hn. destruct Hn as [Hk Hn].
      destruct Hin as [Heq | Hin].
      + inversion Heq. subst. rewrite String.eqb_refl. reflexivity.
      + destruct (String.eqb k k') eqn:E.
        * apply String.eqb_eq in E. subst k'. exfalso.
          apply negb_true_iff in Hk.
          assert (smem k (map fst l) = true) as Hm.
          { apply smem_in. apply in_map_iff. exists (k, v). split; auto. }
          rewrite Hm in Hk. discriminate.
        * apply IH; auto.
  Qed.

  Lemma construct_ps_verbatim : forall (args : record) ps (m : record),
    forallb stored_verbatim ps = true -> map fst m = map p_name ps ->
    (forall k v, In (k, v) m -> rget args k = Some v) ->
    construct_ps ps args = Some m.
  Proof.
    intros args. induction ps as [|p ps IH]; intros m Hs Hm Hget.
    - destruct m; [reflexivity | discriminate].
    - destruct m as [|[k v] m]; [discriminate|]. simpl in Hm. inversion Hm as [[Hk Hm']]. subst k.
      simpl in Hs. apply andb_true_iff in Hs. destruct Hs as [Hp Hs].
      cbn [construct_ps]. rewrite (Hget (p_name p) v (or_introl eq_refl)).
      rewrite (IH m Hs Hm' (fun k v' H => Hget k v' (or_intror H))).
      unfold stored_verbatim in Hp. destruct (p_store p); try discriminate. reflexivity.
  Qed.

  Lemma read_keys_all : forall (st m : record),
    (forall k v, In (k, v) m -> rget st k = Some v) -> read_keys (map fst m) st = Some m.
  Proof.
    intros st. induction m as [|[k v] m IH]; intros H; simpl.
    - reflexivity.
    - rewrite (H k v (or_introl eq_refl)). rewrite IH; auto. intros k' v' Hin. apply H. right. exact Hin.
  Qed.

  (* THE PREMISE: for every record with [class_ok] - whatever class it describes - and every full argument record, the
     constructor leaves exactly the arguments behind and to_dict reads exactly them back *)
  Theorem class_ok_reads_back : forall c (args : record),
    class_ok c = true -> map fst args = map p_name (c_params c) ->
    construct c args = Some args /\ to_dict_params c args = Some args.
  Proof.
    intros c args Hok Hargs. unfold class_ok in Hok.
    repeat (apply andb_true_iff in Hok; destruct Hok as [Hok ?]).
    match goal with Hx : strs_eqb _ _ = true |- _ => apply strs_eqb_eq in Hx; rename Hx into Hkeys end.
    match goal with Hx : snodup _ = true |- _ => rename Hx into Hnd end.
    match goal with Hx : forallb stored_verbatim _ = true |- _ => rename Hx into Hst end.
    assert (snodup (map fst args) = true) as Hnd' by (rewrite Hargs, <- Hkeys; exact Hnd).
    split.
    - unfold construct.
      rewrite (construct_ps_verbatim args (c_params c) args Hst Hargs (fun k v Hkv => rget_nodup args k v Hnd' Hkv)).
      rewrite Hnd'. reflexivity.
    - unfold to_dict_params. rewrite Hok. rewrite Hkeys, <- Hargs.
      apply read_keys_all. intros k v Hkv. apply rget_nodup; auto.
  Qed.
End Objects.
Arguments rget {V} r k.
Arguments construct {V} c args.
Arguments to_dict_params {V} c st.

(* ------------------------------------------------------------------ the round trip of a class with [class_ok] *)
(* the object of class c with the parameter record r, as Model/Persist.v names it *)
Definition pobj (c : cls) (r : record pval) : pval :=
  PObj (codes (c_name c)) (map (fun kv => (codes (fst kv), snd kv)) r).

(* Cls( **args) has the attributes args; to_dict reads them; what is saved loads - directly and via JSON text - as the class
   called with the very same parameter record (and therefore constructs the same attributes, saves identically) *)
Theorem C19_class_roundtrip : forall E c (args : record pval),
  class_ok c = true -> map fst args = map p_name (c_params c) ->
  representable E (pobj c args) = true ->
  exists j, construct c args = Some args /\ to_dict_params c args = Some args /\
            serialize_value E (pobj c args) = SOk j /\
            from_dict E j = DOk (pobj c args) /\ from_dict E (json_rt j) = DOk (pobj c args).
Proof.
  intros E c args Hok Hargs Hrep.
  destruct (class_ok_reads_back pval c args Hok Hargs) as [Hc Hr].
  destruct (system_roundtrip E _ _ Hrep) as [j [Hs [Hd Hj]]].
  exists j. repeat split; assumption.
Qed.

(* ------------------------------------------------------------------ the generated table *)
(* Classes with to_dict for which the premise is NOT read from the source, each with the reason; for these the premise is
   tested per class (classes stream of harness/props/c19.py).  Reasons:
     normalised        __init__ passes the argument through an idempotent normaliser (construct(name-or-callable), list(..),
                       a default object in place of None): to_dict emits the normalised value, which the constructor accepts
     hand-written      to_dict is written by hand (delegates to an inner object)
     serialize_params  to_dict emits a chosen subset of the parameters (serialize_params); the others only feed defaults
     known:<id>        the class is the site of a recorded finding of C19 (known_findings.json) - none at present: the
                       validators (C19-rank-defaultdict, repaired: their checkers are a DefaultedCheckers object, itself a
                       class with the premise) are listed for serialize_params, ThresholdOpenList (C19-closures, repaired:
                       the fractional quota is saved as the quota function given) as normalising *)
Definition exceptions : list (string * string) := [
  ("votelib.candidate.Person", "normalised");
  ("votelib.candidate.PoliticalParty", "normalised");
  ("votelib.candidate.Coalition", "normalised");
  ("votelib.convert.ScoreToSimpleVotes", "normalised");
  ("votelib.vote.VoteMagnitudeChecker", "hand-written");
  ("votelib.vote.ApprovalVoteValidator", "serialize_params");
  ("votelib.vote.RankedVoteValidator", "serialize_params");
  ("votelib.vote.EnumScoreVoteValidator", "serialize_params");
  ("votelib.vote.RangeVoteValidator", "serialize_params");
  ("votelib.evaluate.approval.QuotaSelector", "normalised");
  ("votelib.evaluate.cardinal.ScoreVoting", "hand-written");
  ("votelib.evaluate.cardinal.MajorityJudgment", "hand-written");
  ("votelib.evaluate.cardinal.STAR", "hand-written");
  ("votelib.evaluate.cardinal.AllocatedScoreDistributor", "normalised");
  ("votelib.evaluate.condorcet.MinimaxCondorcet", "normalised");
  ("votelib.evaluate.condorcet.RankedPairs", "normalised");
  ("votelib.evaluate.core.UnusedVotesDistributor", "normalised");
  ("votelib.evaluate.core.Conditioned", "normalised");
  ("votelib.evaluate.openlist.ThresholdOpenList", "normalised");
  ("votelib.evaluate.proportional.QuotaDistributor", "normalised");
  ("votelib.evaluate.proportional.LargestRemainder", "hand-written");
  ("votelib.evaluate.proportional.HighestAverages", "normalised");
  ("votelib.evaluate.proportional.BiproportionalEvaluator", "normalised");
  ("votelib.evaluate.sequential.TransferableVoteDistributor", "normalised");
  ("votelib.evaluate.sequential.TransferableVoteSelector", "hand-written")
].
Definition is_exception (n : string) : bool := existsb (fun e => String.eqb (fst e) n) exceptions.

(* finite-domain proof (domain: the generated table): every class with to_dict has the premise or is listed *)
Theorem class_table_ok :
  forallb (fun c => implb (serialisable c) (class_ok c || is_exception (c_name c))) classes = true.
Proof. vm_compute. reflexivity. Qed.

(* the list names classes of the table that have to_dict (no misspelt entry) *)
Theorem exceptions_are_classes :
  forallb (fun e => existsb (fun c => String.eqb (c_name c) (fst e) && serialisable c) classes) exceptions = true.
Proof. vm_compute. reflexivity. Qed.

(* Model/Persist.v models deserialize_class without the from_dict hook: no class of the package defines one *)
Theorem no_class_defines_from_dict : forallb (fun c => negb (c_from_dict c)) classes = true.
Proof. vm_compute. reflexivity. Qed.

(* not vacuous: the premise is decided true for most classes with to_dict *)
Definition proved_classes : list cls := filter class_ok classes.
Example class_ok_count : (60 <=? Z.of_nat (List.length proved_classes))%Z = true.
Proof. vm_compute. reflexivity. Qed.

(* ------------------------------------------------------------------ the class table of the environment, from the source *)
Definition tbl_find (n : str) : option cls := find (fun c => str_eqb (codes (c_name c)) n) classes.
Definition bindable (p : param) : bool := match p_kind p with PPos | PKwOnly => true | _ => false end.
Definition has_varkw (ps : list param) : bool :=
  existsb (fun p => match p_kind p with PVarKw => true | _ => false end) ps.
Definition required (p : param) : bool :=
  bindable p && match p_default p with DReq => true | _ => false end.
(* Cls( **{k: ..}) binds: every name is a keyword-bindable parameter (or there is **kwargs), every required parameter is named *)
Definition tbl_accepts (n : str) (ks : list str) : bool :=
  match tbl_find n with
  | Some c =>
      forallb (fun k => existsb (fun p => bindable p && str_eqb (codes (p_name p)) k) (c_params c)
                        || has_varkw (c_params c)) ks
      && forallb (fun p => negb (required p) || memb str_eqb (codes (p_name p)) ks) (c_params c)
  | None => false
  end.

(* an environment that agrees with the source on the classes of the package *)
Definition extends_table (E : env) : Prop :=
  forall c, In c classes -> serialisable c = true ->
    class_exists E (codes (c_name c)) = true /\
    forall ks, class_accepts E (codes (c_name c)) ks = tbl_accepts (codes (c_name c)) ks.

Definition table_env (xs xc : Z -> bool) (dc : str -> option str) (cr : str -> bool) : env :=
  {| xid_start := xs; xid_continue := xc; dec_canon := dc;
     class_exists := fun n => match tbl_find n with Some _ => true | None => false end;
     class_accepts := tbl_accepts; callable_resolves := cr |}.

Lemma table_names_found :
  forallb (fun c => match tbl_find (codes (c_name c)) with Some _ => true | None => false end) classes = true.
Proof. vm_cast_no_check (eq_refl true). Qed.

Lemma table_env_extends : forall xs xc dc cr, extends_table (table_env xs xc dc cr).
Proof.
  intros xs xc dc cr c Hin _. split; [|reflexivity].
  exact (proj1 (forallb_forall _ _) table_names_found c Hin).
Qed.

(* finite-domain facts about the classes with the premise (domain: the generated table) *)
Lemma table_names_scoped : forall E, forallb (fun c => is_scoped_identifier E (codes (c_name c))) classes = true.
Proof. intros E. vm_compute. reflexivity. Qed.

Lemma table_ok_accepts :
  forallb (fun c => implb (class_ok c) (tbl_accepts (codes (c_name c)) (map codes (c_keys c)))) classes = true.
Proof. vm_cast_no_check (eq_refl true). Qed.

Lemma table_ok_keys_free :
  forallb (fun c => implb (class_ok c)
                      (negb (memb str_eqb s_class (map codes (c_keys c))) && negb (memb str_eqb s_type (map codes (c_keys c)))))
          classes = true.
Proof. vm_compute. reflexivity. Qed.

Lemma aget_not_mem : forall (ps : list (str * pval)) k, memb str_eqb k (map fst ps) = false -> aget str_eqb ps k = None.
Proof.
  induction ps as [|[k' v] ps IH]; intros k H; simpl in *.
  - reflexivity.
  - unfold memb in H. simpl in H. apply orb_false_iff in H. destruct H as [H1 H2].
    rewrite H1. apply IH. exact H2.
Qed.

Lemma forallb_rep_map : forall E (args : record pval),
  forallb (fun kv => representable E (snd kv)) args = true ->
  forallb (fun kv : str * pval => match kv with (_, x) => representable E x end)
          (map (fun kv : string * pval => (codes (fst kv), snd kv)) args) = true.
Proof.
  intros E. induction args as [|[k v] args IH]; simpl; intros H.
  - reflexivity.
  - apply andb_true_iff in H. destruct H as [H1 H2]. rewrite H1. simpl. apply IH. exact H2.
Qed.

Lemma map_fst_codes : forall (args : record pval),
  map fst (map (fun kv : string * pval => (codes (fst kv), snd kv)) args) = map codes (map fst args).
Proof. induction args as [|[k v] args IH]; simpl; [reflexivity | rewrite IH; reflexivity]. Qed.

(* For a class of the generated table with [class_ok] only the argument VALUES have to be representable: that the class is
   loadable, that it accepts its own parameter names, that its name is an identifier path, that no key is 'class' / 'type'
   are all read from the source *)
Theorem C19_class_roundtrip_table : forall E c (args : record pval),
  extends_table E -> In c classes -> class_ok c = true ->
  map fst args = map p_name (c_params c) ->
  forallb (fun kv => representable E (snd kv)) args = true ->
  exists j, construct c args = Some args /\ to_dict_params c args = Some args /\
            serialize_value E (pobj c args) = SOk j /\
            from_dict E j = DOk (pobj c args) /\ from_dict E (json_rt j) = DOk (pobj c args).
Proof.
  intros E c args HE Hin Hok Hargs Hvals.
  apply C19_class_roundtrip; auto.
  assert (serialisable c = true) as Hser.
  { unfold class_ok in Hok. repeat (apply andb_true_iff in Hok; destruct Hok as [Hok ?]).
    unfold by_decorator in Hok. unfold serialisable. destruct (c_todict c); auto; discriminate. }
  destruct (HE c Hin Hser) as [Hex Hacc].
  pose proof (proj1 (forallb_forall _ _) (table_names_scoped E) c Hin) as Hid. cbv beta in Hid.
  pose proof (proj1 (forallb_forall _ _) table_ok_accepts c Hin) as Ha. cbv beta in Ha. rewrite Hok in Ha. simpl in Ha.
  pose proof (proj1 (forallb_forall _ _) table_ok_keys_free c Hin) as Hk. cbv beta in Hk. rewrite Hok in Hk. simpl in Hk.
  apply andb_true_iff in Hk. destruct Hk as [Hk1 Hk2].
  assert (c_keys c = map fst args) as Hkeys.
  { unfold class_ok in Hok. repeat (apply andb_true_iff in Hok; destruct Hok as [Hok ?]).
    match goal with Hx : strs_eqb _ _ = true |- _ => apply strs_eqb_eq in Hx; rewrite Hx end. symmetry. exact Hargs. }
  unfold pobj. cbn [representable].
  rewrite (forallb_rep_map E args Hvals), Hid, Hex. rewrite map_fst_codes, <- Hkeys.
  rewrite Hacc, Ha, Hk1. simpl.
  unfold psniff. rewrite aget_not_mem; [reflexivity|].
  rewrite map_fst_codes, <- Hkeys. apply negb_true_iff in Hk2. exact Hk2.
Qed.

(* not vacuous: a threshold evaluator of the table with a Fraction threshold; the conclusion computes *)
Definition ex_cls : option cls := tbl_find (codes "votelib.evaluate.threshold.RelativeThreshold").
Definition ex_args : record pval := [("threshold", PFrac 1 20); ("accept_equal", PBool true)].
Definition ex_env : env := table_env (fun _ => false) (fun _ => false) (fun s => Some s) (fun _ => false).
Example C19_class_example :
  match ex_cls with
  | Some c => class_ok c && strs_eqb (map fst ex_args) (map p_name (c_params c))
              && forallb (fun kv => representable ex_env (snd kv)) ex_args
              && match serialize_value ex_env (pobj c ex_args) with
                 | SOk j => match from_dict ex_env (json_rt j) with DOk v => pval_eqb v (pobj c ex_args) | _ => false end
                 | SErr => false
                 end
  | None => false
  end = true.
Proof. vm_compute. reflexivity. Qed.

Print Assumptions class_ok_reads_back.
Print Assumptions C19_class_roundtrip.
Print Assumptions class_table_ok.
Print Assumptions exceptions_are_classes.
Print Assumptions no_class_defines_from_dict.
Print Assumptions table_env_extends.
Print Assumptions C19_class_roundtrip_table.
