(* C11 - Exact arithmetic: outcomes invariant under vote scaling, even beyond 2^53.
   Property theorems only.  Models: Model/GetNBest.v, Model/HighestAverages.v, Model/Condorcet.v,
   Model/QuotaDistributor.v, Model/STV.v; proofs: Proofs/Scale_proofs.v, Proofs/Minimax_proofs.v, Proofs/LRScale_proofs.v,
   Proofs/STVScale_proofs.v, Proofs/Schulze_proofs.v.  All numbers are unbounded Z / Q: the statements quantify over
   every positive scale factor and every magnitude (10^30 and 2^53 are not special).
   Third / fourth batch: Model/Threshold.v, Model/Conditioned.v, Model/Star.v, Model/Hybrids.v, Model/Elimination.v,
   Model/AllocScore.v, Model/PureProp.v; proofs: Proofs/ScaleThr_proofs.v, ScaleStar_proofs.v, ScaleHyb_proofs.v,
   ScaleAlloc_proofs.v, ScalePP_proofs.v.  docs/C11.md maps every configuration of harness/evalreg.py to its theorem. *)
From Coq Require Import ZArith QArith List Bool.
From VL Require Import Prelude.PyDict Model.GetNBest Model.HighestAverages Model.Condorcet
     Proofs.GetNBest_proofs Proofs.QOrd Proofs.Scale_proofs Proofs.Minimax_proofs Proofs.LRScale_proofs Proofs.Schulze_proofs
     Model.Quota Model.QuotaDistributor.
From VL Require Model.Convert Model.STV Proofs.STVScale_proofs.
From VL Require Proofs.SchwartzInv_proofs.
From VL Require Prelude.Sx Prelude.GDict Model.Bucklin Model.Cardinal Proofs.Scale2_proofs Proofs.Scale2Add_proofs Proofs.Scale2Bucklin_proofs
     Proofs.Scale2PAV_proofs Proofs.Scale2Score_proofs Proofs.Scale2MJ_proofs Proofs.Scale2Complete_proofs.
From VL Require Model.Threshold Model.Conditioned Model.Star Proofs.ScaleThr_proofs Proofs.ScaleStar_proofs.
From VL Require Model.Hybrids Model.Elimination Model.AllocScore Model.PureProp Proofs.ScaleHyb_proofs Proofs.ScaleAlloc_proofs Proofs.ScalePP_proofs.
Import ListNotations.

(* plurality / every rule that ends in get_n_best of exact totals *)
Theorem C11_scale_plurality : forall (k : Q) (votes : list (C * Q)) (n : nat), (0 < k)%Q ->
  get_n_best Qle_bool (scaleq k votes) n = get_n_best Qle_bool votes n.
Proof. exact get_n_best_scale. Qed.

(* every highest-averages rule: any divisor function, previous gains, caps *)
Theorem C11_scale_highest_averages : forall (d : Z -> Q) (k : Q) (votes : list (C * Q)) (caps prev : list (C * Z)) (n : Z),
  (0 < k)%Q -> evaluate d (scaleq k votes) n prev caps = evaluate d votes n prev caps.
Proof. intros d k votes caps prev n Hk. exact (ha_scale d k Hk votes caps n prev). Qed.

(* pairwise-comparison based evaluators: the win relation, the Condorcet winner, Copeland (raw and
   second order), the Smith and Schwartz sets *)
Theorem C11_scale_pairwise_wins : forall (k : Z) v ties, (0 < k)%Z -> pairwise_wins (scalez k v) ties = pairwise_wins v ties.
Proof. intros k v ties Hk. exact (pairwise_wins_scale k Hk v ties). Qed.
Theorem C11_scale_condorcet_winner : forall (k : Z) v, (0 < k)%Z -> condorcet_winner (scalez k v) = condorcet_winner v.
Proof. intros k v Hk. exact (condorcet_winner_scale k Hk v). Qed.
Theorem C11_scale_copeland : forall (k : Z) so v n, (0 < k)%Z -> copeland so (scalez k v) n = copeland so v n.
Proof. intros k so v n Hk. exact (copeland_scale k Hk so v n). Qed.
Theorem C11_scale_smith_schwartz : forall (k : Z) v ties, (0 < k)%Z -> smith_schwartz (scalez k v) ties = smith_schwartz v ties.
Proof. intros k v ties Hk. exact (smith_schwartz_scale k Hk v ties). Qed.
(* SchwartzSet after the repair fixes/C06-schwartz-set (Condorcet.schwartz_set) *)
Theorem C11_scale_schwartz_set : forall (k : Z) v, (0 < k)%Z -> schwartz_set (scalez k v) = schwartz_set v.
Proof. intros k v Hk. exact (SchwartzInv_proofs.schwartz_set_scale k v Hk). Qed.

Theorem C11_scale_minimax : forall (k : Z) s v n, (0 < k)%Z -> minimax s (scalez k v) n = minimax s v n.
Proof. intros k s v n Hk. exact (minimax_scale k Hk s v n). Qed.

(* the quota family with a homogeneous quota (Hare 1, Hagenbach-Bischoff 4, Imperiali 7; the rounded quotas are genuinely not
   scale-free): QuotaDistributor with every overshoot policy, the recursive cap branch and the over-award subtraction included,
   and LargestRemainder with its remainder ranking *)
Theorem C11_scale_quota_distributor : forall (k : Q) (i : Z) accept_equal pol (votes : list (C * Q)) n prev caps,
  (0 < k)%Q -> homogeneous_quota i = true ->
  qd_evaluate (quota_fn (QNamed i)) accept_equal pol (scaleq k votes) n prev caps
  = qd_evaluate (quota_fn (QNamed i)) accept_equal pol votes n prev caps.
Proof.
  intros k i ae pol votes n prev caps Hk Hi.
  exact (qd_evaluate_rel k Hk _ ae pol (quota_fn_homog k i Hi) votes _ n prev caps (vrel_scale k votes)).
Qed.

Theorem C11_scale_largest_remainder : forall (k : Q) (i : Z) accept_equal pol (votes : list (C * Q)) n prev caps,
  (0 < k)%Q -> homogeneous_quota i = true ->
  lr_evaluate (quota_fn (QNamed i)) accept_equal pol (scaleq k votes) n prev caps
  = lr_evaluate (quota_fn (QNamed i)) accept_equal pol votes n prev caps.
Proof.
  intros k i ae pol votes n prev caps Hk Hi.
  exact (lr_evaluate_rel k Hk _ ae pol (quota_fn_homog k i Hi) votes _ n prev caps (vrel_scale k votes)).
Qed.

(* totals that differ - by one vote in 10^30 or by anything else - are never reported as tied,
   and equal rational totals (whatever their representation: 1/2 = 2/4) always are tied together *)
Theorem C11_tie_exact : forall (votes : list (C * Q)) n T c1 v1 c2 v2,
  NoDup (map fst votes) -> In (TieR T) (get_n_best Qle_bool votes n) ->
  In (c1, v1) votes -> In (c2, v2) votes ->
  (In c1 T -> In c2 T -> (v1 == v2)%Q) /\ ((v1 == v2)%Q -> (In c1 T <-> In c2 T)).
Proof.
  intros votes n T c1 v1 c2 v2 Hnd HT H1 H2.
  destruct (get_n_best_tie_members Qle_bool Qle_bool_trans votes n T HT) as (thr & -> & _).
  rewrite (tie_member_level votes thr c1 v1 Hnd H1), (tie_member_level votes thr c2 v2 Hnd H2).
  split; [intros E1 E2; rewrite E1, E2; reflexivity|intros E; rewrite E; reflexivity].
Qed.

Corollary C11_one_vote_apart : forall (votes : list (C * Q)) n T c1 v1 c2,
  NoDup (map fst votes) -> In (TieR T) (get_n_best Qle_bool votes n) ->
  In (c1, v1) votes -> In (c2, (v1 + 1)%Q) votes -> ~ (In c1 T /\ In c2 T).
Proof.
  intros votes n T c1 v1 c2 Hnd HT H1 H2 [Ha Hb].
  destruct (C11_tie_exact votes n T c1 v1 c2 (v1 + 1)%Q Hnd HT H1 H2) as [H _].
  specialize (H Ha Hb). assert (Hne : ~ (v1 == v1 + 1)%Q) by (intros E; apply (Qplus_inj_l _ _ (- v1)%Q) in E; ring_simplify in E; discriminate).
  exact (Hne H).
Qed.

(* the transferable-vote count (Model/STV.v: initial allocation with shared first ranks, election by quota,
   Gregory surplus subtraction, transfers, eliminations, the unchanged-allocation stop) with a homogeneous quota
   function - Hare, Hagenbach-Bischoff - or no quota at all (TransferableVoteSelector).  The run on the k-fold
   votes elects the same seats, stops the same way, and its per-count records are the scaled ones: the same
   elected lists, the same keys in the same order, every total multiplied by k.  Droop and the rounded quotas
   are not homogeneous and are out of scope: C11_stv_droop_not_scale_free. *)
Definition C11_stv_trace_scaled (k : Q) (t t' : STV.trace) : Prop :=
  STV.t_seats t' = STV.t_seats t /\ STV.t_stop t' = STV.t_stop t /\
  Forall2 (fun x y : list (option C * Q) * list (C * Z) =>
             Forall2 (fun p p' : option C * Q => fst p = fst p' /\ (snd p' == k * snd p)%Q) (fst x) (fst y)
             /\ snd y = snd x)
          (STV.t_counts t) (STV.t_counts t').

Definition C11_stv_scale_votes (k : Q) (votes : list (STV.ballot * Q)) : list (STV.ballot * Q) :=
  map (fun bw => (fst bw, (k * snd bw)%Q)) votes.

Theorem C11_scale_stv_homogeneous : forall (k : Q) (cf : STV.cfg) votes n_seats prev caps, (0 < k)%Q ->
  (forall qf, STV.c_quota cf = Some qf -> forall v v' n, (v' == k * v)%Q -> (qf v' n == k * qf v n)%Q) ->
  C11_stv_trace_scaled k (STV.stv cf votes n_seats prev caps)
                         (STV.stv cf (C11_stv_scale_votes k votes) n_seats prev caps).
Proof. intros k cf votes n prev caps Hk Hh. exact (STVScale_proofs.stv_scale k Hk cf votes n prev caps Hh). Qed.

Theorem C11_scale_stv : forall (k : Q) (quota : option (Q -> Z -> Q)) accept_equal mandatory step votes n_seats prev caps,
  (0 < k)%Q -> quota = None \/ quota = Some hare \/ quota = Some hagenbach_bischoff ->
  C11_stv_trace_scaled k (STV.stv (STV.Build_cfg quota accept_equal mandatory step) votes n_seats prev caps)
                         (STV.stv (STV.Build_cfg quota accept_equal mandatory step) (C11_stv_scale_votes k votes) n_seats prev caps).
Proof.
  intros k quota ae ma st votes n prev caps Hk Hq. apply (STVScale_proofs.stv_scale k Hk).
  destruct Hq as [->|[->| ->]];
    [apply STVScale_proofs.homog_none|apply STVScale_proofs.homog_hare|apply STVScale_proofs.homog_hb].
Qed.

Corollary C11_scale_stv_seats : forall (k : Q) (quota : option (Q -> Z -> Q)) accept_equal mandatory step votes n_seats prev caps,
  (0 < k)%Q -> quota = None \/ quota = Some hare \/ quota = Some hagenbach_bischoff ->
  STV.t_seats (STV.stv (STV.Build_cfg quota accept_equal mandatory step) (C11_stv_scale_votes k votes) n_seats prev caps)
  = STV.t_seats (STV.stv (STV.Build_cfg quota accept_equal mandatory step) votes n_seats prev caps) /\
  STV.t_stop (STV.stv (STV.Build_cfg quota accept_equal mandatory step) (C11_stv_scale_votes k votes) n_seats prev caps)
  = STV.t_stop (STV.stv (STV.Build_cfg quota accept_equal mandatory step) votes n_seats prev caps).
Proof.
  intros k quota ae ma st votes n prev caps Hk Hq.
  destruct (C11_scale_stv k quota ae ma st votes n prev caps Hk Hq) as (H1 & H2 & _). split; assumption.
Qed.

(* the Droop quota floor(v / (s + 1)) + 1 is not homogeneous, and the count with it is genuinely not scale-free,
   already for the integer factor 2 on integer ballot weights: D>C>A 3, B>A 4, A>{D,B}>C 2, B 1, two seats.
   droop 10 2 = 4 leaves B a surplus of 1 (a fifth of its 5 votes), droop 20 2 = 7 a surplus of 3 (three tenths):
   both counts complete, electing {B, D} and {B, A} (the implementation returns the same two results) *)
Theorem C11_stv_droop_not_scale_free : exists votes,
  let t := STV.stv (STV.Build_cfg (Some droop) true false (-1)) votes 2 [] [] in
  let t' := STV.stv (STV.Build_cfg (Some droop) true false (-1)) (C11_stv_scale_votes 2 votes) 2 [] [] in
  STV.t_stop t = None /\ STV.t_stop t' = None /\
  STV.t_seats t = [(2%positive, 1%Z); (4%positive, 1%Z)] /\ STV.t_seats t' = [(2%positive, 1%Z); (1%positive, 1%Z)].
Proof.
  exists [([Convert.IP 4%positive; Convert.IP 3%positive; Convert.IP 1%positive], 3%Q);
          ([Convert.IP 2%positive; Convert.IP 1%positive], 4%Q);
          ([Convert.IP 1%positive; Convert.IS [4%positive; 2%positive]; Convert.IP 3%positive], 2%Q);
          ([Convert.IP 2%positive], 1%Q)].
  vm_compute. repeat split; reflexivity.
Qed.

(* non-vacuity: a Hagenbach-Bischoff count over shared ranks and fractional weights with two quota elections,
   Gregory transfers and two eliminations, on votes scaled by (10^30 + 7) / 3 *)
Definition C11_stv_example_votes : list (STV.ballot * Q) :=
  let a := 1%positive in let b := 2%positive in let c := 3%positive in let d := 4%positive in
  [([Convert.IP a; Convert.IP b; Convert.IP c], 10); ([Convert.IP b; Convert.IP c], 4);
   ([Convert.IS [b; c]; Convert.IP d], 3); ([Convert.IP c; Convert.IP d], 3 # 2);
   ([Convert.IP d; Convert.IS [a; c]], 5); ([Convert.IP d], 1 # 3)]%Q.
Example C11_stv_example :
  let t := STV.stv (STV.Build_cfg (Some hagenbach_bischoff) false false (-1))
                   (C11_stv_scale_votes (1000000000000000000000000000007 # 3) C11_stv_example_votes) 3 [] [] in
  STV.t_seats t = [(1%positive, 1%Z); (4%positive, 1%Z); (2%positive, 1%Z)] /\ STV.t_stop t = None /\
  map snd (STV.t_counts t) = [[(1%positive, 1%Z)]; []; [(4%positive, 1%Z)]; []; []; [(2%positive, 1%Z)]].
Proof. vm_compute. repeat split; reflexivity. Qed.

(* Schulze: the whole Floyd-Warshall table of the scaled election is k times the table of the original one
   (min and max commute with multiplication by a positive integer), so the path-win relation, the scores and the
   ranking are unchanged - for every iteration order of the candidate set and every number of seats *)
Theorem C11_scale_schulze_paths : forall (k : Z) v order, (0 < k)%Z ->
  widest_paths (scalez k v) order = scalez k (widest_paths v order).
Proof. intros k v order Hk. exact (widest_paths_scale k Hk v order). Qed.

Theorem C11_scale_schulze : forall (k : Z) v order n, (0 < k)%Z ->
  schulze (scalez k v) order n = schulze v order n.
Proof. intros k v order n Hk. exact (schulze_scale k Hk v order n). Qed.

(* the clause as it was stated before it was proved (order = the dictionary's candidate order) *)
Definition C11_scale_full_statement : Prop :=
  forall (k : Z) v n, (0 < k)%Z ->
    schulze (scalez k v) (candidates v) n = schulze v (candidates v) n.
Theorem C11_scale_full : C11_scale_full_statement.
Proof. intros k v n Hk. exact (schulze_scale k Hk v (candidates v) n). Qed.

(* non-vacuity: a tie at the cut survives scaling by 10^30 + 7, and 10^30 vs 10^30 + 1 is not a tie *)
Example C11_example :
  get_n_best Qle_bool (scaleq (1000000000000000000000000000007 # 1) [(1%positive, 1#2); (2%positive, 2#4); (3%positive, 1#3)]%Q) 1
    = [TieR [1%positive; 2%positive]] /\
  get_n_best Qle_bool [(1%positive, 1000000000000000000000000000000 # 1); (2%positive, 1000000000000000000000000000001 # 1)]%Q 1
    = [Cand 2%positive].
Proof. vm_compute. split; reflexivity. Qed.

(* non-vacuity for Schulze: a five-candidate election with a beat cycle, scaled by 10^30 + 7 *)
Example C11_schulze_example :
  schulze (scalez 1000000000000000000000000000007 mono_v) (candidates mono_v) 3
    = [Cand 3%positive; Cand 2%positive; Cand 5%positive] /\
  schulze mono_v (candidates mono_v) 3 = [Cand 3%positive; Cand 2%positive; Cand 5%positive].
Proof. vm_compute. split; reflexivity. Qed.

(* ================================================================ second batch: the remaining modelled rules *)
(* ranked pairs and Kemeny-Young under the k-fold pairwise dictionary: pair strengths and Kemeny scores are k-fold,
   the sorted pair order, the locked graph and the set of best rankings (with its refusal) are unchanged *)
Theorem C11_scale_ranked_pairs : forall (k : Z) s v n, (0 < k)%Z -> ranked_pairs s (scalez k v) n = ranked_pairs s v n.
Proof. intros k s v n Hk. exact (Scale2_proofs.ranked_pairs_scale k Hk s v n). Qed.

Theorem C11_scale_kemeny : forall (k : Z) v n, (0 < k)%Z -> kemeny (scalez k v) n = kemeny v n.
Proof. intros k v n Hk. exact (Scale2_proofs.kemeny_scale k Hk v n). Qed.

(* the ADDITIVE family: ANY converter that is an accumulating fold of per-ballot images (keys of any type), followed by
   get_n_best.  The totals are k-fold (same keys, same order), the selection and its ties are unchanged. *)
Theorem C11_scale_additive : forall {K B : Type} (keqb : K -> K -> bool) (k : Q) (image : B -> list (K * Q))
    (votes : list (B * Q)) (n : nat), (0 < k)%Q ->
  get_n_best Qle_bool (GDict.conv keqb image (map (fun bw => (fst bw, (k * snd bw)%Q)) votes)) n
  = get_n_best Qle_bool (GDict.conv keqb image votes) n.
Proof. intros K B keqb k image votes n Hk. exact (Scale2Add_proofs.additive_scale keqb k Hk image votes n). Qed.

Theorem C11_scale_additive_totals : forall {K B : Type} (keqb : K -> K -> bool) (k : Q) (image : B -> list (K * Q))
    (votes : list (B * Q)), (0 < k)%Q ->
  Forall2 (fun x y : K * Q => fst x = fst y /\ (snd y == k * snd x)%Q)
          (GDict.conv keqb image votes) (GDict.conv keqb image (map (fun bw => (fst bw, (k * snd bw)%Q)) votes)).
Proof. intros K B keqb k image votes Hk. exact (Scale2Add_proofs.additive_totals_scale keqb k image votes). Qed.

(* instances over the converter images of Model/Convert.v: first preferences (plurality on ranked ballots), approval
   (plain, and split = satisfaction approval voting), presence counts *)
Theorem C11_scale_additive_first_preference : forall (k : Q) (votes : list (Convert.ranked * Q)) n, (0 < k)%Q ->
  get_n_best Qle_bool (Convert.dconv Convert.img_first (map (fun bw => (fst bw, (k * snd bw)%Q)) votes)) n
  = get_n_best Qle_bool (Convert.dconv Convert.img_first votes) n.
Proof. intros k votes n Hk. exact (Scale2Add_proofs.additive_scale GDict.sx_eqb k Hk Convert.img_first votes n). Qed.

Theorem C11_scale_additive_approval : forall (k : Q) (split : bool) (votes : list (list C * Q)) n, (0 < k)%Q ->
  get_n_best Qle_bool (Convert.dconv (Convert.img_approval_simple split) (map (fun bw => (fst bw, (k * snd bw)%Q)) votes)) n
  = get_n_best Qle_bool (Convert.dconv (Convert.img_approval_simple split) votes) n.
Proof. intros k split votes n Hk. exact (Scale2Add_proofs.additive_scale GDict.sx_eqb k Hk (Convert.img_approval_simple split) votes n). Qed.

Theorem C11_scale_additive_presence : forall (k : Q) (votes : list (Convert.ranked * Q)) n, (0 < k)%Q ->
  get_n_best Qle_bool (Convert.dconv Convert.img_presence (map (fun bw => (fst bw, (k * snd bw)%Q)) votes)) n
  = get_n_best Qle_bool (Convert.dconv Convert.img_presence votes) n.
Proof. intros k votes n Hk. exact (Scale2Add_proofs.additive_scale GDict.sx_eqb k Hk Convert.img_presence votes n). Qed.

(* the positional rules as the library runs them (Borda, Dowdall, geometric, modified Borda, fixed-top, sequence based):
   the number of candidates is read off the profile, a ballot with more ranks than candidates poisons the run (None) at
   both scales alike.  [option_map] of get_n_best over the converter's optional output. *)
Theorem C11_scale_additive_positional : forall (k : Q) (s : Convert.scorer) (votes : list (Convert.ranked * Q)) n, (0 < k)%Q ->
  let votes' := map (fun bw : Convert.ranked * Q => (fst bw, (k * snd bw)%Q)) votes in
  option_map (fun d => get_n_best Qle_bool d n)
    (Convert.oconv (Convert.img_positional s (length (Convert.cands_ranked votes'))) votes')
  = option_map (fun d => get_n_best Qle_bool d n)
    (Convert.oconv (Convert.img_positional s (length (Convert.cands_ranked votes))) votes).
Proof.
  intros k s votes n Hk votes'. exact (Scale2Add_proofs.positional_scale k s votes n Hk).
Qed.

(* PreferenceAddition = Bucklin / Oklahoma (Model/Bucklin.v): every coefficient specification (list or harmonic) or
   coefficient function, both splicing loops, with or without decoupling of shared ranks, every number of seats -
   including the error outcomes and the Tie.reconcile refusal *)
Theorem C11_scale_bucklin : forall (k : Q) fx (cs : Bucklin.coefspec) split (votes : list (Convert.ranked * Q)) n, (0 < k)%Q ->
  Bucklin.pa_evaluate fx cs split (map (fun bw => (fst bw, (k * snd bw)%Q)) votes) n = Bucklin.pa_evaluate fx cs split votes n.
Proof. intros k fx cs split votes n Hk. exact (Scale2Bucklin_proofs.pa_evaluate_scale k Hk fx cs split votes n). Qed.

Theorem C11_scale_preference_addition : forall (k : Q) fx (coef : nat -> Q) split (votes : list (Convert.ranked * Q)) n, (0 < k)%Q ->
  Bucklin.pa_eval fx coef split (map (fun bw => (fst bw, (k * snd bw)%Q)) votes) n = Bucklin.pa_eval fx coef split votes n.
Proof. intros k fx coef split votes n Hk. exact (Scale2Bucklin_proofs.pa_eval_scale k Hk fx coef split votes n). Qed.

Corollary C11_scale_bucklin_presets : forall (k : Q) fx (votes : list (Convert.ranked * Q)) n, (0 < k)%Q ->
  Bucklin.bucklin fx (map (fun bw => (fst bw, (k * snd bw)%Q)) votes) n = Bucklin.bucklin fx votes n /\
  Bucklin.oklahoma fx (map (fun bw => (fst bw, (k * snd bw)%Q)) votes) n = Bucklin.oklahoma fx votes n.
Proof. intros k fx votes n Hk. split; apply C11_scale_preference_addition; exact Hk. Qed.

(* PAV: the set of satisfaction-maximising committees, hence the refusal when it is not a singleton, and the order of
   the elected by satisfaction drop; SPAV: every round leader and every tie refusal *)
Theorem C11_scale_pav : forall (k : Q) (votes : Cardinal.aprofile) n, (0 < k)%Q ->
  Cardinal.pav (map (fun bw => (fst bw, (k * snd bw)%Q)) votes) n = Cardinal.pav votes n.
Proof. intros k votes n Hk. exact (Scale2PAV_proofs.pav_scale k Hk votes n). Qed.

Theorem C11_scale_pav_best : forall (k : Q) (votes : Cardinal.aprofile) cands n, (0 < k)%Q ->
  Cardinal.pav_best (map (fun bw => (fst bw, (k * snd bw)%Q)) votes) cands n = Cardinal.pav_best votes cands n.
Proof. intros k votes cands n Hk. exact (Scale2PAV_proofs.pav_best_scale k Hk votes cands n). Qed.

Theorem C11_scale_spav : forall (k : Q) (votes : Cardinal.aprofile) n, (0 < k)%Q ->
  Cardinal.spav (map (fun bw => (fst bw, (k * snd bw)%Q)) votes) n = Cardinal.spav votes n.
Proof. intros k votes n Hk. exact (Scale2PAV_proofs.spav_scale k Hk votes n). Qed.

(* ---- score voting (ScoreToSimpleVotes + get_n_best).  Score profiles carry integer ballot counts; the factor is a
   positive integer.  Scale-free configurations (Scale2Score_proofs.scale_free_cfg): min_count = 0 and either no
   truncation (<= 0) or a truncation FRACTION in (0, 1) that cuts a whole number of votes
   (floor (n_votes * t) = n_votes * t); any aggregate (mean, sum, low median), any unscored_value (none / constant / min). *)
Definition C11_score_scale_free (cf : Cardinal.score_cfg) (votes : Cardinal.sprofile) : Prop :=
  let n_votes := fold_left Z.add (map snd votes) 0%Z in
  Cardinal.sc_min_count cf = 0%Z /\
  (Qle_bool (Cardinal.sc_trunc cf) 0 = true \/
   (Qle_bool 1 (Cardinal.sc_trunc cf) = false /\ n_votes <> 0%Z /\
    (inject_Z (Qround.Qfloor (inject_Z n_votes * Cardinal.sc_trunc cf)) == inject_Z n_votes * Cardinal.sc_trunc cf)%Q)).

Theorem C11_scale_score_voting : forall (k : Z) (cf : Cardinal.score_cfg) (votes : Cardinal.sprofile) n, (0 < k)%Z ->
  C11_score_scale_free cf votes ->
  Cardinal.score_voting cf (map (fun bn => (fst bn, (k * snd bn)%Z)) votes) n = Cardinal.score_voting cf votes n.
Proof.
  intros k cf votes n Hk Hcf.
  exact (Scale2Score_proofs.score_voting_scale k Hk cf votes n (Scale2Score_proofs.scale_free_cfg_ok k cf votes Hk Hcf)).
Qed.

(* the aggregated scores themselves: identical keys and order; mean and low median are unchanged, the sum is k-fold *)
Theorem C11_scale_score_totals : forall (k : Z) (cf : Cardinal.score_cfg) (votes : Cardinal.sprofile), (0 < k)%Z ->
  C11_score_scale_free cf votes ->
  match Cardinal.score_to_simple cf votes, Cardinal.score_to_simple cf (map (fun bn => (fst bn, (k * snd bn)%Z)) votes) with
  | inl a, inl a' => Forall2 (fun x y : C * Q => fst x = fst y /\
                       (snd y == (match Cardinal.sc_fn cf with Cardinal.FSum => inject_Z k | _ => 1 end) * snd x)%Q) a a'
  | inr e, inr e' => e = e'
  | _, _ => False
  end.
Proof.
  intros k cf votes Hk Hcf.
  pose proof (Scale2Score_proofs.score_to_simple_rel k Hk cf votes _ (Scale2Score_proofs.scale_free_cfg_ok k cf votes Hk Hcf)
                (Scale2Score_proofs.sprel_scale k votes)) as H.
  unfold Scale2Score_proofs.sumrel in H.
  destruct (Cardinal.score_to_simple cf votes), (Cardinal.score_to_simple cf _); exact H.
Qed.

(* the three configurations outside [C11_score_scale_free] are genuinely not scale-free (factor 2, mean aggregate; the
   implementation returns the same pairs of winners): a positive min_count is an absolute number of votes ... *)
Theorem C11_scale_score_min_count_refuted : exists votes,
  let cf := Cardinal.Build_score_cfg Cardinal.FMean Cardinal.UNone 2 0 0 in
  Cardinal.score_voting cf votes 1 = inl [Cand 2%positive] /\
  Cardinal.score_voting cf (map (fun bn => (fst bn, (2 * snd bn)%Z)) votes) 1 = inl [Cand 1%positive].
Proof. exists [([(1%positive, 5%Q)], 1%Z); ([(2%positive, 1%Q)], 2%Z)]. vm_compute. split; reflexivity. Qed.

(* ... so is a truncation given as a COUNT (>= 1): one vote cut at each end of 5, and of 10 ... *)
Theorem C11_scale_score_truncation_count_refuted : exists votes,
  let cf := Cardinal.Build_score_cfg Cardinal.FMean Cardinal.UNone 0 1 0 in
  Cardinal.score_voting cf votes 1 = inl [Cand 2%positive] /\
  Cardinal.score_voting cf (map (fun bn => (fst bn, (2 * snd bn)%Z)) votes) 1 = inl [Cand 1%positive].
Proof.
  exists [([(1%positive, 0%Q); (2%positive, 2%Q)], 1%Z); ([(1%positive, 1%Q); (2%positive, 2%Q)], 2%Z);
          ([(1%positive, 3%Q); (2%positive, 2%Q)], 1%Z); ([(1%positive, 10%Q); (2%positive, 2%Q)], 1%Z)].
  vm_compute. split; reflexivity.
Qed.

(* ... and a truncation FRACTION that does not cut a whole number of votes: 3/10 of 5 votes cuts int(1.5) = 1 at each
   end, 3/10 of 10 votes cuts 3 - proportionally more (means 50/3 vs 15 against a constant 16) *)
Theorem C11_scale_score_truncation_fraction_refuted : exists votes,
  let cf := Cardinal.Build_score_cfg Cardinal.FMean Cardinal.UNone 0 (3 # 10) 0 in
  Cardinal.score_voting cf votes 1 = inl [Cand 1%positive] /\
  Cardinal.score_voting cf (map (fun bn => (fst bn, (2 * snd bn)%Z)) votes) 1 = inl [Cand 2%positive].
Proof.
  exists [([(1%positive, 0%Q); (2%positive, 16%Q)], 1%Z); ([(1%positive, 10%Q); (2%positive, 16%Q)], 2%Z);
          ([(1%positive, 30%Q); (2%positive, 16%Q)], 1%Z); ([(1%positive, 100%Q); (2%positive, 16%Q)], 1%Z)].
  vm_compute. split; reflexivity.
Qed.

(* ---- majority judgment.  The first stage (corrected scores, low medians, the order and whether / among whom a tie has
   to be broken) is scale-free in the same configurations; the PLUS tie-break (share of scores at or above the shared
   median) is scale-free, so majority judgment with it is: *)
Theorem C11_scale_mj_plus : forall (k : Z) (cf : Cardinal.score_cfg) (votes : Cardinal.sprofile) n, (0 < k)%Z ->
  C11_score_scale_free cf votes ->
  Cardinal.majority_judgment true cf (map (fun bn => (fst bn, (k * snd bn)%Z)) votes) n = Cardinal.majority_judgment true cf votes n.
Proof.
  intros k cf votes n Hk Hcf.
  exact (Scale2Score_proofs.mj_plus_scale k Hk cf votes n (Scale2Score_proofs.scale_free_cfg_ok k cf votes Hk Hcf)).
Qed.

(* with either rule, whenever the medians decide (no tie at the cut) - and whether they decide is itself scale-free *)
Theorem C11_scale_mj_tie_free : forall (k : Z) plus (cf : Cardinal.score_cfg) (votes : Cardinal.sprofile) n, (0 < k)%Z ->
  C11_score_scale_free cf votes ->
  let votes' := map (fun bn : Convert.sballot * Z => (fst bn, (k * snd bn)%Z)) votes in
  Scale2Score_proofs.mj_tie_free cf votes' n = Scale2Score_proofs.mj_tie_free cf votes n /\
  (Scale2Score_proofs.mj_tie_free cf votes n = true ->
   Cardinal.majority_judgment plus cf votes' n = Cardinal.majority_judgment plus cf votes n).
Proof.
  intros k plus cf votes n Hk Hcf votes'. pose proof (Scale2Score_proofs.scale_free_cfg_ok k cf votes Hk Hcf) as Hok. split.
  - exact (Scale2Score_proofs.mj_tie_free_scale_iff k Hk cf votes n Hok).
  - intros Hfree. exact (Scale2Score_proofs.mj_tie_free_scale k Hk plus cf votes n Hok Hfree).
Qed.

(* the DEFAULT tie-break (repeated removal of median scores): majority judgment with it is scale-free as soon as the
   tie-breaking routine itself is, on k-fold score dictionaries (same candidates, same scores, every count k-fold) *)
Theorem C11_scale_mj_default_reduction : forall (k : Z) (cf : Cardinal.score_cfg) (votes : Cardinal.sprofile) n, (0 < k)%Z ->
  C11_score_scale_free cf votes ->
  (forall sub sub' j,
     Forall2 (fun x y : C * Cardinal.cscores => fst x = fst y /\
                Forall2 (fun s t : Q * Z => fst s = fst t /\ snd t = (k * snd s)%Z) (snd x) (snd y)) sub sub' ->
     Cardinal.mj_default (Scale2Score_proofs.mj_fuel sub') sub' j = Cardinal.mj_default (Scale2Score_proofs.mj_fuel sub) sub j) ->
  Cardinal.majority_judgment false cf (map (fun bn => (fst bn, (k * snd bn)%Z)) votes) n = Cardinal.majority_judgment false cf votes n.
Proof.
  intros k cf votes n Hk Hcf Hdef.
  apply (Scale2Score_proofs.majority_judgment_rel k Hk false cf votes _ n (Scale2Score_proofs.scale_free_cfg_ok k cf votes Hk Hcf)
           (Scale2Score_proofs.sprel_scale k votes)).
  intros _ sc tied sub' j _ Hs. exact (Hdef _ sub' j Hs).
Qed.

(* ... which it is NOT on partial ballots (known finding C11-mj-default-scale): the median removal takes the same number
   of scores from every level candidate, so a candidate scored by fewer voters can run out of scores at one scale
   (StatisticsError) and not at another.  {A:1,B:0,C:0} x3, {C:1} x3, {C:0} x2, two seats: error at k = 1, [A; C] at k = 2, 3
   (the implementation: StatisticsError / ['A', 'C'] / ['A', 'C']) *)
Theorem C11_scale_mj_default_partial_ballots_refuted : exists votes,
  let cf := Cardinal.Build_score_cfg Cardinal.FMedianLow Cardinal.UNone 0 0 0 in
  Cardinal.majority_judgment false cf votes 2 = inr Cardinal.SE_stats /\
  Cardinal.majority_judgment false cf (map (fun bn => (fst bn, (2 * snd bn)%Z)) votes) 2 = inl [Cand 1%positive; Cand 3%positive] /\
  Cardinal.majority_judgment false cf (map (fun bn => (fst bn, (3 * snd bn)%Z)) votes) 2 = inl [Cand 1%positive; Cand 3%positive].
Proof.
  exists [([(1%positive, 1%Q); (2%positive, 0%Q); (3%positive, 0%Q)], 3%Z); ([(3%positive, 1%Q)], 3%Z); ([(3%positive, 0%Q)], 2%Z)].
  vm_compute. repeat split; reflexivity.
Qed.

(* On BALANCED score dictionaries - every candidate has the same number of (corrected) scores, the counts are
   nonnegative and the scores of a candidate pairwise different - the default rule IS scale-free.  The removal step
   max(1, min_c min(ceil(lower - T/2), ceil(T/2 - upper))) is not homogeneous, so the k-fold run is not the k-fold of
   the original run; the proof (Scale2MJ_proofs.v) goes through a one-score-at-a-time normal form of the loop:
   mj_default with its fuel equals it (a block of removals never passes the first change of a median), the normal
   form of the k-fold election follows the one of the original election (each original removal is matched by k
   removals, k - 1 of which find every candidate still level), and it is deterministic. *)
Theorem C11_scale_mj_default_balanced : forall (k : Z) (cf : Cardinal.score_cfg) (votes : Cardinal.sprofile) n, (0 < k)%Z ->
  C11_score_scale_free cf votes ->
  (forall sc, Cardinal.corrected_scores cf votes = inl sc -> exists T, Scale2MJ_proofs.Inv sc T) ->
  Cardinal.majority_judgment false cf (map (fun bn => (fst bn, (k * snd bn)%Z)) votes) n = Cardinal.majority_judgment false cf votes n.
Proof.
  intros k cf votes n Hk Hcf Hbal.
  exact (Scale2MJ_proofs.mj_default_scale k Hk cf votes n (Scale2Score_proofs.scale_free_cfg_ok k cf votes Hk Hcf) Hbal).
Qed.

(* complete ballots (every ballot scores every candidate exactly once, positive counts), min_count = 0, no truncation,
   any unscored_value: the corrected dictionaries are balanced, hence the clause as it was stated before it was proved *)
Definition C11_complete_ballots (votes : Cardinal.sprofile) : Prop :=
  forall b n, In (b, n) votes -> (0 < n)%Z /\ NoDup (map fst b) /\
    forall c, In c (flat_map (fun bn : Convert.sballot * Z => map fst (fst bn)) votes) -> In c (map fst b).
Definition C11_scale_mj_default_full_statement : Prop :=
  forall (k : Z) (cf : Cardinal.score_cfg) (votes : Cardinal.sprofile) n, (0 < k)%Z ->
    Cardinal.sc_min_count cf = 0%Z -> Qle_bool (Cardinal.sc_trunc cf) 0 = true -> C11_complete_ballots votes ->
    Cardinal.majority_judgment false cf (map (fun bn => (fst bn, (k * snd bn)%Z)) votes) n = Cardinal.majority_judgment false cf votes n.
Theorem C11_scale_mj_default_full : C11_scale_mj_default_full_statement.
Proof.
  intros k cf votes n Hk Hmc Htr Hc. apply (C11_scale_mj_default_balanced k cf votes n Hk).
  - split; [exact Hmc|left; exact Htr].
  - intros sc Hsc. exists (Scale2Score_proofs.sp_total votes).
    exact (Scale2Complete_proofs.complete_balanced cf votes sc Hmc Htr Hc Hsc).
Qed.

(* ---- non-vacuity of the second batch *)
Example C11_ranked_pairs_kemeny_example :
  ranked_pairs Margins (scalez 1000000000000000000000000000007 mono_v) 3 = ranked_pairs Margins mono_v 3 /\
  (exists r, ranked_pairs Margins mono_v 3 = CR_ok r /\ length r = 3%nat) /\
  kemeny (scalez 1000000000000000000000000000007 mono_v) 2 = kemeny mono_v 2 /\
  (exists r, kemeny mono_v 2 = CR_ok r /\ length r = 2%nat).
Proof. vm_compute. repeat split; try reflexivity; eexists; split; reflexivity. Qed.

Definition C11_ranked_example : list (Convert.ranked * Q) :=
  let a := 1%positive in let b := 2%positive in let c := 3%positive in let d := 4%positive in
  [([Convert.IP a; Convert.IP b; Convert.IP c], 4); ([Convert.IP b; Convert.IS [a; c]; Convert.IP d], 3 # 2);
   ([Convert.IP c; Convert.IP b], 5 # 2); ([Convert.IP d; Convert.IP c; Convert.IP b; Convert.IP a], 3)]%Q.

(* Borda on the example: the tie for the seat between the exact totals 82/4 and 82/4 of B and C is reported on the
   votes scaled by (10^30 + 7) / 3 as well; Bucklin with decoupled shared ranks elects by the scaled majority threshold *)
Example C11_additive_bucklin_example :
  let votes' := map (fun bw : Convert.ranked * Q => (fst bw, ((1000000000000000000000000000007 # 3) * snd bw)%Q)) C11_ranked_example in
  option_map (fun d => get_n_best Qle_bool d 1)
    (Convert.oconv (Convert.img_positional (Convert.Borda 0) (length (Convert.cands_ranked votes'))) votes')
  = Some [TieR [Sx.A 2; Sx.A 3]] /\
  option_map (fun d => get_n_best Qle_bool d 1)
    (Convert.oconv (Convert.img_positional (Convert.Borda 0) (length (Convert.cands_ranked C11_ranked_example))) C11_ranked_example)
  = Some [TieR [Sx.A 2; Sx.A 3]] /\
  Bucklin.bucklin true votes' 2 = Bucklin.PA_ok [Cand 2%positive; Cand 3%positive] /\
  Bucklin.bucklin true C11_ranked_example 2 = Bucklin.PA_ok [Cand 2%positive; Cand 3%positive].
Proof. vm_compute. repeat split; reflexivity. Qed.

(* PAV / SPAV at (10^30 + 7) / 3: a unique optimal committee, and an exactly tied pair of committees that is refused *)
Example C11_pav_example :
  let a := 1%positive in let b := 2%positive in let c := 3%positive in
  let sc (v : Cardinal.aprofile) := map (fun bw : list C * Q => (fst bw, ((1000000000000000000000000000007 # 3) * snd bw)%Q)) v in
  let v1 : Cardinal.aprofile := [([a; b], 3); ([a; c], 2); ([c], 2)]%Q in
  let v2 : Cardinal.aprofile := [([a; b], 3); ([c], 3)]%Q in
  Cardinal.pav (sc v1) 2 = Cardinal.AR_ok [Cand a; Cand c] /\ Cardinal.pav v1 2 = Cardinal.AR_ok [Cand a; Cand c] /\
  Cardinal.pav (sc v2) 2 = Cardinal.AR_nie /\ Cardinal.pav v2 2 = Cardinal.AR_nie /\
  Cardinal.spav (sc v1) 2 = Some [a; c] /\ Cardinal.spav v1 2 = Some [a; c] /\
  Cardinal.spav (sc v2) 2 = None /\ Cardinal.spav v2 2 = None.
Proof. vm_compute. repeat split; reflexivity. Qed.

Definition C11_score_example : Cardinal.sprofile :=
  let a := 1%positive in let b := 2%positive in let c := 3%positive in
  [([(a, 3); (b, 3); (c, 1)], 2%Z); ([(a, 1); (b, 2); (c, 3)], 1%Z); ([(a, 3); (b, 3); (c, 3)], 2%Z);
   ([(a, 0); (b, 1); (c, 3)], 2%Z); ([(a, 4); (b, 3); (c, 3)], 1%Z)]%Q.

(* a truncated mean that is covered: 1/4 of 8 votes is a whole number of votes *)
Example C11_score_example_covered :
  C11_score_scale_free (Cardinal.Build_score_cfg Cardinal.FMean Cardinal.UMin 0 (1 # 4) 0) C11_score_example /\
  C11_score_scale_free (Cardinal.Build_score_cfg Cardinal.FSum (Cardinal.UConst 0) 0 0 0) C11_score_example.
Proof.
  split; (split; [reflexivity|]); [right|left; reflexivity].
  split; [reflexivity|]. split; [discriminate|]. vm_compute. reflexivity.
Qed.

(* all three candidates share the median 3: the default tie-break runs (several removal rounds) and gives the same
   answer at k = 1, 2, 3, 7, for one and for two seats; the example profile consists of complete ballots *)
Example C11_mj_default_example :
  let cf := Cardinal.Build_score_cfg Cardinal.FMedianLow Cardinal.UNone 0 0 0 in
  let sc k := map (fun bn : Convert.sballot * Z => (fst bn, (k * snd bn)%Z)) C11_score_example in
  Scale2Score_proofs.mj_tie_free cf C11_score_example 1 = false /\
  Cardinal.majority_judgment false cf C11_score_example 1 = inl [Cand 3%positive] /\
  Cardinal.majority_judgment false cf (sc 2%Z) 1 = inl [Cand 3%positive] /\
  Cardinal.majority_judgment false cf (sc 3%Z) 1 = inl [Cand 3%positive] /\
  Cardinal.majority_judgment false cf (sc 7%Z) 1 = inl [Cand 3%positive] /\
  Cardinal.majority_judgment false cf C11_score_example 2 = inl [Cand 3%positive; Cand 2%positive] /\
  Cardinal.majority_judgment false cf (sc 2%Z) 2 = inl [Cand 3%positive; Cand 2%positive] /\
  Cardinal.majority_judgment false cf (sc 7%Z) 2 = inl [Cand 3%positive; Cand 2%positive].
Proof. vm_compute. repeat split; reflexivity. Qed.

Example C11_mj_default_example_complete : C11_complete_ballots C11_score_example.
Proof.
  intros b n Hin. unfold C11_score_example in Hin. cbn [In] in Hin.
  repeat (destruct Hin as [Hin|Hin]; [injection Hin as <- <-; split; [reflexivity|]; split;
    [repeat constructor; cbn; intuition discriminate|cbn; intuition]|]). destruct Hin.
Qed.

(* ================================================================ third batch: the threshold family and STAR *)
(* ---- seatless threshold selectors (Model/Threshold.v).  A RELATIVE threshold compares the share v / total with its
   fraction: scale-free.  An ABSOLUTE threshold compares v with a number of votes: it scales WITH its line
   (the k-fold electorate measured against the k-fold line), and is not scale-free when the line is kept.
   AlternativeThresholds (any nesting) inherit both facts: [sel_scale k] multiplies every absolute line by k. *)
Theorem C11_scale_relative_threshold : forall (k : Q) (t : Q) (ae : bool) (votes : list (C * Q)), (0 < k)%Q ->
  Threshold.sel_eval (Threshold.SRel t ae) (scaleq k votes) = Threshold.sel_eval (Threshold.SRel t ae) votes.
Proof.
  intros k t ae votes Hk.
  exact (ScaleThr_proofs.sel_eval_rel k Hk (Threshold.SRel t ae) _ _ (ScaleThr_proofs.vrel_scaleq k votes)).
Qed.

Theorem C11_scale_absolute_threshold : forall (k : Q) (t : Q) (ae : bool) (votes : list (C * Q)), (0 < k)%Q ->
  Threshold.sel_eval (Threshold.SAbs (k * t) ae) (scaleq k votes) = Threshold.sel_eval (Threshold.SAbs t ae) votes.
Proof.
  intros k t ae votes Hk.
  exact (ScaleThr_proofs.sel_eval_rel k Hk (Threshold.SAbs t ae) _ _ (ScaleThr_proofs.vrel_scaleq k votes)).
Qed.

Theorem C11_scale_threshold : forall (k : Q) (s : Threshold.sel) (votes : list (C * Q)), (0 < k)%Q ->
  Threshold.sel_eval (ScaleThr_proofs.sel_scale k s) (scaleq k votes) = Threshold.sel_eval s votes.
Proof. intros k s votes Hk. exact (ScaleThr_proofs.sel_eval_rel k Hk s _ _ (ScaleThr_proofs.vrel_scaleq k votes)). Qed.

(* a selector built from relative thresholds only (any nesting of AlternativeThresholds) is scale-free as it is *)
Theorem C11_scale_threshold_relative : forall (k : Q) (s : Threshold.sel) (votes : list (C * Q)), (0 < k)%Q ->
  ScaleThr_proofs.sel_relative s = true ->
  Threshold.sel_eval s (scaleq k votes) = Threshold.sel_eval s votes.
Proof.
  intros k s votes Hk Hs. exact (ScaleThr_proofs.sel_eval_relative_rel k Hk s _ _ Hs (ScaleThr_proofs.vrel_scaleq k votes)).
Qed.

(* an absolute threshold with the line KEPT is not scale-free (it is a number of votes, by its documentation):
   3 votes against the line 5 fail, the doubled 6 votes pass *)
Theorem C11_scale_absolute_threshold_kept_line_refuted : exists votes,
  Threshold.sel_eval (Threshold.SAbs 5 true) votes = [1%positive] /\
  Threshold.sel_eval (Threshold.SAbs 5 true) (scaleq 2 votes) = [1%positive; 2%positive].
Proof. exists [(1%positive, 7%Q); (2%positive, 3%Q)]. vm_compute. split; reflexivity. Qed.

(* the bracketers (CoalitionMemberBracketer, PropertyBracketer): every configured selector and the default scaled alike *)
Theorem C11_scale_bracketer : forall (k : Q) evals default bracket (votes : list (C * Q)), (0 < k)%Q ->
  Threshold.bracket_eval (ScaleThr_proofs.evals_scale k evals) (option_map (ScaleThr_proofs.sel_scale k) default) bracket (scaleq k votes)
  = Threshold.bracket_eval evals default bracket votes.
Proof.
  intros k evals default bracket votes Hk.
  exact (ScaleThr_proofs.bracket_eval_rel k Hk evals default bracket _ _ (ScaleThr_proofs.vrel_scaleq k votes)).
Qed.

(* ---- QuotaSelector (approval.py; Model/QuotaDistributor.v qsel_evaluate) with a homogeneous quota function - Hare,
   Hagenbach-Bischoff, Imperiali -, both accept_equal settings, both on_more_over_quota policies, the refusal included *)
Theorem C11_scale_quota_selector : forall (k : Q) (i : Z) accept_equal select (votes : list (C * Q)) n, (0 < k)%Q ->
  homogeneous_quota i = true ->
  qsel_evaluate (quota_fn (QNamed i)) accept_equal select (scaleq k votes) n
  = qsel_evaluate (quota_fn (QNamed i)) accept_equal select votes n.
Proof.
  intros k i ae se votes n Hk Hi.
  exact (ScaleThr_proofs.qsel_evaluate_rel k Hk _ ae se _ _ n (quota_fn_homog k i Hi) (ScaleThr_proofs.vrel_scaleq k votes)).
Qed.

(* any quota function that is homogeneous, and a CONSTANT quota scaled with the votes *)
Theorem C11_scale_quota_selector_homogeneous : forall (k : Q) (quota : Q -> Z -> Q) accept_equal select (votes : list (C * Q)) n,
  (0 < k)%Q -> (forall v v' m, (v' == k * v)%Q -> (quota v' m == k * quota v m)%Q) ->
  qsel_evaluate quota accept_equal select (scaleq k votes) n = qsel_evaluate quota accept_equal select votes n.
Proof.
  intros k quota ae se votes n Hk Hq.
  exact (ScaleThr_proofs.qsel_evaluate_rel k Hk quota ae se _ _ n Hq (ScaleThr_proofs.vrel_scaleq k votes)).
Qed.

Theorem C11_scale_quota_selector_constant : forall (k : Q) (q : Q) accept_equal select (votes : list (C * Q)) n, (0 < k)%Q ->
  qsel_evaluate (quota_fn (QConst (k * q))) accept_equal select (scaleq k votes) n
  = qsel_evaluate (quota_fn (QConst q)) accept_equal select votes n.
Proof.
  intros k q ae se votes n Hk.
  apply (ScaleThr_proofs.qsel_evaluate_rel2 k Hk (quota_fn (QConst q)) (quota_fn (QConst (k * q))) ae se _ _ n);
    [|exact (ScaleThr_proofs.vrel_scaleq k votes)].
  intros v v' m _. unfold quota_fn, qsc. reflexivity.
Qed.

(* The ROUNDED quotas - hare_rounded 2, droop 3, hagenbach_bischoff_ceil 5, hagenbach_bischoff_rounded 6 - are not homogeneous
   (quota (2 v) n is not 2 quota v n), and the selector with them is genuinely not scale-free.  The property's quantifier
   names "exact quotas (hare, hagenbach_bischoff, imperiali)": for the rounded ones its scale clause does not apply - what
   remains for them is the exactness of the comparison with the (rounded) quota, C11_tie_exact. *)
Theorem C11_quota_rounded_not_homogeneous :
  ~ (quota_fn (QNamed 2) (2 * 5) 2 == 2 * quota_fn (QNamed 2) 5 2)%Q /\
  ~ (quota_fn (QNamed 3) (2 * 4) 2 == 2 * quota_fn (QNamed 3) 4 2)%Q /\
  ~ (quota_fn (QNamed 5) (2 * 4) 2 == 2 * quota_fn (QNamed 5) 4 2)%Q /\
  ~ (quota_fn (QNamed 6) (2 * 5) 1 == 2 * quota_fn (QNamed 6) 5 1)%Q.
Proof. repeat split; vm_compute; discriminate. Qed.

(* witnesses (the implementation returns the same pairs of answers): hare_rounded - A 1, B 1, C 2, three seats: quota
   round(4/3) = 1, everybody is over it; doubled: round(8/3) = 3, only C is.  Droop, one seat, strict comparison - A 3, B 2:
   quota 3, nobody strictly over; tripled: quota 8, A (9) is.  hagenbach_bischoff_ceil likewise with factor 2 (A 3 of 5:
   ceil(5/2) = 3; 6 of 10: 5).  hagenbach_bischoff_rounded - A 1, B 1, C 2, two seats: quota round(4/3) = 1, C elected and
   A, B tied for the second seat; doubled: round(8/3) = 3, only C. *)
Theorem C11_scale_quota_selector_rounded_refuted :
  (exists votes, qsel_evaluate (quota_fn (QNamed 2)) true true votes 3 = QS_ok [Cand 3%positive; Cand 1%positive; Cand 2%positive] /\
                 qsel_evaluate (quota_fn (QNamed 2)) true true (scaleq 2 votes) 3 = QS_ok [Cand 3%positive]) /\
  (exists votes, qsel_evaluate (quota_fn (QNamed 3)) false true votes 1 = QS_ok [] /\
                 qsel_evaluate (quota_fn (QNamed 3)) false true (scaleq 3 votes) 1 = QS_ok [Cand 1%positive]) /\
  (exists votes, qsel_evaluate (quota_fn (QNamed 5)) false true votes 1 = QS_ok [] /\
                 qsel_evaluate (quota_fn (QNamed 5)) false true (scaleq 2 votes) 1 = QS_ok [Cand 1%positive]) /\
  (exists votes, qsel_evaluate (quota_fn (QNamed 6)) true true votes 2 = QS_ok [Cand 3%positive; TieR [1%positive; 2%positive]] /\
                 qsel_evaluate (quota_fn (QNamed 6)) true true (scaleq 2 votes) 2 = QS_ok [Cand 3%positive]).
Proof.
  split; [|split; [|split]].
  - exists [(1%positive, 1%Q); (2%positive, 1%Q); (3%positive, 2%Q)]. vm_compute. split; reflexivity.
  - exists [(1%positive, 3%Q); (2%positive, 2%Q)]. vm_compute. split; reflexivity.
  - exists [(1%positive, 3%Q); (2%positive, 2%Q)]. vm_compute. split; reflexivity.
  - exists [(1%positive, 1%Q); (2%positive, 1%Q); (3%positive, 2%Q)]. vm_compute. split; reflexivity.
Qed.

(* largest remainder with the rounded quotas is not scale-free either (registry entry lr_droop; the implementation
   returns the same pairs): Droop - A 1, B 2, C 9, three seats: {B 1, C 2}, tripled {C 3}; hare_rounded - A 1, B 3, C 8, five
   seats: {B 1, C 4}, doubled {A 1, B 1, C 3}; hagenbach_bischoff_ceil / _rounded - A 1, B 2, C 6, five seats:
   {A 1, B 1, C 3}, doubled {B 1, C 4} *)
Theorem C11_scale_largest_remainder_rounded_refuted :
  (exists votes, lr_evaluate (quota_fn (QNamed 3)) true PError votes 3 [] [] = LR_ok [(K 3%positive, 2%Z); (K 2%positive, 1%Z)] /\
                 lr_evaluate (quota_fn (QNamed 3)) true PError (scaleq 3 votes) 3 [] [] = LR_ok [(K 3%positive, 3%Z)]) /\
  (exists votes, lr_evaluate (quota_fn (QNamed 2)) true PError votes 5 [] [] <> lr_evaluate (quota_fn (QNamed 2)) true PError (scaleq 2 votes) 5 [] []) /\
  (exists votes, lr_evaluate (quota_fn (QNamed 5)) true PError votes 5 [] [] <> lr_evaluate (quota_fn (QNamed 5)) true PError (scaleq 2 votes) 5 [] []) /\
  (exists votes, lr_evaluate (quota_fn (QNamed 6)) true PError votes 5 [] [] <> lr_evaluate (quota_fn (QNamed 6)) true PError (scaleq 2 votes) 5 [] []).
Proof.
  split; [|split; [|split]].
  - exists [(1%positive, 1%Q); (2%positive, 2%Q); (3%positive, 9%Q)]. vm_compute. split; reflexivity.
  - exists [(1%positive, 1%Q); (2%positive, 3%Q); (3%positive, 8%Q)]. vm_compute. discriminate.
  - exists [(1%positive, 1%Q); (2%positive, 2%Q); (3%positive, 6%Q)]. vm_compute. discriminate.
  - exists [(1%positive, 1%Q); (2%positive, 2%Q); (3%positive, 6%Q)]. vm_compute. discriminate.
Qed.

(* ---- Conditioned(threshold, highest averages) (Model/Conditioned.v): the composition - the eliminator returns the same
   parties (C11_scale_threshold), the subsetted votes are the k-fold of the subsetted votes, highest averages over them is
   scale-free (C11_scale_highest_averages); any selector, any divisor, previous gains and caps, the refusal of an empty
   selection included *)
Theorem C11_scale_conditioned_highest_averages : forall (k : Q) (s : Threshold.sel) (d : Z -> Q) (votes : list (C * Q)) n prev caps,
  (0 < k)%Q ->
  Conditioned.conditioned_ha (ScaleThr_proofs.sel_scale k s) d (scaleq k votes) n prev caps = Conditioned.conditioned_ha s d votes n prev caps.
Proof. intros k s d votes n prev caps Hk. exact (ScaleThr_proofs.conditioned_ha_scale k Hk s d votes n prev caps). Qed.

Corollary C11_scale_conditioned_relative : forall (k : Q) (s : Threshold.sel) (d : Z -> Q) (votes : list (C * Q)) n prev caps,
  (0 < k)%Q -> ScaleThr_proofs.sel_relative s = true ->
  Conditioned.conditioned_ha s d (scaleq k votes) n prev caps = Conditioned.conditioned_ha s d votes n prev caps.
Proof.
  intros k s d votes n prev caps Hk Hs. rewrite <- (ScaleThr_proofs.sel_scale_relative k s Hs) at 1.
  apply C11_scale_conditioned_highest_averages, Hk.
Qed.

(* ---- ThresholdOpenList (Model/Threshold.v openlist_eval): the jump threshold is relative - a fraction of the list's total
   and / or a homogeneous quota of it (take_higher either way) - so the candidates that jump, the cut by list order
   (list_precedence) or by votes, and the fill-up from the list are the same *)
Theorem C11_scale_open_list : forall (k : Q) (cfg : Threshold.ol_cfg) (votes : list (C * Q)) n lst, (0 < k)%Q ->
  (forall qf, Threshold.ol_quota cfg = Some qf -> forall v v' m, (v' == k * v)%Q -> (qf v' m == k * qf v m)%Q) ->
  Threshold.openlist_eval cfg (scaleq k votes) n lst = Threshold.openlist_eval cfg votes n lst.
Proof.
  intros k cfg votes n lst Hk Hq.
  exact (ScaleThr_proofs.openlist_eval_rel k Hk cfg _ _ n lst Hq (ScaleThr_proofs.vrel_scaleq k votes)).
Qed.

(* the configurations the library can build: no quota, or a named homogeneous quota times quota_fraction *)
Corollary C11_scale_open_list_named : forall (k : Q) jump (quota : option (Z * Q)) th ae lp (votes : list (C * Q)) n lst, (0 < k)%Q ->
  (forall i fr, quota = Some (i, fr) -> homogeneous_quota i = true) ->
  let cfg := Threshold.Build_ol_cfg jump (option_map (fun ifr : Z * Q => fun t s => (quota_fn (QNamed (fst ifr)) t s * snd ifr)%Q) quota) th ae lp in
  Threshold.openlist_eval cfg (scaleq k votes) n lst = Threshold.openlist_eval cfg votes n lst.
Proof.
  intros k jump quota th ae lp votes n lst Hk Hq cfg. apply C11_scale_open_list; [exact Hk|].
  intros qf Hqf v v' m Hv. unfold cfg in Hqf. cbn [Threshold.ol_quota] in Hqf.
  destruct quota as [[i fr]|]; cbn [option_map fst snd] in Hqf; [|discriminate]. injection Hqf as <-.
  pose proof (quota_fn_homog k i (Hq i fr eq_refl) v v' m Hv) as H. unfold qsc in H. change (quota_fn (QNamed i) v' m * fr == k * (quota_fn (QNamed i) v m * fr))%Q. rewrite H. ring.
Qed.

(* ---- STAR (Model/Star.v): score sums k-fold -> the same run-off members; run-off supports k-fold; Schulze over them is
   scale-free (C11_scale_schulze).  Score profiles carry integer counts: the factor is a positive integer.  Every
   iteration order of the candidate set, every number of seats, the error outcomes included. *)
Theorem C11_scale_star : forall (k : Z) (votes : Cardinal.sprofile) order n, (0 < k)%Z ->
  Star.star (map (fun bn => (fst bn, (k * snd bn)%Z)) votes) order n = Star.star votes order n.
Proof. intros k votes order n Hk. exact (ScaleStar_proofs.star_scale k Hk votes order n). Qed.

Theorem C11_scale_star_auto : forall (k : Z) (votes : Cardinal.sprofile) n, (0 < k)%Z ->
  Star.star_auto (map (fun bn => (fst bn, (k * snd bn)%Z)) votes) n = Star.star_auto votes n.
Proof. intros k votes n Hk. exact (ScaleStar_proofs.star_auto_scale k Hk votes n). Qed.

Theorem C11_scale_star_pairwise : forall (k : Z) (votes : Cardinal.sprofile) members,
  Star.star_pairwise (map (fun bn => (fst bn, (k * snd bn)%Z)) votes) members = scalez k (Star.star_pairwise votes members).
Proof. intros k votes members. exact (ScaleStar_proofs.star_pairwise_scale k votes members). Qed.

(* ---- non-vacuity of the third batch: a party exactly on the 5 % line (accept_equal both ways), one vote above and one vote
   below it at 10^30 + 7; Conditioned(5 %, D'Hondt) over them; a quota selector with a party exactly on the Hare quota; an open
   list whose jump threshold is the higher of 1/4 of the total and half a Hare quota; STAR whose run-off is decided against
   the score sums (sums A 14, B 13, C 9: run-off A, B; B is preferred by 3 of 5 voters) at k = 7 *)
Example C11_threshold_example :
  let K := (1000000000000000000000000000007 # 1)%Q in
  let votes : list (C * Q) := [(1%positive, 60); (2%positive, 5); (3%positive, 35)]%Q in
  let above : list (C * Q) := [(1%positive, 60 * K); (2%positive, 5 * K + 1); (3%positive, 35 * K - 1)]%Q in
  let below : list (C * Q) := [(1%positive, 60 * K); (2%positive, 5 * K - 1); (3%positive, 35 * K + 1)]%Q in
  Threshold.sel_eval (Threshold.SRel (1 # 20) true) (scaleq K votes) = [1%positive; 3%positive; 2%positive] /\
  Threshold.sel_eval (Threshold.SRel (1 # 20) false) (scaleq K votes) = [1%positive; 3%positive] /\
  Threshold.sel_eval (Threshold.SRel (1 # 20) false) above = [1%positive; 3%positive; 2%positive] /\
  Threshold.sel_eval (Threshold.SRel (1 # 20) true) below = [1%positive; 3%positive] /\
  Conditioned.conditioned_ha (Threshold.SRel (1 # 20) false) (fun j => inject_Z (j + 1)) (scaleq K votes) 10 [] []
    = HA_ok [(1%positive, 6%Z); (3%positive, 4%Z)] None /\
  qsel_evaluate (quota_fn (QNamed 1)) true false (scaleq K [(1%positive, 50); (2%positive, 25); (3%positive, 25)]%Q) 4
    = QS_ok [Cand 1%positive; Cand 2%positive; Cand 3%positive] /\
  qsel_evaluate (quota_fn (QNamed 1)) false false (scaleq K [(1%positive, 50); (2%positive, 25); (3%positive, 25)]%Q) 4
    = QS_ok [Cand 1%positive].
Proof. vm_compute. repeat split; reflexivity. Qed.

Example C11_open_list_example :
  let K := (1000000000000000000000000000007 # 3)%Q in
  let cfg := Threshold.Build_ol_cfg (Some (1 # 4)) (Some (fun t s => (hare t s * (1 # 2))%Q)) true true false in
  let votes : list (C * Q) := [(1%positive, 10); (2%positive, 25); (3%positive, 40); (4%positive, 25)]%Q in
  Threshold.openlist_eval cfg (scaleq K votes) 3 [1%positive; 2%positive; 3%positive; 4%positive] = [3%positive; 2%positive; 4%positive] /\
  Threshold.openlist_eval cfg votes 3 [1%positive; 2%positive; 3%positive; 4%positive] = [3%positive; 2%positive; 4%positive] /\
  Threshold.openlist_eval cfg (scaleq K votes) 4 [1%positive; 2%positive; 3%positive; 4%positive] = [3%positive; 2%positive; 4%positive; 1%positive].
Proof. vm_compute. repeat split; reflexivity. Qed.

Example C11_star_example :
  let a := 1%positive in let b := 2%positive in let c := 3%positive in
  let votes : Cardinal.sprofile := [([(a, 5); (b, 2); (c, 1)], 2%Z); ([(a, 1); (b, 3); (c, 2)], 2%Z); ([(a, 2); (b, 3); (c, 3)], 1%Z)]%Q in
  Star.star_auto votes 1 = inl [Cand b] /\
  Star.star_auto (map (fun bn : Convert.sballot * Z => (fst bn, (7 * snd bn)%Z)) votes) 1 = inl [Cand b] /\
  Cardinal.score_voting Star.star_cfg votes 1 = inl [Cand a].
Proof. vm_compute. repeat split; reflexivity. Qed.

(* ================================================================ fourth batch: the rest of the registry (harness/evalreg.py) *)
(* ---- RankedToCondorcetVotes in its pairwise-dictionary form (Model/Hybrids.v pairwise; integer ballot weights, positive
   integer factor): the pairwise dictionary of the k-fold profile is the k-fold dictionary - same keys, same order.  With
   the theorems about the evaluators on k-fold dictionaries this closes every composed entry "ranked votes ->
   RankedToCondorcetVotes -> Condorcet evaluator" of the registry: *)
Theorem C11_scale_ranked_to_condorcet : forall (k : Z) (votes : Hybrids.rvotes), (0 < k)%Z ->
  Hybrids.pairwise (map (fun bn => (fst bn, (k * snd bn)%Z)) votes) = scalez k (Hybrids.pairwise votes).
Proof. intros k votes Hk. exact (ScaleHyb_proofs.pairwise_scale k votes). Qed.

Theorem C11_scale_ranked_condorcet_family : forall (k : Z) (votes : Hybrids.rvotes), (0 < k)%Z ->
  let votes' := map (fun bn : Convert.ranked * Z => (fst bn, (k * snd bn)%Z)) votes in
  condorcet_winner (Hybrids.pairwise votes') = condorcet_winner (Hybrids.pairwise votes) /\
  (forall so n, copeland so (Hybrids.pairwise votes') n = copeland so (Hybrids.pairwise votes) n) /\
  (forall ties, smith_schwartz (Hybrids.pairwise votes') ties = smith_schwartz (Hybrids.pairwise votes) ties) /\
  (forall s n, minimax s (Hybrids.pairwise votes') n = minimax s (Hybrids.pairwise votes) n) /\
  (forall n, schulze (Hybrids.pairwise votes') (candidates (Hybrids.pairwise votes')) n
             = schulze (Hybrids.pairwise votes) (candidates (Hybrids.pairwise votes)) n) /\
  (forall s n, ranked_pairs s (Hybrids.pairwise votes') n = ranked_pairs s (Hybrids.pairwise votes) n) /\
  (forall n, kemeny (Hybrids.pairwise votes') n = kemeny (Hybrids.pairwise votes) n).
Proof.
  intros k votes Hk votes'. unfold votes'. rewrite (C11_scale_ranked_to_condorcet k votes Hk).
  split; [apply C11_scale_condorcet_winner, Hk|]. split; [intros; apply C11_scale_copeland, Hk|].
  split; [intros; apply C11_scale_smith_schwartz, Hk|]. split; [intros; apply C11_scale_minimax, Hk|].
  split; [intros; rewrite (candidates_scale k); apply C11_scale_schulze, Hk|].
  split; [intros; apply C11_scale_ranked_pairs, Hk|intros; apply C11_scale_kemeny, Hk].
Qed.

(* ---- the Condorcet-runoff hybrids (Model/Hybrids.v) and the positional elimination (Model/Elimination.v): Benham,
   Tideman's alternative, Baldwin with any rank scorer - every elimination round, the merging of ballots that become equal,
   every refusal and error outcome; every value of the repair flags ([fx] elimination step, [sc] single candidate, [tr] further tiers: all tiers for any number of seats) *)
Theorem C11_scale_benham : forall (k : Z) fx sc (votes : Hybrids.rvotes), (0 < k)%Z ->
  Hybrids.benham fx sc (map (fun bn => (fst bn, (k * snd bn)%Z)) votes) = Hybrids.benham fx sc votes.
Proof. intros k fx sc votes Hk. exact (ScaleHyb_proofs.benham_scale k Hk fx sc votes). Qed.

Theorem C11_scale_tideman_alternative : forall (k : Z) fx sc tr (votes : Hybrids.rvotes) n, (0 < k)%Z ->
  Hybrids.tideman_alt fx sc tr (map (fun bn => (fst bn, (k * snd bn)%Z)) votes) n = Hybrids.tideman_alt fx sc tr votes n.
Proof. intros k fx sc tr votes n Hk. exact (ScaleHyb_proofs.tideman_alt_scale k Hk fx sc tr votes n). Qed.

Theorem C11_scale_baldwin : forall (k : Z) (sc : Convert.scorer) (votes : Hybrids.rvotes) n, (0 < k)%Z ->
  Elimination.baldwin sc (map (fun bn => (fst bn, (k * snd bn)%Z)) votes) n = Elimination.baldwin sc votes n.
Proof. intros k sc votes n Hk. exact (ScaleHyb_proofs.baldwin_scale k Hk sc votes n). Qed.

Theorem C11_scale_eliminate_one : forall (k : Z) (votes : Hybrids.rvotes), (0 < k)%Z ->
  Hybrids.eliminate_one (map (fun bn => (fst bn, (k * snd bn)%Z)) votes) = Hybrids.eliminate_one votes.
Proof. intros k votes Hk. exact (ScaleHyb_proofs.eliminate_one_scale k Hk votes). Qed.

(* ---- allocated score voting (Model/AllocScore.v; ballot weights are rationals, any positive rational factor): a homogeneous
   named quota (Hare, Hagenbach-Bischoff, Imperiali) or a constant quota scaled with the votes; the distributor with previous
   gains and maxima, and the selector; every iteration order of the tied sets, every error outcome *)
Theorem C11_scale_allocated_score_distributor : forall (k : Q) (q : Quota.quota_spec) orders (votes : AllocScore.wprofile) n prev mx,
  (0 < k)%Q -> ScaleAlloc_proofs.qspec_homog q = true ->
  AllocScore.alloc_distribute (ScaleAlloc_proofs.qspec_scale k q) orders (map (fun bw => (fst bw, (k * snd bw)%Q)) votes) n prev mx
  = AllocScore.alloc_distribute q orders votes n prev mx.
Proof.
  intros k q orders votes n prev mx Hk Hq.
  exact (ScaleAlloc_proofs.alloc_distribute_rel k Hk q orders _ _ n prev mx Hq (ScaleAlloc_proofs.wprel_scale k votes)).
Qed.

Theorem C11_scale_allocated_score : forall (k : Q) (i : Z) orders (votes : AllocScore.wprofile) n, (0 < k)%Q ->
  homogeneous_quota i = true ->
  AllocScore.alloc_select (QNamed i) orders (map (fun bw => (fst bw, (k * snd bw)%Q)) votes) n
  = AllocScore.alloc_select (QNamed i) orders votes n.
Proof.
  intros k i orders votes n Hk Hi.
  exact (ScaleAlloc_proofs.alloc_select_rel k Hk (QNamed i) orders _ _ n Hi (ScaleAlloc_proofs.wprel_scale k votes)).
Qed.

(* ---- PureProportionality (Model/PureProp.v): the fractional seats are shares of the house; previous gains as floors and
   maxima as ceilings, the ZeroDivisionError included *)
Theorem C11_scale_pure_proportionality : forall (k : Q) (votes : list (C * Q)) n prev caps, (0 < k)%Q ->
  PureProp.pp_evaluate (scaleq k votes) n prev caps = PureProp.pp_evaluate votes n prev caps.
Proof. intros k votes n prev caps Hk. exact (ScalePP_proofs.pp_evaluate_scale k Hk votes n prev caps). Qed.

(* ---- non-vacuity of the fourth batch.  Benham: a three-way cycle, no Condorcet winner, the plurality loser C goes and A beats
   B; Baldwin (Borda) eliminates two rounds; both at k = 10^30 + 7.  Allocated score, two seats, Hare quota, at (10^30 + 7) / 3:
   the strongest supporters of the first winner are spread out.  Pure proportionality of 7 seats over 1 : 2 : 4 with a maximum
   of 3 for the largest party, at (10^30 + 7) / 3: 4/3, 8/3, 3. *)
Example C11_hybrids_example :
  let a := 1%positive in let b := 2%positive in let c := 3%positive in
  let K := 1000000000000000000000000000007%Z in
  let votes : Hybrids.rvotes := [([Convert.IP a; Convert.IP b; Convert.IP c], 4%Z); ([Convert.IP b; Convert.IP c; Convert.IP a], 3%Z);
                                 ([Convert.IP c; Convert.IP a; Convert.IP b], 2%Z)] in
  let votes' := map (fun bn : Convert.ranked * Z => (fst bn, (K * snd bn)%Z)) votes in
  condorcet_winner (Hybrids.pairwise votes) = [] /\
  Hybrids.benham true true votes' = Hybrids.H_ok [Cand a] /\ Hybrids.benham true true votes = Hybrids.H_ok [Cand a] /\
  Hybrids.tideman_alt true true true votes' 1 = Hybrids.H_ok [Cand a] /\
  Elimination.baldwin (Convert.Borda 0) votes' 1 = Elimination.B_ok [Cand a] /\
  Elimination.baldwin (Convert.Borda 0) votes 1 = Elimination.B_ok [Cand a].
Proof. vm_compute. repeat split; reflexivity. Qed.

Example C11_allocated_pure_example :
  let a := 1%positive in let b := 2%positive in let c := 3%positive in
  let K := (1000000000000000000000000000007 # 3)%Q in
  let votes : AllocScore.wprofile := [([(a, 5); (b, 1); (c, 0)], 4); ([(a, 3); (b, 4); (c, 1)], 3); ([(a, 0); (b, 2); (c, 5)], 3)]%Q in
  AllocScore.alloc_select (QNamed 1) [] (map (fun bw : Convert.sballot * Q => (fst bw, (K * snd bw)%Q)) votes) 2 = inl [Cand a; Cand c] /\
  AllocScore.alloc_select (QNamed 1) [] votes 2 = inl [Cand a; Cand c] /\
  PureProp.pp_evaluate (scaleq K [(a, 1); (b, 2); (c, 4)]%Q) 7 [] [(c, 3%Z)] = PureProp.PP_ok [(c, 3); (a, 4 # 3); (b, 8 # 3)]%Q.
Proof. vm_compute. repeat split; reflexivity. Qed.

(* ================================================================ wave 6: the repaired score family and allocated score
   (Model/Cardinal.v [repairs], Model/AllocScore.v [arepairs]; fixes/C12-*.diff).  Notation: k.votes = every ballot count k-fold. *)
From Coq Require Import Lia.
From VL Require Proofs.ScoreDict_proofs Proofs.TruncRepair_proofs Proofs.MJ_repair_proofs Proofs.ScaleMJRepair_proofs Proofs.ScaleAllocRepair_proofs Proofs.Scale2Complete_proofs.

Lemma C11_profile_ok_scale : forall (k : Z) (votes : Cardinal.sprofile), (0 < k)%Z -> ScoreDict_proofs.profile_ok votes ->
  ScoreDict_proofs.profile_ok (map (fun bn => (fst bn, (k * snd bn)%Z)) votes).
Proof.
  intros k votes Hk H bn Hin. apply in_map_iff in Hin. destruct Hin as (bn0 & <- & Hin0). destruct (H bn0 Hin0) as (H1 & H2).
  cbn [fst snd]. split; [nia|exact H2].
Qed.

(* score voting and majority judgment with the plus rule: with the counted aggregates (fixes/C12-score-counted) - and the
   truncation repair as long as no truncation is configured - the repaired evaluators ARE the pinned ones on well-formed
   profiles (C12_counted_aggregate), so they are scale-free in the same configurations *)
Theorem C11_scale_score_voting_repaired : forall (k : Z) rp (cf : Cardinal.score_cfg) (votes : Cardinal.sprofile) n, (0 < k)%Z ->
  C11_score_scale_free cf votes -> ScaleMJRepair_proofs.trunc_untouched rp cf -> ScoreDict_proofs.profile_ok votes ->
  Cardinal.score_voting_x rp cf (map (fun bn => (fst bn, (k * snd bn)%Z)) votes) n = Cardinal.score_voting_x rp cf votes n /\
  Cardinal.majority_judgment_x rp true cf (map (fun bn => (fst bn, (k * snd bn)%Z)) votes) n = Cardinal.majority_judgment_x rp true cf votes n.
Proof.
  intros k rp cf votes n Hk Hcf Ht Hv. pose proof (C11_profile_ok_scale k votes Hk Hv) as Hv'. split.
  - rewrite (ScaleMJRepair_proofs.score_voting_x_eq rp cf _ n Ht Hv'), (ScaleMJRepair_proofs.score_voting_x_eq rp cf _ n Ht Hv).
    exact (C11_scale_score_voting k cf votes n Hk Hcf).
  - rewrite (ScaleMJRepair_proofs.mj_plus_x_eq rp cf _ n Ht Hv'), (ScaleMJRepair_proofs.mj_plus_x_eq rp cf _ n Ht Hv).
    exact (C11_scale_mj_plus k cf votes n Hk Hcf).
Qed.

(* where the truncation repair DOES change scale behaviour: the capped cut-off (scores - 1) // 2 is not homogeneous, so a SUM
   over a candidate whose scores the configured cut-off would wipe out is not k-fold (mean and low median of the middle
   scores are unchanged).  4 voters, truncation 1/4 (one score at either end), A scored 1 and 5 by two of them, B scored 2 by
   all: A keeps both scores (sum 6 > 4) - at k = 2 A keeps 1, 5 of 1, 1, 5, 5 (sum 6 < 8).  The pinned code counted nothing
   for A at either scale.  A property of the repaired parameter in a configuration outside the registered ones. *)
Theorem C11_scale_score_truncation_sum_capped_refuted : exists votes,
  let cf := Cardinal.Build_score_cfg Cardinal.FSum Cardinal.UNone 0 (1 # 4) 0 in
  let votes2 := map (fun bn : Convert.sballot * Z => (fst bn, (2 * snd bn)%Z)) votes in
  C11_score_scale_free cf votes /\ ScoreDict_proofs.profile_ok votes /\
  Cardinal.score_voting_x Cardinal.repaired cf votes 1 = inl [Cand 1%positive] /\
  Cardinal.score_voting_x Cardinal.repaired cf votes2 1 = inl [Cand 2%positive] /\
  Cardinal.score_voting_x Cardinal.pinned cf votes 1 = inl [Cand 2%positive] /\
  Cardinal.score_voting_x Cardinal.pinned cf votes2 1 = inl [Cand 2%positive].
Proof.
  exists [([(1%positive, 1%Q); (2%positive, 2%Q)], 1%Z); ([(1%positive, 5%Q); (2%positive, 2%Q)], 1%Z); ([(2%positive, 2%Q)], 2%Z)].
  split; [|split].
  - split; [reflexivity|]. right. split; [reflexivity|]. split; [vm_compute; discriminate|vm_compute; reflexivity].
  - intros bn [<-|[<-|[<-|[]]]]; (split; [cbn; discriminate|cbn [fst map]; repeat constructor; cbn [In]; intuition discriminate]).
  - vm_compute. repeat split; reflexivity.
Qed.

(* majority judgment, default rule, repaired (fixes/C12-mj-default-exhausted): the evaluator has no crash outcome at any
   scale - on every profile with positive ballot counts it answers or refuses a lasting tie (VotingSystemError), nothing else - so the recorded class of finding
   C11-mj-default-scale (a StatisticsError at one scale, an answer at the other) is empty; and on complete ballots it is the
   pinned evaluator, hence scale-free (C11_scale_mj_default_full) *)
Definition C11_scale_mj_default_repaired_full_statement : Prop :=
  forall (k : Z) (cf : Cardinal.score_cfg) (votes : Cardinal.sprofile) n, (0 < k)%Z -> (1 <= n)%nat ->
    Cardinal.sc_min_count cf = 0%Z -> Qle_bool (Cardinal.sc_trunc cf) 0 = true -> TruncRepair_proofs.profile_pos votes ->
    Cardinal.majority_judgment_x Cardinal.repaired false cf (map (fun bn => (fst bn, (k * snd bn)%Z)) votes) n
    = Cardinal.majority_judgment_x Cardinal.repaired false cf votes n.

Theorem C11_scale_mj_default_no_crash : forall (k : Z) rp plus (cf : Cardinal.score_cfg) (votes : Cardinal.sprofile) n, (0 < k)%Z -> (1 <= n)%nat ->
  Cardinal.rp_trunc rp = true -> Cardinal.rp_mj rp = true -> TruncRepair_proofs.profile_pos votes ->
  match Cardinal.majority_judgment_x rp plus cf (map (fun bn => (fst bn, (k * snd bn)%Z)) votes) n with
  | inl _ => True | inr e => e = Cardinal.SE_vse end /\
  match Cardinal.majority_judgment_x rp plus cf votes n with
  | inl _ => True | inr e => e = Cardinal.SE_vse end.
Proof.
  intros k rp plus cf votes n Hk Hn Ht Hm Hv. split; apply MJ_repair_proofs.majority_judgment_x_answers_or_refuses; try assumption.
  intros bn Hin. apply in_map_iff in Hin. destruct Hin as (bn0 & <- & Hin0). destruct (Hv bn0 Hin0) as (H1 & H2).
  cbn [fst snd]. split; [nia|exact H2].
Qed.

Theorem C11_scale_mj_default_repaired_partial : forall (k : Z) rp (cf : Cardinal.score_cfg) (votes : Cardinal.sprofile) n, (0 < k)%Z -> (1 <= n)%nat ->
  Cardinal.sc_min_count cf = 0%Z -> Qle_bool (Cardinal.sc_trunc cf) 0 = true -> C11_complete_ballots votes ->
  Cardinal.majority_judgment_x rp false cf (map (fun bn => (fst bn, (k * snd bn)%Z)) votes) n = Cardinal.majority_judgment_x rp false cf votes n.
Proof.
  intros k rp cf votes n Hk Hn Hmc Htr Hc.
  assert (Hv : ScoreDict_proofs.profile_ok votes).
  { intros [b w] Hin. destruct (Hc b w Hin) as (H1 & H2 & _). cbn [fst snd]. split; [lia|exact H2]. }
  assert (Hc' : C11_complete_ballots (map (fun bn => (fst bn, (k * snd bn)%Z)) votes)).
  { intros b w Hin. apply in_map_iff in Hin. destruct Hin as ([b0 w0] & E & Hin0). cbn [fst snd] in E. injection E as <- <-.
    destruct (Hc b0 w0 Hin0) as (H1 & H2 & H3). split; [nia|]. split; [exact H2|]. intros c Hcin. apply H3.
    rewrite flat_map_concat_map, map_map in Hcin. cbn [fst] in Hcin. rewrite <- flat_map_concat_map in Hcin. exact Hcin. }
  pose proof (C11_profile_ok_scale k votes Hk Hv) as Hv'.
  assert (Ht : ScaleMJRepair_proofs.trunc_untouched rp cf) by (right; exact Htr).
  rewrite (ScaleMJRepair_proofs.mj_default_x_eq_balanced rp cf _ n Ht Hv' Hn), (ScaleMJRepair_proofs.mj_default_x_eq_balanced rp cf votes n Ht Hv Hn).
  - exact (C11_scale_mj_default_full k cf votes n Hk Hmc Htr Hc).
  - intros sc Hsc. exists (Scale2Score_proofs.sp_total votes). exact (Scale2Complete_proofs.complete_balanced cf votes sc Hmc Htr Hc Hsc).
  - intros sc Hsc. eexists. exact (Scale2Complete_proofs.complete_balanced cf _ sc Hmc Htr Hc' Hsc).
Qed.

(* the witness of C11_scale_mj_default_partial_ballots_refuted with the repair: [A; C] at k = 1, 2, 3, 10^25 + 7 *)
Example C11_mj_default_repaired_example :
  let cf := Cardinal.Build_score_cfg Cardinal.FMedianLow Cardinal.UNone 0 0 0 in
  let votes : Cardinal.sprofile := [([(1%positive, 1%Q); (2%positive, 0%Q); (3%positive, 0%Q)], 3%Z); ([(3%positive, 1%Q)], 3%Z); ([(3%positive, 0%Q)], 2%Z)] in
  Cardinal.majority_judgment_x Cardinal.repaired false cf votes 2 = inl [Cand 1%positive; Cand 3%positive] /\
  Cardinal.majority_judgment_x Cardinal.repaired false cf (map (fun bn => (fst bn, (2 * snd bn)%Z)) votes) 2 = inl [Cand 1%positive; Cand 3%positive] /\
  Cardinal.majority_judgment_x Cardinal.repaired false cf (map (fun bn => (fst bn, (3 * snd bn)%Z)) votes) 2 = inl [Cand 1%positive; Cand 3%positive].
Proof. vm_compute. repeat split; reflexivity. Qed.

(* allocated score with any set of the repairs: the state simulation carries over (the search for the strongest supporters
   reads the ballots only; the level-at-zero round hands the same dictionary to get_n_best in both runs) *)
Theorem C11_scale_allocated_score_repaired : forall (k : Q) ra (q : Quota.quota_spec) orders (votes : AllocScore.wprofile) n prev mx,
  (0 < k)%Q -> ScaleAlloc_proofs.qspec_homog q = true ->
  AllocScore.alloc_distribute_x ra (ScaleAlloc_proofs.qspec_scale k q) orders (map (fun bw => (fst bw, (k * snd bw)%Q)) votes) n prev mx
  = AllocScore.alloc_distribute_x ra q orders votes n prev mx /\
  AllocScore.alloc_select_x ra (ScaleAlloc_proofs.qspec_scale k q) orders (map (fun bw => (fst bw, (k * snd bw)%Q)) votes) n
  = AllocScore.alloc_select_x ra q orders votes n.
Proof.
  intros k ra q orders votes n prev mx Hk Hq. split.
  - exact (ScaleAllocRepair_proofs.alloc_distribute_x_rel k Hk ra q orders _ _ n prev mx Hq (ScaleAlloc_proofs.wprel_scale k votes)).
  - exact (ScaleAllocRepair_proofs.alloc_select_x_rel k Hk ra q orders _ _ n Hq (ScaleAlloc_proofs.wprel_scale k votes)).
Qed.

Print Assumptions C11_scale_plurality.
Print Assumptions C11_scale_highest_averages.
Print Assumptions C11_scale_pairwise_wins.
Print Assumptions C11_scale_condorcet_winner.
Print Assumptions C11_scale_copeland.
Print Assumptions C11_scale_smith_schwartz.
Print Assumptions C11_scale_schwartz_set.
Print Assumptions C11_scale_minimax.
Print Assumptions C11_scale_quota_distributor.
Print Assumptions C11_scale_largest_remainder.
Print Assumptions C11_tie_exact.
Print Assumptions C11_one_vote_apart.
Print Assumptions C11_scale_stv_homogeneous.
Print Assumptions C11_scale_stv.
Print Assumptions C11_scale_stv_seats.
Print Assumptions C11_stv_droop_not_scale_free.
Print Assumptions C11_scale_schulze_paths.
Print Assumptions C11_scale_schulze.
Print Assumptions C11_scale_full.
Print Assumptions C11_scale_ranked_pairs.
Print Assumptions C11_scale_kemeny.
Print Assumptions C11_scale_additive.
Print Assumptions C11_scale_additive_totals.
Print Assumptions C11_scale_additive_first_preference.
Print Assumptions C11_scale_additive_approval.
Print Assumptions C11_scale_additive_presence.
Print Assumptions C11_scale_additive_positional.
Print Assumptions C11_scale_bucklin.
Print Assumptions C11_scale_preference_addition.
Print Assumptions C11_scale_bucklin_presets.
Print Assumptions C11_scale_pav.
Print Assumptions C11_scale_pav_best.
Print Assumptions C11_scale_spav.
Print Assumptions C11_scale_score_voting.
Print Assumptions C11_scale_score_totals.
Print Assumptions C11_scale_score_min_count_refuted.
Print Assumptions C11_scale_score_truncation_count_refuted.
Print Assumptions C11_scale_score_truncation_fraction_refuted.
Print Assumptions C11_scale_mj_plus.
Print Assumptions C11_scale_mj_tie_free.
Print Assumptions C11_scale_mj_default_reduction.
Print Assumptions C11_scale_mj_default_partial_ballots_refuted.
Print Assumptions C11_scale_mj_default_balanced.
Print Assumptions C11_scale_mj_default_full.
Print Assumptions C11_scale_relative_threshold.
Print Assumptions C11_scale_absolute_threshold.
Print Assumptions C11_scale_threshold.
Print Assumptions C11_scale_threshold_relative.
Print Assumptions C11_scale_absolute_threshold_kept_line_refuted.
Print Assumptions C11_scale_bracketer.
Print Assumptions C11_scale_quota_selector.
Print Assumptions C11_scale_quota_selector_homogeneous.
Print Assumptions C11_scale_quota_selector_constant.
Print Assumptions C11_quota_rounded_not_homogeneous.
Print Assumptions C11_scale_quota_selector_rounded_refuted.
Print Assumptions C11_scale_largest_remainder_rounded_refuted.
Print Assumptions C11_scale_conditioned_highest_averages.
Print Assumptions C11_scale_conditioned_relative.
Print Assumptions C11_scale_open_list.
Print Assumptions C11_scale_open_list_named.
Print Assumptions C11_scale_star.
Print Assumptions C11_scale_star_auto.
Print Assumptions C11_scale_star_pairwise.
Print Assumptions C11_scale_ranked_to_condorcet.
Print Assumptions C11_scale_ranked_condorcet_family.
Print Assumptions C11_scale_benham.
Print Assumptions C11_scale_tideman_alternative.
Print Assumptions C11_scale_baldwin.
Print Assumptions C11_scale_eliminate_one.
Print Assumptions C11_scale_allocated_score_distributor.
Print Assumptions C11_scale_allocated_score.
Print Assumptions C11_scale_pure_proportionality.
Print Assumptions C11_scale_score_voting_repaired.
Print Assumptions C11_scale_score_truncation_sum_capped_refuted.
Print Assumptions C11_scale_mj_default_no_crash.
Print Assumptions C11_scale_mj_default_repaired_partial.
Print Assumptions C11_scale_allocated_score_repaired.
