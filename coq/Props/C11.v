(* C11 - Exact arithmetic: outcomes invariant under vote scaling, even beyond 2^53.
   Property theorems only.  Models: Model/GetNBest.v, Model/HighestAverages.v, Model/Condorcet.v,
   Model/QuotaDistributor.v, Model/STV.v; proofs: Proofs/Scale_proofs.v, Proofs/Minimax_proofs.v, Proofs/LRScale_proofs.v,
   Proofs/STVScale_proofs.v, Proofs/Schulze_proofs.v.  All numbers are unbounded Z / Q: the statements quantify over
   every positive scale factor and every magnitude (10^30 and 2^53 are not special). *)
From Coq Require Import ZArith QArith List Bool.
From VL Require Import Prelude.PyDict Model.GetNBest Model.HighestAverages Model.Condorcet
     Proofs.GetNBest_proofs Proofs.QOrd Proofs.Scale_proofs Proofs.Minimax_proofs Proofs.LRScale_proofs Proofs.Schulze_proofs
     Model.Quota Model.QuotaDistributor.
From VL Require Model.Convert Model.STV Proofs.STVScale_proofs.
Import ListNotations.

(* plurality / every rule that ends in get_n_best of exact totals *)
Theorem C11_scale_plurality : forall (k : Q) (votes : list (C * Q)) (n : nat), (0 < k)%Q ->
  get_n_best Qle_bool (scaleq k votes) n = get_n_best Qle_bool votes n.
Proof. exact get_n_best_scale. Qed.

(* every highest-averages rule: any divisor function, previous gains, caps *)
Theorem C11_scale_highest_averages : forall (d : Z -> Q) (k : Q) (votes : list (C * Q)) (caps prev : list (C * Z)) (n : Z),
  (0 < k)%Q -> evaluate d (scaleq k votes) n prev caps = evaluate d votes n prev caps.
Proof. intros d k votes caps prev n Hk. exact (ha_scale d k Hk votes caps n prev). Qed.

(* pairwise-comparison based evaluators: the win relation, the Condorcet winner, Copeland (raw and
   second order), the Smith and Schwartz sets *)
Theorem C11_scale_pairwise_wins : forall (k : Z) v ties, (0 < k)%Z -> pairwise_wins (scalez k v) ties = pairwise_wins v ties.
Proof. intros k v ties Hk. exact (pairwise_wins_scale k Hk v ties). Qed.
Theorem C11_scale_condorcet_winner : forall (k : Z) v, (0 < k)%Z -> condorcet_winner (scalez k v) = condorcet_winner v.
Proof. intros k v Hk. exact (condorcet_winner_scale k Hk v). Qed.
Theorem C11_scale_copeland : forall (k : Z) so v n, (0 < k)%Z -> copeland so (scalez k v) n = copeland so v n.
Proof. intros k so v n Hk. exact (copeland_scale k Hk so v n). Qed.
Theorem C11_scale_smith_schwartz : forall (k : Z) v ties, (0 < k)%Z -> smith_schwartz (scalez k v) ties = smith_schwartz v ties.
Proof. intros k v ties Hk. exact (smith_schwartz_scale k Hk v ties). Qed.

Theorem C11_scale_minimax : forall (k : Z) s v n, (0 < k)%Z -> minimax s (scalez k v) n = minimax s v n.
Proof. intros k s v n Hk. exact (minimax_scale k Hk s v n). Qed.

(* the quota family with a homogeneous quota (Hare 1, Hagenbach-Bischoff 4, Imperiali 7; the rounded quotas are genuinely not
   scale-free): QuotaDistributor with every overshoot policy, the recursive cap branch and the over-award subtraction included,
   and LargestRemainder with its remainder ranking *)
Theorem C11_scale_quota_distributor : forall (k : Q) (i : Z) accept_equal pol (votes : list (C * Q)) n prev caps,
  (0 < k)%Q -> homogeneous_quota i = true ->
  qd_evaluate (quota_fn (QNamed i)) accept_equal pol (scaleq k votes) n prev caps
  = qd_evaluate (quota_fn (QNamed i)) accept_equal pol votes n prev caps.
Proof.
  intros k i ae pol votes n prev caps Hk Hi.
  exact (qd_evaluate_rel k Hk _ ae pol (quota_fn_homog k i Hi) votes _ n prev caps (vrel_scale k votes)).
Qed.

Theorem C11_scale_largest_remainder : forall (k : Q) (i : Z) accept_equal pol (votes : list (C * Q)) n prev caps,
  (0 < k)%Q -> homogeneous_quota i = true ->
  lr_evaluate (quota_fn (QNamed i)) accept_equal pol (scaleq k votes) n prev caps
  = lr_evaluate (quota_fn (QNamed i)) accept_equal pol votes n prev caps.
Proof.
  intros k i ae pol votes n prev caps Hk Hi.
  exact (lr_evaluate_rel k Hk _ ae pol (quota_fn_homog k i Hi) votes _ n prev caps (vrel_scale k votes)).
Qed.

(* totals that differ - by one vote in 10^30 or by anything else - are never reported as tied,
   and equal rational totals (whatever their representation: 1/2 = 2/4) always are tied together *)
Theorem C11_tie_exact : forall (votes : list (C * Q)) n T c1 v1 c2 v2,
  NoDup (map fst votes) -> In (TieR T) (get_n_best Qle_bool votes n) ->
  In (c1, v1) votes -> In (c2, v2) votes ->
  (In c1 T -> In c2 T -> (v1 == v2)%Q) /\ ((v1 == v2)%Q -> (In c1 T <-> In c2 T)).
Proof.
  intros votes n T c1 v1 c2 v2 Hnd HT H1 H2.
  destruct (get_n_best_tie_members Qle_bool Qle_bool_trans votes n T HT) as (thr & -> & _).
  rewrite (tie_member_level votes thr c1 v1 Hnd H1), (tie_member_level votes thr c2 v2 Hnd H2).
  split; [intros E1 E2; rewrite E1, E2; reflexivity|intros E; rewrite E; reflexivity].
Qed.

Corollary C11_one_vote_apart : forall (votes : list (C * Q)) n T c1 v1 c2,
  NoDup (map fst votes) -> In (TieR T) (get_n_best Qle_bool votes n) ->
  In (c1, v1) votes -> In (c2, (v1 + 1)%Q) votes -> ~ (In c1 T /\ In c2 T).
Proof.
  intros votes n T c1 v1 c2 Hnd HT H1 H2 [Ha Hb].
  destruct (C11_tie_exact votes n T c1 v1 c2 (v1 + 1)%Q Hnd HT H1 H2) as [H _].
  specialize (H Ha Hb). assert (Hne : ~ (v1 == v1 + 1)%Q) by (intros E; apply (Qplus_inj_l _ _ (- v1)%Q) in E; ring_simplify in E; discriminate).
  exact (Hne H).
Qed.

(* the transferable-vote count (Model/STV.v: initial allocation with shared first ranks, election by quota,
   Gregory surplus subtraction, transfers, eliminations, the unchanged-allocation stop) with a homogeneous quota
   function - Hare, Hagenbach-Bischoff - or no quota at all (TransferableVoteSelector).  The run on the k-fold
   votes elects the same seats, stops the same way, and its per-count records are the scaled ones: the same
   elected lists, the same keys in the same order, every total multiplied by k.  Droop and the rounded quotas
   are not homogeneous and are out of scope: C11_stv_droop_not_scale_free. *)
Definition C11_stv_trace_scaled (k : Q) (t t' : STV.trace) : Prop :=
  STV.t_seats t' = STV.t_seats t /\ STV.t_stop t' = STV.t_stop t /\
  Forall2 (fun x y : list (option C * Q) * list (C * Z) =>
             Forall2 (fun p p' : option C * Q => fst p = fst p' /\ (snd p' == k * snd p)%Q) (fst x) (fst y)
             /\ snd y = snd x)
          (STV.t_counts t) (STV.t_counts t').

Definition C11_stv_scale_votes (k : Q) (votes : list (STV.ballot * Q)) : list (STV.ballot * Q) :=
  map (fun bw => (fst bw, (k * snd bw)%Q)) votes.

Theorem C11_scale_stv_homogeneous : forall (k : Q) (cf : STV.cfg) votes n_seats prev caps, (0 < k)%Q ->
  (forall qf, STV.c_quota cf = Some qf -> forall v v' n, (v' == k * v)%Q -> (qf v' n == k * qf v n)%Q) ->
  C11_stv_trace_scaled k (STV.stv cf votes n_seats prev caps)
                         (STV.stv cf (C11_stv_scale_votes k votes) n_seats prev caps).
Proof. intros k cf votes n prev caps Hk Hh. exact (STVScale_proofs.stv_scale k Hk cf votes n prev caps Hh). Qed.

Theorem C11_scale_stv : forall (k : Q) (quota : option (Q -> Z -> Q)) accept_equal mandatory step votes n_seats prev caps,
  (0 < k)%Q -> quota = None \/ quota = Some hare \/ quota = Some hagenbach_bischoff ->
  C11_stv_trace_scaled k (STV.stv (STV.Build_cfg quota accept_equal mandatory step) votes n_seats prev caps)
                         (STV.stv (STV.Build_cfg quota accept_equal mandatory step) (C11_stv_scale_votes k votes) n_seats prev caps).
Proof.
  intros k quota ae ma st votes n prev caps Hk Hq. apply (STVScale_proofs.stv_scale k Hk).
  destruct Hq as [->|[->| ->]];
    [apply STVScale_proofs.homog_none|apply STVScale_proofs.homog_hare|apply STVScale_proofs.homog_hb].
Qed.

Corollary C11_scale_stv_seats : forall (k : Q) (quota : option (Q -> Z -> Q)) accept_equal mandatory step votes n_seats prev caps,
  (0 < k)%Q -> quota = None \/ quota = Some hare \/ quota = Some hagenbach_bischoff ->
  STV.t_seats (STV.stv (STV.Build_cfg quota accept_equal mandatory step) (C11_stv_scale_votes k votes) n_seats prev caps)
  = STV.t_seats (STV.stv (STV.Build_cfg quota accept_equal mandatory step) votes n_seats prev caps) /\
  STV.t_stop (STV.stv (STV.Build_cfg quota accept_equal mandatory step) (C11_stv_scale_votes k votes) n_seats prev caps)
  = STV.t_stop (STV.stv (STV.Build_cfg quota accept_equal mandatory step) votes n_seats prev caps).
Proof.
  intros k quota ae ma st votes n prev caps Hk Hq.
  destruct (C11_scale_stv k quota ae ma st votes n prev caps Hk Hq) as (H1 & H2 & _). split; assumption.
Qed.

(* the Droop quota floor(v / (s + 1)) + 1 is not homogeneous, and the count with it is genuinely not scale-free,
   already for the integer factor 2 on integer ballot weights: D>C>A 3, B>A 4, A>{D,B}>C 2, B 1, two seats.
   droop 10 2 = 4 leaves B a surplus of 1 (a fifth of its 5 votes), droop 20 2 = 7 a surplus of 3 (three tenths):
   both counts complete, electing {B, D} and {B, A} (the implementation returns the same two results) *)
Theorem C11_stv_droop_not_scale_free : exists votes,
  let t := STV.stv (STV.Build_cfg (Some droop) true false (-1)) votes 2 [] [] in
  let t' := STV.stv (STV.Build_cfg (Some droop) true false (-1)) (C11_stv_scale_votes 2 votes) 2 [] [] in
  STV.t_stop t = None /\ STV.t_stop t' = None /\
  STV.t_seats t = [(2%positive, 1%Z); (4%positive, 1%Z)] /\ STV.t_seats t' = [(2%positive, 1%Z); (1%positive, 1%Z)].
Proof.
  exists [([Convert.IP 4%positive; Convert.IP 3%positive; Convert.IP 1%positive], 3%Q);
          ([Convert.IP 2%positive; Convert.IP 1%positive], 4%Q);
          ([Convert.IP 1%positive; Convert.IS [4%positive; 2%positive]; Convert.IP 3%positive], 2%Q);
          ([Convert.IP 2%positive], 1%Q)].
  vm_compute. repeat split; reflexivity.
Qed.

(* non-vacuity: a Hagenbach-Bischoff count over shared ranks and fractional weights with two quota elections,
   Gregory transfers and two eliminations, on votes scaled by (10^30 + 7) / 3 *)
Definition C11_stv_example_votes : list (STV.ballot * Q) :=
  let a := 1%positive in let b := 2%positive in let c := 3%positive in let d := 4%positive in
  [([Convert.IP a; Convert.IP b; Convert.IP c], 10); ([Convert.IP b; Convert.IP c], 4);
   ([Convert.IS [b; c]; Convert.IP d], 3); ([Convert.IP c; Convert.IP d], 3 # 2);
   ([Convert.IP d; Convert.IS [a; c]], 5); ([Convert.IP d], 1 # 3)]%Q.
Example C11_stv_example :
  let t := STV.stv (STV.Build_cfg (Some hagenbach_bischoff) false false (-1))
                   (C11_stv_scale_votes (1000000000000000000000000000007 # 3) C11_stv_example_votes) 3 [] [] in
  STV.t_seats t = [(1%positive, 1%Z); (4%positive, 1%Z); (2%positive, 1%Z)] /\ STV.t_stop t = None /\
  map snd (STV.t_counts t) = [[(1%positive, 1%Z)]; []; [(4%positive, 1%Z)]; []; []; [(2%positive, 1%Z)]].
Proof. vm_compute. repeat split; reflexivity. Qed.

(* Schulze: the whole Floyd-Warshall table of the scaled election is k times the table of the original one
   (min and max commute with multiplication by a positive integer), so the path-win relation, the scores and the
   ranking are unchanged - for every iteration order of the candidate set and every number of seats *)
Theorem C11_scale_schulze_paths : forall (k : Z) v order, (0 < k)%Z ->
  widest_paths (scalez k v) order = scalez k (widest_paths v order).
Proof. intros k v order Hk. exact (widest_paths_scale k Hk v order). Qed.

Theorem C11_scale_schulze : forall (k : Z) v order n, (0 < k)%Z ->
  schulze (scalez k v) order n = schulze v order n.
Proof. intros k v order n Hk. exact (schulze_scale k Hk v order n). Qed.

(* the clause as it was stated before it was proved (order = the dictionary's candidate order) *)
Definition C11_scale_full_statement : Prop :=
  forall (k : Z) v n, (0 < k)%Z ->
    schulze (scalez k v) (candidates v) n = schulze v (candidates v) n.
Theorem C11_scale_full : C11_scale_full_statement.
Proof. intros k v n Hk. exact (schulze_scale k Hk v (candidates v) n). Qed.

(* non-vacuity: a tie at the cut survives scaling by 10^30 + 7, and 10^30 vs 10^30 + 1 is not a tie *)
Example C11_example :
  get_n_best Qle_bool (scaleq (1000000000000000000000000000007 # 1) [(1%positive, 1#2); (2%positive, 2#4); (3%positive, 1#3)]%Q) 1
    = [TieR [1%positive; 2%positive]] /\
  get_n_best Qle_bool [(1%positive, 1000000000000000000000000000000 # 1); (2%positive, 1000000000000000000000000000001 # 1)]%Q 1
    = [Cand 2%positive].
Proof. vm_compute. split; reflexivity. Qed.

(* non-vacuity for Schulze: a five-candidate election with a beat cycle, scaled by 10^30 + 7 *)
Example C11_schulze_example :
  schulze (scalez 1000000000000000000000000000007 mono_v) (candidates mono_v) 3
    = [Cand 3%positive; Cand 2%positive; Cand 5%positive] /\
  schulze mono_v (candidates mono_v) 3 = [Cand 3%positive; Cand 2%positive; Cand 5%positive].
Proof. vm_compute. split; reflexivity. Qed.

Print Assumptions C11_scale_plurality.
Print Assumptions C11_scale_highest_averages.
Print Assumptions C11_scale_pairwise_wins.
Print Assumptions C11_scale_condorcet_winner.
Print Assumptions C11_scale_copeland.
Print Assumptions C11_scale_smith_schwartz.
Print Assumptions C11_scale_minimax.
Print Assumptions C11_scale_quota_distributor.
Print Assumptions C11_scale_largest_remainder.
Print Assumptions C11_tie_exact.
Print Assumptions C11_one_vote_apart.
Print Assumptions C11_scale_stv_homogeneous.
Print Assumptions C11_scale_stv.
Print Assumptions C11_scale_stv_seats.
Print Assumptions C11_stv_droop_not_scale_free.
Print Assumptions C11_scale_schulze_paths.
Print Assumptions C11_scale_schulze.
Print Assumptions C11_scale_full.
