(* C10 - Outcomes do not depend on ballot order, candidate names or hash seed.
   Property theorems only.  Models: Model/GetNBest.v, Prelude/GDict.v (additive converters);
   proofs: Proofs/Order_proofs.v, Proofs/Convert_proofs.v.

   The models are structural: they use equality on candidates only (never an order on names, never
   a hash), so "identical under every interpreter hash seed" has no counterpart to prove on the
   model side - where the implementation iterates a set, the check sweeps PYTHONHASHSEED. *)
From Coq Require Import ZArith QArith List Bool Permutation Arith.
From VL Require Import Prelude.Sx Prelude.PyDict Prelude.GDict Model.GetNBest Model.HighestAverages Model.Condorcet Model.Convert
     Proofs.GetNBest_proofs Proofs.QOrd Proofs.Order_proofs Proofs.Convert_proofs Proofs.HA_proofs Proofs.Divisor_proofs Proofs.HAPerm_proofs Proofs.HARename_proofs
     Proofs.Condorcet_proofs Proofs.CopelandMono_proofs Proofs.Schulze_proofs Proofs.GnbSim_proofs Proofs.CondorcetOrder_proofs.
Import ListNotations.
Close Scope Q_scope.
Close Scope Z_scope.
Open Scope nat_scope.

(* The outcome of get_n_best depends on the input only through COUNTS of totals above / at a value:
   a candidate with total v is elected iff at most n totals are >= v, and is a member of a reported
   tie iff fewer than n totals are > v but more than n are >= v. *)
Theorem C10_count_characterisation : forall (K : Type)
    (votes : list (K * Q)) (n : nat) c v, 1 <= n -> NoDup (map fst votes) -> In (c, v) votes ->
  (In (Cand c) (get_n_best Qle_bool votes n) <-> cnt_ge votes v <= n) /\
  ((exists T, In (TieR T) (get_n_best Qle_bool votes n) /\ In c T) <-> cnt_gt votes v < n < cnt_ge votes v).
Proof. intros K. exact (@gnb_count_char K). Qed.

(* hence: filling the dictionary in a different order changes neither who is elected nor who is tied *)
Theorem C10_order : forall (K : Type)
    (votes votes' : list (K * Q)) (n : nat) c v, 1 <= n -> NoDup (map fst votes) ->
  Permutation votes votes' -> In (c, v) votes ->
  (In (Cand c) (get_n_best Qle_bool votes n) <-> In (Cand c) (get_n_best Qle_bool votes' n)) /\
  ((exists T, In (TieR T) (get_n_best Qle_bool votes n) /\ In c T) <->
   (exists T, In (TieR T) (get_n_best Qle_bool votes' n) /\ In c T)).
Proof. intros K. exact (@gnb_perm K). Qed.

(* two candidates in symmetric positions (equal totals): both elected, both tied, or both out *)
Theorem C10_symmetric : forall (K : Type)
    (votes : list (K * Q)) (n : nat) c1 v1 c2 v2, 1 <= n -> NoDup (map fst votes) ->
  In (c1, v1) votes -> In (c2, v2) votes -> (v1 == v2)%Q ->
  (In (Cand c1) (get_n_best Qle_bool votes n) <-> In (Cand c2) (get_n_best Qle_bool votes n)) /\
  ((exists T, In (TieR T) (get_n_best Qle_bool votes n) /\ In c1 T) <->
   (exists T, In (TieR T) (get_n_best Qle_bool votes n) /\ In c2 T)).
Proof. intros K. exact (@gnb_symmetric K). Qed.

(* renaming: for ANY function on candidate names (injective or not) the outcome is the renamed outcome *)
Theorem C10_rename : forall (K K' V : Type) (leb : V -> V -> bool) (f : K -> K') (votes : list (K * V)) (n : nat),
  get_n_best leb (renk f votes) n = map (ren_res f) (get_n_best leb votes n).
Proof. exact @get_n_best_rename. Qed.

(* every additive converter: the order of the ballots does not change any converted count *)
Theorem C10_ballot_order : forall (B : Type) (image : B -> list (sx * Q)) (a b : list (B * Q)) (k : sx),
  Permutation a b -> (gget sx_eqb (dconv image a) k == gget sx_eqb (dconv image b) k)%Q.
Proof. intros B image. exact (conv_perm sx_eqb sx_eqb_spec image). Qed.

(* every highest-averages rule: listing the parties in another order changes neither any party's seats
   nor the seats left, and a reported tie names the same parties for the same number of seats *)
Theorem C10_highest_averages_order : forall (d : Z -> Q) (votes votes' : list (C * Q)) (caps prev : list (C * Z)) (n : Z),
  divisor_ok d -> (forall c v, In (c, v) votes -> (0 <= v)%Q) -> NoDup (map fst votes) ->
  (forall c, (0 <= dget_or prev c 0)%Z) -> Permutation votes votes' ->
  (forall c, dget_or (st_totals (final_state d votes n prev caps)) c 0%Z = dget_or (st_totals (final_state d votes' n prev caps)) c 0%Z) /\
  tie_eq (st_tie (final_state d votes n prev caps)) (st_tie (final_state d votes' n prev caps)) /\
  st_rem (final_state d votes n prev caps) = st_rem (final_state d votes' n prev caps).
Proof.
  intros d votes votes' caps prev n [Hp Hm] Hv Hnd Hprev Hperm.
  exact (ha_perm d votes votes' caps prev n Hp Hm Hv Hnd Hprev Hperm).
Qed.

(* ... and it commutes with every injective renaming of the parties: the evaluation on renamed votes, previous gains and
   caps is the renamed evaluation (gains, tie members) - exact equality, any divisor function *)
Theorem C10_highest_averages_rename : forall (f : C -> C), (forall a b, f a = f b -> a = b) ->
  forall (d : Z -> Q) (votes : list (C * Q)) (caps prev : list (C * Z)) (n : Z),
  evaluate d (renl f votes) n (renl f prev) (renl f caps) = ren_result f (evaluate d votes n prev caps).
Proof. intros f Hf d votes caps prev n. exact (evaluate_ren f Hf d votes caps n prev). Qed.

(* ================================================================ the Condorcet family on pairwise dictionaries
   v' holds the same (pair, count) entries as v in another insertion order: Permutation v v', distinct keys
   (a Python dict), and - where stated - non-negative counts.  Vocabulary (Proofs/GnbSim_proofs.v, CondorcetOrder_proofs.v):
     res_equiv r r'    := the two results have the same length, position by position a plain winner faces a plain
                          winner and a tie faces a tie with the same members (Permutation), and the same candidates
                          are elected; hence (C10_condorcet_tied_members) the same candidates are reported tied;
     res_relz d d' x y := x, y are both plain winners with the SAME score in the score dictionary d (d' has the same
                          content), or both ties with the same members - so a winner whose score nobody shares sits at the
                          same position in both results (C10_condorcet_unique_position); equally placed winners may swap. *)
Theorem C10_condorcet_tied_members : forall r r' c, res_equiv r r' ->
  ((exists T, In (TieR T) r /\ In c T) <-> (exists T, In (TieR T) r' /\ In c T)).
Proof. exact res_equiv_tied. Qed.

Theorem C10_condorcet_unique_position : forall d d' r r' i a, Forall2 (res_relz d d') r r' -> nth_error r i = Some (Cand a) ->
  (forall b, In b (map fst d) -> score_of d b = score_of d a -> b = a) -> nth_error r' i = Some (Cand a).
Proof. exact relz_unique_pos. Qed.

(* the content of the dictionary, the candidate set, the pairwise wins *)
Theorem C10_condorcet_pget_order : forall v v' p, NoDup (map fst v) -> Permutation v v' ->
  pget v' p = pget v p /\ pget0 v' p = pget0 v p.
Proof. intros v v' p Hnd Hp. split; [exact (pget_perm v v' Hnd Hp p)|exact (pget0_perm v v' Hnd Hp p)]. Qed.

Theorem C10_condorcet_pairwise_wins_order : forall v v' ties, NoDup (map fst v) -> Permutation v v' ->
  Permutation (candidates v) (candidates v') /\ Permutation (pairwise_wins v ties) (pairwise_wins v' ties).
Proof. intros v v' t Hnd Hp. split; [exact (cands_perm v v' Hp)|exact (wins_perm v v' Hnd Hp t)]. Qed.

(* CondorcetWinner: the same answer *)
Theorem C10_condorcet_winner_order : forall v v', NoDup (map fst v) -> Permutation v v' ->
  condorcet_winner v' = condorcet_winner v.
Proof. exact condorcet_winner_perm. Qed.

(* Copeland, raw and second order *)
Theorem C10_condorcet_copeland_order : forall second_order v v' n, NoDup (map fst v) -> Permutation v v' ->
  res_equiv (copeland second_order v n) (copeland second_order v' n).
Proof. intros so v v' n Hnd Hp. exact (copeland_equiv v v' Hnd Hp so n). Qed.

(* ... position by position the same (first-order) Copeland score - raw and second order
   (cscores = the score dictionary get_n_best is applied to) *)
Theorem C10_condorcet_copeland_positions : forall second_order v v' n, NoDup (map fst v) -> Permutation v v' ->
  Permutation (cscores v) (cscores v') /\
  Forall2 (res_relz (cscores v) (cscores v')) (copeland second_order v n) (copeland second_order v' n).
Proof. intros so v v' n Hnd Hp. split; [exact (cscores_perm v v' Hnd Hp)|exact (copeland_sim v v' Hnd Hp so n)]. Qed.

(* MinimaxCondorcet, the three scorers (mscores = the negated max-counterscore dictionary) *)
Theorem C10_condorcet_minimax_order : forall s v v' n, NoDup (map fst v) -> Permutation v v' ->
  res_equiv (minimax s v n) (minimax s v' n) /\
  Forall2 (res_relz (mscores s v) (mscores s v')) (minimax s v n) (minimax s v' n).
Proof. intros s v v' n Hnd Hp. split; [exact (minimax_equiv v v' Hnd Hp s n)|exact (minimax_sim v v' Hnd Hp s n)]. Qed.

(* Schulze: another insertion order of the dictionary AND any two iteration orders of the candidate set
   (sscores = the dictionary of path-win counts) *)
Theorem C10_condorcet_schulze_order : forall v v' order order' n, NoDup (map fst v) -> (forall p k, In (p, k) v -> (0 <= k)%Z) ->
  Permutation v v' -> incl (candidates v) order -> incl (candidates v') order' ->
  res_equiv (schulze v order n) (schulze v' order' n) /\
  Forall2 (res_relz (sscores v order) (sscores v' order')) (schulze v order n) (schulze v' order' n).
Proof.
  intros v v' o o' n Hnd Hnn Hp Hi Hi'. split; [exact (schulze_equiv v v' Hnd Hnn Hp o o' n Hi Hi')|exact (schulze_sim v v' Hnd Hnn Hp o o' n Hi Hi')].
Qed.

(* the clause formerly only stated (C10_schulze_order_full_statement), with the two facts every real input satisfies
   made explicit (distinct keys: a dict; non-negative counts) - the result is even EQUAL.  The version without them
   is neither proved nor refuted: no counterexample among all 15625 sparse dictionaries over 3 candidates with counts in
   {-2..1} and all 5832 three-entry lists with repeated keys *)
Theorem C10_condorcet_schulze_iteration_order : forall v order order' n, NoDup (map fst v) -> (forall p k, In (p, k) v -> (0 <= k)%Z) ->
  Permutation order order' -> NoDup order -> (forall c, In c (candidates v) <-> In c order) ->
  schulze v order n = schulze v order' n /\
  forall c, In (Cand c) (schulze v order n) <-> In (Cand c) (schulze v order' n).
Proof.
  intros v o o' n Hnd Hnn Hp _ Hc.
  assert (E : schulze v o n = schulze v o' n).
  { apply (schulze_order_irrelevant v Hnd Hnn o o' n); intros c Hin; [apply Hc, Hin|apply (Permutation_in _ Hp), Hc, Hin]. }
  split; [exact E|]. intros c. rewrite E. reflexivity.
Qed.

(* KemenyYoung: the same answer, the same refusal *)
Theorem C10_condorcet_kemeny_order : forall v v' n, NoDup (map fst v) -> Permutation v v' -> kemeny v' n = kemeny v n.
Proof. intros v v' n Hnd Hp. exact (kemeny_perm v v' n Hnd Hp). Qed.

(* SmithSet: the same members (their order follows the Copeland order, stable among equal scores) *)
Theorem C10_condorcet_smith_order : forall v v', NoDup (map fst v) -> (forall p k, In (p, k) v -> (0 <= k)%Z) -> Permutation v v' ->
  Permutation (smith_schwartz v true) (smith_schwartz v' true).
Proof. exact smith_perm. Qed.

(* SchwartzSet is NOT order independent (known finding C10-schwartz-order): {(1,2):1,(2,1):1,(1,3):2,(3,1):0,(2,3):2,(3,2):0}
   returns [1]; listing the pairs of 2 first returns [2] *)
Theorem C10_condorcet_schwartz_order_refuted : exists v v', NoDup (map fst v) /\ (forall p k, In (p, k) v -> (0 <= k)%Z) /\ Permutation v v' /\
  exists c, In c (smith_schwartz v false) /\ ~ In c (smith_schwartz v' false).
Proof. exact schwartz_order_refuted. Qed.

(* RankedPairs on the profiles the property quantifies over - pairwise distinct sort keys (strength under the scorer,
   votes for the pair) over the ordered pairs of candidates: the same answer *)
Theorem C10_condorcet_ranked_pairs_order : forall s v v' n, NoDup (map fst v) -> Permutation v v' -> rp_distinct_b s v = true ->
  ranked_pairs s v' n = ranked_pairs s v n.
Proof. exact ranked_pairs_perm. Qed.

(* ... and NOT otherwise (the exclusion in the property text is necessary): a three-cycle of 2:1 majorities elects
   the candidate whose pair was inserted first, under each of the three scorers *)
Theorem C10_condorcet_ranked_pairs_order_refuted : exists v v', NoDup (map fst v) /\ (forall p k, In (p, k) v -> (0 <= k)%Z) /\ Permutation v v' /\
  forall s, exists c c', c <> c' /\ ranked_pairs s v 1 = CR_ok [Cand c] /\ ranked_pairs s v' 1 = CR_ok [Cand c'].
Proof. exact ranked_pairs_order_refuted. Qed.

(* non-vacuity of the hypotheses and of "up to the order inside ties": a dictionary with a three-cycle, permuted *)
Example C10_condorcet_example :
  let v  := mk_pv [(1,2,3);(2,1,1);(2,3,3);(3,2,1);(3,1,3);(1,3,1);(1,4,4);(4,1,0);(2,4,4);(4,2,0);(3,4,2);(4,3,2)]%Z in
  let v' := mk_pv [(4,3,2);(3,4,2);(3,1,3);(1,3,1);(2,3,3);(3,2,1);(1,2,3);(2,1,1);(4,2,0);(2,4,4);(4,1,0);(1,4,4)]%Z in
  nodup_keys_b v = true /\ forallb (fun pn : pair * Z => (0 <=? snd pn)%Z) v = true /\ list_perm_b v v' = true /\
  minimax Margins v 1 = [TieR [2; 3; 1]]%positive /\ minimax Margins v' 1 = [TieR [3; 1; 2]]%positive /\
  schulze v [1; 2; 3; 4]%positive 1 = [TieR [1; 2; 3]]%positive /\ schulze v' [4; 3; 2; 1]%positive 1 = [TieR [3; 1; 2]]%positive /\
  copeland false v 1 = [TieR [1; 2]]%positive /\ copeland true v' 1 = [Cand 1]%positive /\
  rp_distinct_b WinningVotes rp_ok_v = true.
Proof. vm_compute. repeat split; reflexivity. Qed.

(* non-vacuity *)
Example C10_example :
  get_n_best Qle_bool [(1%positive, 5#1); (2%positive, 7#2); (3%positive, 14#4)]%Q 2 = [Cand 1%positive; TieR [2%positive; 3%positive]] /\
  get_n_best Qle_bool [(3%positive, 14#4); (1%positive, 5#1); (2%positive, 7#2)]%Q 2 = [Cand 1%positive; TieR [3%positive; 2%positive]].
Proof. vm_compute. split; reflexivity. Qed.

Print Assumptions C10_count_characterisation.
Print Assumptions C10_order.
Print Assumptions C10_symmetric.
Print Assumptions C10_rename.
Print Assumptions C10_ballot_order.
Print Assumptions C10_highest_averages_order.
Print Assumptions C10_highest_averages_rename.
Print Assumptions C10_condorcet_tied_members.
Print Assumptions C10_condorcet_unique_position.
Print Assumptions C10_condorcet_pget_order.
Print Assumptions C10_condorcet_pairwise_wins_order.
Print Assumptions C10_condorcet_winner_order.
Print Assumptions C10_condorcet_copeland_order.
Print Assumptions C10_condorcet_copeland_positions.
Print Assumptions C10_condorcet_minimax_order.
Print Assumptions C10_condorcet_schulze_order.
Print Assumptions C10_condorcet_schulze_iteration_order.
Print Assumptions C10_condorcet_kemeny_order.
Print Assumptions C10_condorcet_smith_order.
Print Assumptions C10_condorcet_schwartz_order_refuted.
Print Assumptions C10_condorcet_ranked_pairs_order.
Print Assumptions C10_condorcet_ranked_pairs_order_refuted.
