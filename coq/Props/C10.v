(* C10 - Outcomes do not depend on ballot order, candidate names or hash seed.
   Property theorems only.  Models: Model/GetNBest.v, Prelude/GDict.v (additive converters);
   Model/QuotaDistributor.v, Model/STV.v; proofs: Proofs/Order_proofs.v, Proofs/Convert_proofs.v,
   Proofs/HAPerm_proofs.v, Proofs/HARename_proofs.v, Proofs/QDOrder_proofs.v, Proofs/STVOrder_proofs.v.

   The models are structural: they use equality on candidates only (never an order on names, never
   a hash), so "identical under every interpreter hash seed" has no counterpart to prove on the
   model side - where the implementation iterates a set, the check sweeps PYTHONHASHSEED. *)
From Coq Require Import ZArith QArith List Bool Permutation Arith.
From VL Require Import Prelude.Sx Prelude.PyDict Prelude.GDict Model.GetNBest Model.HighestAverages Model.Condorcet Model.Convert
     Proofs.GetNBest_proofs Proofs.QOrd Proofs.Order_proofs Proofs.Convert_proofs Proofs.HA_proofs Proofs.Divisor_proofs Proofs.HAPerm_proofs Proofs.HARename_proofs
     Proofs.Condorcet_proofs Proofs.CopelandMono_proofs Proofs.Schulze_proofs Proofs.GnbSim_proofs Proofs.CondorcetOrder_proofs.
From VL Require Import Model.Quota Model.QuotaDistributor Proofs.QDOrder_proofs Model.STV Proofs.STVOrder_proofs.
From VL Require Proofs.Schwartz_proofs Proofs.SchwartzInv_proofs.
Import ListNotations.
Close Scope Q_scope.
Close Scope Z_scope.
Open Scope nat_scope.

(* The outcome of get_n_best depends on the input only through COUNTS of totals above / at a value:
   a candidate with total v is elected iff at most n totals are >= v, and is a member of a reported
   tie iff fewer than n totals are > v but more than n are >= v. *)
Theorem C10_count_characterisation : forall (K : Type)
    (votes : list (K * Q)) (n : nat) c v, 1 <= n -> NoDup (map fst votes) -> In (c, v) votes ->
  (In (Cand c) (get_n_best Qle_bool votes n) <-> cnt_ge votes v <= n) /\
  ((exists T, In (TieR T) (get_n_best Qle_bool votes n) /\ In c T) <-> cnt_gt votes v < n < cnt_ge votes v).
Proof. intros K. exact (@gnb_count_char K). Qed.

(* hence: filling the dictionary in a different order changes neither who is elected nor who is tied *)
Theorem C10_order : forall (K : Type)
    (votes votes' : list (K * Q)) (n : nat) c v, 1 <= n -> NoDup (map fst votes) ->
  Permutation votes votes' -> In (c, v) votes ->
  (In (Cand c) (get_n_best Qle_bool votes n) <-> In (Cand c) (get_n_best Qle_bool votes' n)) /\
  ((exists T, In (TieR T) (get_n_best Qle_bool votes n) /\ In c T) <->
   (exists T, In (TieR T) (get_n_best Qle_bool votes' n) /\ In c T)).
Proof. intros K. exact (@gnb_perm K). Qed.

(* two candidates in symmetric positions (equal totals): both elected, both tied, or both out *)
Theorem C10_symmetric : forall (K : Type)
    (votes : list (K * Q)) (n : nat) c1 v1 c2 v2, 1 <= n -> NoDup (map fst votes) ->
  In (c1, v1) votes -> In (c2, v2) votes -> (v1 == v2)%Q ->
  (In (Cand c1) (get_n_best Qle_bool votes n) <-> In (Cand c2) (get_n_best Qle_bool votes n)) /\
  ((exists T, In (TieR T) (get_n_best Qle_bool votes n) /\ In c1 T) <->
   (exists T, In (TieR T) (get_n_best Qle_bool votes n) /\ In c2 T)).
Proof. intros K. exact (@gnb_symmetric K). Qed.

(* renaming: for ANY function on candidate names (injective or not) the outcome is the renamed outcome *)
Theorem C10_rename : forall (K K' V : Type) (leb : V -> V -> bool) (f : K -> K') (votes : list (K * V)) (n : nat),
  get_n_best leb (renk f votes) n = map (ren_res f) (get_n_best leb votes n).
Proof. exact @get_n_best_rename. Qed.

(* every additive converter: the order of the ballots does not change any converted count *)
Theorem C10_ballot_order : forall (B : Type) (image : B -> list (sx * Q)) (a b : list (B * Q)) (k : sx),
  Permutation a b -> (gget sx_eqb (dconv image a) k == gget sx_eqb (dconv image b) k)%Q.
Proof. intros B image. exact (conv_perm sx_eqb sx_eqb_spec image). Qed.

(* every highest-averages rule: listing the parties in another order changes neither any party's seats
   nor the seats left, and a reported tie names the same parties for the same number of seats *)
Theorem C10_highest_averages_order : forall (d : Z -> Q) (votes votes' : list (C * Q)) (caps prev : list (C * Z)) (n : Z),
  divisor_ok d -> (forall c v, In (c, v) votes -> (0 <= v)%Q) -> NoDup (map fst votes) ->
  (forall c, (0 <= dget_or prev c 0)%Z) -> Permutation votes votes' ->
  (forall c, dget_or (st_totals (final_state d votes n prev caps)) c 0%Z = dget_or (st_totals (final_state d votes' n prev caps)) c 0%Z) /\
  tie_eq (st_tie (final_state d votes n prev caps)) (st_tie (final_state d votes' n prev caps)) /\
  st_rem (final_state d votes n prev caps) = st_rem (final_state d votes' n prev caps).
Proof.
  intros d votes votes' caps prev n [Hp Hm] Hv Hnd Hprev Hperm.
  exact (ha_perm d votes votes' caps prev n Hp Hm Hv Hnd Hprev Hperm).
Qed.

(* ... and it commutes with every injective renaming of the parties: the evaluation on renamed votes, previous gains and
   caps is the renamed evaluation (gains, tie members) - exact equality, any divisor function *)
Theorem C10_highest_averages_rename : forall (f : C -> C), (forall a b, f a = f b -> a = b) ->
  forall (d : Z -> Q) (votes : list (C * Q)) (caps prev : list (C * Z)) (n : Z),
  evaluate d (renl f votes) n (renl f prev) (renl f caps) = ren_result f (evaluate d votes n prev caps).
Proof. intros f Hf d votes caps prev n. exact (evaluate_ren f Hf d votes caps n prev). Qed.

(* ================================================================ the Condorcet family on pairwise dictionaries
   v' holds the same (pair, count) entries as v in another insertion order: Permutation v v', distinct keys
   (a Python dict), and - where stated - non-negative counts.  Vocabulary (Proofs/GnbSim_proofs.v, CondorcetOrder_proofs.v):
     res_equiv r r'    := the two results have the same length, position by position a plain winner faces a plain
                          winner and a tie faces a tie with the same members (Permutation), and the same candidates
                          are elected; hence (C10_condorcet_tied_members) the same candidates are reported tied;
     res_relz d d' x y := x, y are both plain winners with the SAME score in the score dictionary d (d' has the same
                          content), or both ties with the same members - so a winner whose score nobody shares sits at the
                          same position in both results (C10_condorcet_unique_position); equally placed winners may swap. *)
Theorem C10_condorcet_tied_members : forall r r' c, res_equiv r r' ->
  ((exists T, In (TieR T) r /\ In c T) <-> (exists T, In (TieR T) r' /\ In c T)).
Proof. exact res_equiv_tied. Qed.

Theorem C10_condorcet_unique_position : forall d d' r r' i a, Forall2 (res_relz d d') r r' -> nth_error r i = Some (Cand a) ->
  (forall b, In b (map fst d) -> score_of d b = score_of d a -> b = a) -> nth_error r' i = Some (Cand a).
Proof. exact relz_unique_pos. Qed.

(* the content of the dictionary, the candidate set, the pairwise wins *)
Theorem C10_condorcet_pget_order : forall v v' p, NoDup (map fst v) -> Permutation v v' ->
  pget v' p = pget v p /\ pget0 v' p = pget0 v p.
Proof. intros v v' p Hnd Hp. split; [exact (pget_perm v v' Hnd Hp p)|exact (pget0_perm v v' Hnd Hp p)]. Qed.

Theorem C10_condorcet_pairwise_wins_order : forall v v' ties, NoDup (map fst v) -> Permutation v v' ->
  Permutation (candidates v) (candidates v') /\ Permutation (pairwise_wins v ties) (pairwise_wins v' ties).
Proof. intros v v' t Hnd Hp. split; [exact (cands_perm v v' Hp)|exact (wins_perm v v' Hnd Hp t)]. Qed.

(* CondorcetWinner: the same answer *)
Theorem C10_condorcet_winner_order : forall v v', NoDup (map fst v) -> Permutation v v' ->
  condorcet_winner v' = condorcet_winner v.
Proof. exact condorcet_winner_perm. Qed.

(* Copeland, raw and second order *)
Theorem C10_condorcet_copeland_order : forall second_order v v' n, NoDup (map fst v) -> Permutation v v' ->
  res_equiv (copeland second_order v n) (copeland second_order v' n).
Proof. intros so v v' n Hnd Hp. exact (copeland_equiv v v' Hnd Hp so n). Qed.

(* ... position by position the same (first-order) Copeland score - raw and second order
   (cscores = the score dictionary get_n_best is applied to) *)
Theorem C10_condorcet_copeland_positions : forall second_order v v' n, NoDup (map fst v) -> Permutation v v' ->
  Permutation (cscores v) (cscores v') /\
  Forall2 (res_relz (cscores v) (cscores v')) (copeland second_order v n) (copeland second_order v' n).
Proof. intros so v v' n Hnd Hp. split; [exact (cscores_perm v v' Hnd Hp)|exact (copeland_sim v v' Hnd Hp so n)]. Qed.

(* MinimaxCondorcet, the three scorers (mscores = the negated max-counterscore dictionary) *)
Theorem C10_condorcet_minimax_order : forall s v v' n, NoDup (map fst v) -> Permutation v v' ->
  res_equiv (minimax s v n) (minimax s v' n) /\
  Forall2 (res_relz (mscores s v) (mscores s v')) (minimax s v n) (minimax s v' n).
Proof. intros s v v' n Hnd Hp. split; [exact (minimax_equiv v v' Hnd Hp s n)|exact (minimax_sim v v' Hnd Hp s n)]. Qed.

(* Schulze: another insertion order of the dictionary AND any two iteration orders of the candidate set
   (sscores = the dictionary of path-win counts) *)
Theorem C10_condorcet_schulze_order : forall v v' order order' n, NoDup (map fst v) -> (forall p k, In (p, k) v -> (0 <= k)%Z) ->
  Permutation v v' -> incl (candidates v) order -> incl (candidates v') order' ->
  res_equiv (schulze v order n) (schulze v' order' n) /\
  Forall2 (res_relz (sscores v order) (sscores v' order')) (schulze v order n) (schulze v' order' n).
Proof.
  intros v v' o o' n Hnd Hnn Hp Hi Hi'. split; [exact (schulze_equiv v v' Hnd Hnn Hp o o' n Hi Hi')|exact (schulze_sim v v' Hnd Hnn Hp o o' n Hi Hi')].
Qed.

(* the clause formerly only stated (C10_schulze_order_full_statement), with the two facts every real input satisfies
   made explicit (distinct keys: a dict; non-negative counts) - the result is even EQUAL.  The version without them
   is neither proved nor refuted: no counterexample among all 15625 sparse dictionaries over 3 candidates with counts in
   {-2..1} and all 5832 three-entry lists with repeated keys *)
Theorem C10_condorcet_schulze_iteration_order : forall v order order' n, NoDup (map fst v) -> (forall p k, In (p, k) v -> (0 <= k)%Z) ->
  Permutation order order' -> NoDup order -> (forall c, In c (candidates v) <-> In c order) ->
  schulze v order n = schulze v order' n /\
  forall c, In (Cand c) (schulze v order n) <-> In (Cand c) (schulze v order' n).
Proof.
  intros v o o' n Hnd Hnn Hp _ Hc.
  assert (E : schulze v o n = schulze v o' n).
  { apply (schulze_order_irrelevant v Hnd Hnn o o' n); intros c Hin; [apply Hc, Hin|apply (Permutation_in _ Hp), Hc, Hin]. }
  split; [exact E|]. intros c. rewrite E. reflexivity.
Qed.

(* KemenyYoung: the same answer, the same refusal *)
Theorem C10_condorcet_kemeny_order : forall v v' n, NoDup (map fst v) -> Permutation v v' -> kemeny v' n = kemeny v n.
Proof. intros v v' n Hnd Hp. exact (kemeny_perm v v' n Hnd Hp). Qed.

(* SmithSet: the same members (their order follows the Copeland order, stable among equal scores) *)
Theorem C10_condorcet_smith_order : forall v v', NoDup (map fst v) -> (forall p k, In (p, k) v -> (0 <= k)%Z) -> Permutation v v' ->
  Permutation (smith_schwartz v true) (smith_schwartz v' true).
Proof. exact smith_perm. Qed.

(* SchwartzSet (Model/Condorcet.v schwartz_set, the routine after the repair fixes/C06-schwartz-set): the same members
   (their order follows the Copeland order of the Smith routine, stable among equal scores) *)
Theorem C10_schwartz_order : forall v v', NoDup (map fst v) -> (forall p k, In (p, k) v -> (0 <= k)%Z) -> Permutation v v' ->
  Permutation (schwartz_set v) (schwartz_set v').
Proof. exact SchwartzInv_proofs.schwartz_perm. Qed.

(* the routine the pinned tree ran for SchwartzSet (the Smith routine with ties = false) was NOT order independent (fixed
   finding C10-schwartz-order): {(1,2):1,(2,1):1,(1,3):2,(3,1):0,(2,3):2,(3,2):0} returns [1]; listing the pairs of 2 first
   returns [2].  Kept as the machine-checked reason for the repair *)
Theorem C10_condorcet_schwartz_order_refuted : exists v v', NoDup (map fst v) /\ (forall p k, In (p, k) v -> (0 <= k)%Z) /\ Permutation v v' /\
  exists c, In c (smith_schwartz v false) /\ ~ In c (smith_schwartz v' false).
Proof. exact schwartz_order_refuted. Qed.

(* RankedPairs on the profiles the property quantifies over - pairwise distinct sort keys (strength under the scorer,
   votes for the pair) over the ordered pairs of candidates: the same answer *)
Theorem C10_condorcet_ranked_pairs_order : forall s v v' n, NoDup (map fst v) -> Permutation v v' -> rp_distinct_b s v = true ->
  ranked_pairs s v' n = ranked_pairs s v n.
Proof. exact ranked_pairs_perm. Qed.

(* ... and NOT otherwise (the exclusion in the property text is necessary): a three-cycle of 2:1 majorities elects
   the candidate whose pair was inserted first, under each of the three scorers *)
Theorem C10_condorcet_ranked_pairs_order_refuted : exists v v', NoDup (map fst v) /\ (forall p k, In (p, k) v -> (0 <= k)%Z) /\ Permutation v v' /\
  forall s, exists c c', c <> c' /\ ranked_pairs s v 1 = CR_ok [Cand c] /\ ranked_pairs s v' 1 = CR_ok [Cand c'].
Proof. exact ranked_pairs_order_refuted. Qed.

(* non-vacuity of the hypotheses and of "up to the order inside ties": a dictionary with a three-cycle, permuted *)
Example C10_condorcet_example :
  let v  := mk_pv [(1,2,3);(2,1,1);(2,3,3);(3,2,1);(3,1,3);(1,3,1);(1,4,4);(4,1,0);(2,4,4);(4,2,0);(3,4,2);(4,3,2)]%Z in
  let v' := mk_pv [(4,3,2);(3,4,2);(3,1,3);(1,3,1);(2,3,3);(3,2,1);(1,2,3);(2,1,1);(4,2,0);(2,4,4);(4,1,0);(1,4,4)]%Z in
  nodup_keys_b v = true /\ forallb (fun pn : pair * Z => (0 <=? snd pn)%Z) v = true /\ list_perm_b v v' = true /\
  minimax Margins v 1 = [TieR [2; 3; 1]]%positive /\ minimax Margins v' 1 = [TieR [3; 1; 2]]%positive /\
  schulze v [1; 2; 3; 4]%positive 1 = [TieR [1; 2; 3]]%positive /\ schulze v' [4; 3; 2; 1]%positive 1 = [TieR [3; 1; 2]]%positive /\
  copeland false v 1 = [TieR [1; 2]]%positive /\ copeland true v' 1 = [Cand 1]%positive /\
  rp_distinct_b WinningVotes rp_ok_v = true.
Proof. vm_compute. repeat split; reflexivity. Qed.

(* non-vacuity *)
Example C10_example :
  get_n_best Qle_bool [(1%positive, 5#1); (2%positive, 7#2); (3%positive, 14#4)]%Q 2 = [Cand 1%positive; TieR [2%positive; 3%positive]] /\
  get_n_best Qle_bool [(3%positive, 14#4); (1%positive, 5#1); (2%positive, 7#2)]%Q 2 = [Cand 1%positive; TieR [3%positive; 2%positive]].
Proof. vm_compute. split; reflexivity. Qed.

(* ---- the quota family (QuotaDistributor.evaluate with its recursive cap branch and _subtract_overaward, and
   LargestRemainder.evaluate): whatever the insertion order of the votes, of the previous gains and of the caps, the
   two evaluations end alike ([qd_obs] / [lr_obs]) - the same error, or two result dictionaries in which every
   candidate has the same seats ([kdget]; the candidate-keyed entries are permutations of each other, distinct
   keys) and the tie keys correspond one to one with the same members (as sets) and the same seats.
   [quota_ext]: the quota function does not distinguish equal rationals (every library quota: C10_quota_fn_ext). *)
Theorem C10_quota_distributor_order : forall (quota : Q -> Z -> Q) (accept_equal : bool) (pol : policy)
    (votes votes' : list (C * Q)) (n : Z) (prev prev' caps caps' : list (C * Z)),
  quota_ext quota -> NoDup (map fst votes) -> Permutation votes votes' ->
  NoDup (map fst prev) -> Permutation prev prev' -> (forall c, dget caps' c = dget caps c) ->
  qd_obs (qd_evaluate quota accept_equal pol votes n prev caps) (qd_evaluate quota accept_equal pol votes' n prev' caps').
Proof.
  intros quota ae pol votes votes' n prev prev' caps caps' Hq Hv Hvp Hp Hpp Hc.
  exact (qd_rel_obs _ _ (qd_evaluate_perm quota ae pol Hq votes votes' n prev prev' caps caps' Hv Hvp Hp Hpp Hc)).
Qed.

Theorem C10_largest_remainder_order : forall (quota : Q -> Z -> Q) (accept_equal : bool) (pol : policy)
    (votes votes' : list (C * Q)) (n : Z) (prev prev' caps caps' : list (C * Z)),
  quota_ext quota -> NoDup (map fst votes) -> Permutation votes votes' ->
  NoDup (map fst prev) -> Permutation prev prev' -> (forall c, dget caps' c = dget caps c) ->
  lr_obs (lr_evaluate quota accept_equal pol votes n prev caps) (lr_evaluate quota accept_equal pol votes' n prev' caps').
Proof.
  intros quota ae pol votes votes' n prev prev' caps caps' Hq Hv Hvp Hp Hpp Hc.
  exact (lr_rel_obs _ _ (lr_evaluate_perm quota ae pol Hq votes votes' n prev prev' caps caps' Hv Hvp Hp Hpp Hc)).
Qed.

Theorem C10_quota_fn_ext : forall qs, quota_ext (quota_fn qs).
Proof. exact quota_fn_ext. Qed.

(* non-vacuity: the over-award subtraction ends in a tie key, the remainder stage in a tie; the orders differ *)
Example C10_quota_example :
  qd_evaluate (quota_fn (QNamed 7)) true PSubtract [(1%positive, 30#1); (2%positive, 30#1); (3%positive, 7#1)]%Q 3 [] []
    = QD_ok [(K 1%positive, 1%Z); (K 2%positive, 1%Z); (KT [1%positive; 2%positive], 1%Z)] /\
  qd_evaluate (quota_fn (QNamed 7)) true PSubtract [(3%positive, 7#1); (2%positive, 30#1); (1%positive, 30#1)]%Q 3 [] []
    = QD_ok [(K 2%positive, 1%Z); (K 1%positive, 1%Z); (KT [2%positive; 1%positive], 1%Z)] /\
  lr_evaluate (quota_fn (QNamed 1)) true PSubtract [(1%positive, 30#1); (2%positive, 20#1); (3%positive, 7#1); (4%positive, 7#1)]%Q 4 [] []
    = LR_ok [(K 1%positive, 2%Z); (K 2%positive, 1%Z); (KT [3%positive; 4%positive], 1%Z)] /\
  lr_evaluate (quota_fn (QNamed 1)) true PSubtract [(4%positive, 7#1); (3%positive, 7#1); (2%positive, 20#1); (1%positive, 30#1)]%Q 4 [] []
    = LR_ok [(K 2%positive, 1%Z); (K 1%positive, 2%Z); (KT [4%positive; 3%positive], 1%Z)].
Proof. vm_compute. repeat split; reflexivity. Qed.

(* non-vacuity of the continued subtraction (the Tie object as a key of `selected`): with two seats to withdraw the
   tie key is entered and then withdrawn again; a three-way tie *)
Example C10_quota_example_tie_key :
  qd_evaluate (quota_fn (QNamed 7)) true PSubtract [(1%positive, 30#1); (2%positive, 30#1); (3%positive, 7#1)]%Q 2 [] []
    = QD_ok [(K 1%positive, 1%Z); (K 2%positive, 1%Z)] /\
  qd_evaluate (quota_fn (QNamed 7)) true PSubtract [(3%positive, 7#1); (2%positive, 30#1); (1%positive, 30#1)]%Q 2 [] []
    = QD_ok [(K 2%positive, 1%Z); (K 1%positive, 1%Z)] /\
  qd_evaluate (quota_fn (QNamed 7)) true PSubtract [(1%positive, 30#1); (2%positive, 30#1); (3%positive, 30#1)]%Q 4 [] []
    = QD_ok [(K 1%positive, 1%Z); (K 2%positive, 1%Z); (K 3%positive, 1%Z); (KT [1%positive; 2%positive; 3%positive], 1%Z)] /\
  qd_evaluate (quota_fn (QNamed 7)) true PSubtract [(3%positive, 30#1); (2%positive, 30#1); (1%positive, 30#1)]%Q 4 [] []
    = QD_ok [(K 3%positive, 1%Z); (K 2%positive, 1%Z); (K 1%positive, 1%Z); (KT [3%positive; 2%positive; 1%positive], 1%Z)].
Proof. vm_compute. repeat split; reflexivity. Qed.

(* ---- the transferable-vote count (STV with Gregory transfers, TransferableVoteDistributor / Selector: quota election,
   over-count correction, surplus transfer, elimination by get_n_best, the elect-all-remaining shortcut, the fixpoint
   stop): presenting the ballots (and the previous gains) in another order gives the same stop reason, the same seats
   as a dictionary, and count by count the same totals and the same elected as dictionaries (only their order differs).
   [ballots_distinct]: the profile is a dictionary keyed by ballots - no two keys are equal as Python compares them
   (shared ranks as sets). *)
Theorem C10_stv_order : forall (cf : cfg) (votes votes' : list (ballot * Q)) (n : Z) (prev prev' caps : list (C * Z)),
  ballots_distinct votes -> Permutation votes votes' -> NoDup (map fst prev) -> Permutation prev prev' ->
  let t := stv cf votes n prev caps in
  let t' := stv cf votes' n prev' caps in
  t_stop t = t_stop t' /\
  (forall c, dget (t_seats t) c = dget (t_seats t') c) /\
  Permutation (t_seats t) (t_seats t') /\ NoDup (map fst (t_seats t)) /\
  Forall2 (fun x y => Permutation (fst x) (fst y) /\ Permutation (snd x) (snd y)) (t_counts t) (t_counts t').
Proof.
  intros cf votes votes' n prev prev' caps Hd Hp Hn Hpp t t'.
  destruct (stv_perm cf votes votes' n prev prev' caps Hd Hp Hn Hpp) as (H1 & H2 & H3 & H4).
  split; [exact H4|]. split; [intros c; apply dget_perm; assumption|]. split; [exact H3|]. split; [exact H2|exact H1].
Qed.

Definition C10_stv_cf : cfg :=
  Build_cfg (Some (fun v s => Qred (inject_Z (Qround.Qfloor (v / inject_Z (s + 1))) + 1))%Q) true false (-1)%Z.
Definition C10_stv_votes : list (ballot * Q) :=
  [([IP 1; IP 2; IP 3]%positive, 4#1); ([IP 2; IP 1]%positive, 7#2); ([IS [3;4]; IP 1]%positive, 2#1);
   ([IP 4; IS [1;2]]%positive, 2#1); ([IP 3]%positive, 1#1)]%Q.

(* non-vacuity: a profile with shared ranks satisfies the hypothesis; the two runs list the piles in different orders *)
Example C10_stv_example :
  ballots_distinct C10_stv_votes /\
  let caps := [(1%positive, 1%Z); (2%positive, 1%Z); (3%positive, 1%Z); (4%positive, 1%Z)] in
  let t := stv C10_stv_cf C10_stv_votes 2 [] caps in
  let t' := stv C10_stv_cf (rev C10_stv_votes) 2 [] caps in
  t_seats t = [(1%positive, 1%Z); (2%positive, 1%Z)] /\ t_seats t' = t_seats t /\ t_stop t = None /\
  option_map fst (hd_error (t_counts t)) = Some [(Some 1%positive, 5#1); (Some 2%positive, 7#2); (Some 4%positive, 3#1); (None, 1#1)]%Q /\
  option_map fst (hd_error (t_counts t')) = Some [(Some 4%positive, 3#1); (Some 2%positive, 7#2); (Some 1%positive, 5#1); (None, 1#1)]%Q.
Proof.
  split.
  - intros b b' Hb Hb' E. simpl in Hb, Hb'.
    repeat (destruct Hb as [<-|Hb];
      [repeat (destruct Hb' as [<-|Hb']; [first [reflexivity | (vm_compute in E; discriminate E)]|]); destruct Hb'|]).
    destruct Hb.
  - vm_compute. repeat split; reflexivity.
Qed.

(* ================================================================ renaming equivariance of the modelled evaluators
   For every INJECTIVE renaming f : C -> C of the candidates (the only hypothesis), evaluating the renamed input gives the
   renamed output - EXACT equality (elected candidates, ties with their members, seat dictionaries, refusals / errors,
   for STV the whole trace), which is stronger than the comparison the property asks for (ties as sets).
   Proofs: Proofs/Equivariant.v (equivariant combinators: map / filter / find / fold / flat_map / stable sort-by-key commute with
   a renaming when their predicates / keys / steps do), Proofs/CondorcetRename_proofs.v, QDRename_proofs.v, STVRename_proofs.v,
   CardinalRename_proofs.v, PAVRename_proofs.v.
   Which models consult an ORDER on candidates (the only way a name could matter)?  None of Model/Condorcet.v,
   QuotaDistributor.v, STV.v, GetNBest.v, HighestAverages.v and none of SPAV / score / MJ in Cardinal.v: candidates are only ever
   compared with [ceqb] (Pos.eqb); iteration orders are insertion orders of the input (or the explicit [order] of Schulze).
   The single exception is [pav] (ProportionalApproval): [canon_set] (Pos.ltb) stands for the iteration order of a Python
   frozenset; C10_pav_iteration_order shows that order is immaterial up to the order of equally placed winners, and
   C10_rename_pav_exact_refuted that exact equality is indeed lost there (a modelling artefact, not a finding: the
   implementation iterates the frozenset in hash order and the property allows equally placed winners to swap).
   Renamings: [renp] pairwise dictionary, [renl] candidate-keyed dictionary, [renkd] result dictionary with Tie keys,
   [renv] ranked profile (shared ranks member by member), [renap] approval profile, [rens] score profile. *)
From VL Require Import Model.Cardinal Proofs.Equivariant Proofs.CondorcetRename_proofs Proofs.QDRename_proofs Proofs.STVRename_proofs
     Proofs.CardinalRename_proofs Proofs.PAVRename_proofs Proofs.ApprovalOrder_proofs.
From Coq Require Import Lia.
Close Scope Q_scope.
Close Scope Z_scope.
Open Scope nat_scope.

Definition injective (f : C -> C) : Prop := forall a b, f a = f b -> a = b.

(* ---- the Condorcet family (priority 1) *)
Theorem C10_rename_condorcet_blocks : forall f, injective f -> forall v ties,
  candidates (renp f v) = map f (candidates v) /\ pairwise_wins (renp f v) ties = map (rp f) (pairwise_wins v ties) /\
  beat_counts (renp f v) = renl f (beat_counts v) /\ complete (renp f v) = renp f (complete v).
Proof. intros f Hf v t. exact (condorcet_blocks_ren f Hf v t). Qed.

Theorem C10_rename_condorcet_winner : forall f, injective f -> forall v,
  condorcet_winner (renp f v) = map f (condorcet_winner v).
Proof. intros f Hf v. exact (condorcet_winner_ren f Hf v). Qed.

Theorem C10_rename_copeland : forall f, injective f -> forall second_order v n,
  copeland second_order (renp f v) n = map (ren_res f) (copeland second_order v n).
Proof. intros f Hf so v n. exact (copeland_ren f Hf so v n). Qed.

Theorem C10_rename_minimax : forall f, injective f -> forall s v n,
  minimax s (renp f v) n = map (ren_res f) (minimax s v n).
Proof. intros f Hf s v n. exact (minimax_ren f Hf s v n). Qed.

(* [order] = the iteration order of the candidate set, renamed along *)
Theorem C10_rename_schulze : forall f, injective f -> forall v order n,
  schulze (renp f v) (map f order) n = map (ren_res f) (schulze v order n).
Proof. intros f Hf v o n. exact (schulze_ren f Hf v o n). Qed.

(* no hypothesis on the strengths: also on profiles with equal majorities the renamed run is the renamed result *)
Theorem C10_rename_ranked_pairs : forall f, injective f -> forall s v n,
  ranked_pairs s (renp f v) n = ren_cres f (ranked_pairs s v n).
Proof. intros f Hf s v n. exact (ranked_pairs_ren f Hf s v n). Qed.

Theorem C10_rename_kemeny : forall f, injective f -> forall v n,
  kemeny (renp f v) n = ren_cres f (kemeny v n).
Proof. intros f Hf v n. exact (kemeny_ren f Hf v n). Qed.

(* SmithSet (ties = true) and the Schwartz routine (ties = false) *)
Theorem C10_rename_smith_schwartz : forall f, injective f -> forall v ties,
  smith_schwartz (renp f v) ties = map f (smith_schwartz v ties).
Proof. intros f Hf v t. exact (smith_schwartz_ren f Hf v t). Qed.
Theorem C10_rename_schwartz_set : forall f, injective f -> forall v,
  schwartz_set (renp f v) = map f (schwartz_set v).
Proof. intros f Hf v. exact (SchwartzInv_proofs.schwartz_set_ren f Hf v). Qed.

(* ---- the quota family (priority 2) *)
Theorem C10_rename_quota_distributor : forall f, injective f ->
  forall (quota : Q -> Z -> Q) (accept_equal : bool) (pol : policy) (votes : list (C * Q)) (n : Z) (prev caps : list (C * Z)),
  qd_evaluate quota accept_equal pol (renl f votes) n (renl f prev) (renl f caps)
  = ren_qd f (qd_evaluate quota accept_equal pol votes n prev caps).
Proof. intros f Hf quota ae pol votes n prev caps. exact (qd_evaluate_ren f Hf quota ae pol votes n prev caps). Qed.

Theorem C10_rename_largest_remainder : forall f, injective f ->
  forall (quota : Q -> Z -> Q) (accept_equal : bool) (pol : policy) (votes : list (C * Q)) (n : Z) (prev caps : list (C * Z)),
  lr_evaluate quota accept_equal pol (renl f votes) n (renl f prev) (renl f caps)
  = ren_lr f (lr_evaluate quota accept_equal pol votes n prev caps).
Proof. intros f Hf quota ae pol votes n prev caps. exact (lr_evaluate_ren f Hf quota ae pol votes n prev caps). Qed.

Theorem C10_rename_quota_selector : forall f, injective f ->
  forall (quota : Q -> Z -> Q) (accept_equal select : bool) (votes : list (C * Q)) (n : Z),
  qsel_evaluate quota accept_equal select (renl f votes) n = ren_qs f (qsel_evaluate quota accept_equal select votes n).
Proof. intros f Hf quota ae sel votes n. exact (qsel_evaluate_ren f quota ae sel votes n). Qed.

(* the seats of a candidate read off a result dictionary *)
Theorem C10_rename_seats : forall f, injective f -> forall d c, kdget (renkd f d) (f c) = kdget d c.
Proof. intros f Hf d c. exact (kdget_ren f Hf d c). Qed.

(* ---- the transferable-vote count (priority 3): the whole trace - every count's totals and elected, the seats, the stop *)
Theorem C10_rename_stv : forall f, injective f ->
  forall (cf : cfg) (votes : list (ballot * Q)) (n : Z) (prev caps : list (C * Z)),
  stv cf (renv f votes) n (renl f prev) (renl f caps) = ren_trace f (stv cf votes n prev caps).
Proof. intros f Hf cf votes n prev caps. exact (stv_ren f Hf cf votes n prev caps). Qed.

(* ---- the approval / score family (priority 4) *)
Theorem C10_rename_spav : forall f, injective f -> forall votes n,
  spav (renap f votes) n = option_map (map f) (spav votes n).
Proof. intros f Hf votes n. exact (spav_ren f Hf votes n). Qed.

Theorem C10_rename_score_to_simple : forall f, injective f -> forall cf votes,
  score_to_simple cf (rens f votes) = ren_inl f (score_to_simple cf votes).
Proof. intros f Hf cf votes. exact (score_to_simple_ren f Hf cf votes). Qed.

Theorem C10_rename_score_voting : forall f, injective f -> forall cf votes n,
  score_voting cf (rens f votes) n = ren_rs f (score_voting cf votes n).
Proof. intros f Hf cf votes n. exact (score_voting_ren f Hf cf votes n). Qed.

Theorem C10_rename_majority_judgment : forall f, injective f -> forall plus cf votes n,
  majority_judgment plus cf (rens f votes) n = ren_rs f (majority_judgment plus cf votes n).
Proof. intros f Hf plus cf votes n. exact (majority_judgment_ren f Hf plus cf votes n). Qed.

(* PAV with an explicit iteration order of the candidate set ([pav] = [pav_on] over the sorted list) *)
Theorem C10_pav_on_canon : forall votes n, pav votes n = pav_on votes (canon_set (flat_map fst votes)) n.
Proof. exact pav_on_canon. Qed.

Theorem C10_rename_pav_on : forall f, injective f -> forall votes cands n,
  pav_on (renap f votes) (map f cands) n = ren_ares f (pav_on votes cands n).
Proof. intros f Hf votes cands n. exact (pav_on_ren f Hf votes cands n). Qed.

(* any two iteration orders of the candidate frozenset (every hash seed): both refuse (tied alternatives), or the two results
   are all plain winners, position by position of the same shape, with the same elected candidates *)
Theorem C10_pav_iteration_order : forall votes cands cands' n, Permutation cands cands' ->
  ares_equiv (pav_on votes cands n) (pav_on votes cands' n).
Proof. exact pav_on_perm. Qed.

Theorem C10_rename_pav : forall f, injective f -> forall votes n,
  ares_equiv (ren_ares f (pav votes n)) (pav (renap f votes) n).
Proof. intros f Hf votes n. exact (pav_rename f Hf votes n). Qed.

(* ---- ballot order for the approval rules (Proofs/ApprovalOrder_proofs.v): ProportionalApproval and
   SequentialProportionalApproval return the SAME answer - winners in the same order, the same refusal (tied alternatives /
   tie in a round) - whatever the insertion order of the approval profile; no hypothesis (weights of any sign, repeated
   ballots, repeated candidates inside a ballot) *)
Theorem C10_pav_order : forall votes votes' n, Permutation votes votes' -> pav votes' n = pav votes n.
Proof. exact ApprovalOrder_proofs.pav_order. Qed.

Theorem C10_spav_order : forall votes votes' n, Permutation votes votes' -> spav votes' n = spav votes n.
Proof. exact ApprovalOrder_proofs.spav_order. Qed.

Example C10_approval_order_example :
  let v := [([1; 2]%positive, 3#1); ([2; 3]%positive, 2#1); ([3]%positive, 2#1); ([1; 4]%positive, 1#2)]%Q in
  pav v 2 = AR_ok [Cand 2; Cand 3]%positive /\ pav (rev v) 2 = AR_ok [Cand 2; Cand 3]%positive /\
  spav v 3 = Some [2; 3; 1]%positive /\ spav (rev v) 3 = Some [2; 3; 1]%positive /\
  spav_round v [] = [(1%positive, 7#2); (2%positive, 5#1); (3%positive, 4#1); (4%positive, 1#2)]%Q /\
  map fst (spav_round (rev v) []) = [1; 4; 3; 2]%positive.
Proof. vm_compute. repeat split; reflexivity. Qed.

(* ---- ballot order for the score family (Proofs/ScoreOrder_proofs.v): the aggregated scores of ScoreToSimpleVotes - every
   configuration: sum / mean / lower median, the unscored-value rules, truncation, the minimum score count - end in the same
   error, or are the same dictionary in another insertion order with == scores ([orelD Qeq]: distinct keys on both sides, every
   candidate present in both or in neither, == values); hence ScoreVoting returns the same error or [res_equiv] selections *)
From VL Require Import Proofs.ScoreOrder_proofs Proofs.MJOrder_proofs.
Close Scope Q_scope.
Close Scope Z_scope.
Open Scope nat_scope.

Theorem C10_score_to_simple_order : forall cf votes votes', Permutation votes votes' ->
  orel (orelD Qeq) (score_to_simple cf votes) (score_to_simple cf votes').
Proof. exact score_to_simple_order. Qed.

Theorem C10_score_voting_order : forall cf votes votes' n, Permutation votes votes' ->
  orel res_equiv (score_voting cf votes n) (score_voting cf votes' n).
Proof. exact score_voting_order. Qed.

(* MajorityJudgment, both tie-breakers (Proofs/MJOrder_proofs.v): the same error, or [res_equiv] selections *)
Theorem C10_majority_judgment_order : forall plus cf votes votes' n, Permutation votes votes' ->
  orel res_equiv (majority_judgment plus cf votes n) (majority_judgment plus cf votes' n).
Proof. exact MJOrder_proofs.majority_judgment_order. Qed.

Example C10_majority_judgment_order_example :
  let cf := Build_score_cfg FMedianLow UNone 0%Z 0%Q 0%Q in
  let v := [([(1%positive, 3#1); (2%positive, 2#1); (3%positive, 2#1)], 2%Z); ([(1%positive, 2#1); (2%positive, 3#1); (3%positive, 2#1)], 1%Z);
            ([(1%positive, 2#1); (2%positive, 2#1); (3%positive, 1#1)], 2%Z)]%Q in
  score_to_simple cf v = inl [(1%positive, 2#1); (2%positive, 2#1); (3%positive, 2#1)]%Q /\
  majority_judgment true cf v 1 = inl [TieR [1; 2]]%positive /\ majority_judgment true cf (rev v) 1 = inl [TieR [1; 2]]%positive /\
  majority_judgment false cf v 2 = inl [Cand 1; Cand 2]%positive /\ majority_judgment false cf (rev v) 2 = inl [Cand 1; Cand 2]%positive.
Proof. vm_compute. repeat split; reflexivity. Qed.

(* read off: every candidate has == aggregated scores in the two runs *)
Theorem C10_score_to_simple_order_values : forall cf votes votes' agg agg', Permutation votes votes' ->
  score_to_simple cf votes = inl agg -> score_to_simple cf votes' = inl agg' ->
  NoDup (map fst agg) /\ NoDup (map fst agg') /\
  forall c, match dget agg c, dget agg' c with Some x, Some y => (x == y)%Q | None, None => True | _, _ => False end.
Proof.
  intros cf votes votes' agg agg' H E E'. pose proof (score_to_simple_order cf votes votes' H) as R. rewrite E, E' in R. exact R.
Qed.

(* non-vacuity: the two orders give dictionaries in different orders whose values are == but not equal (2#4 vs 1#2: the
   representative of a score is the first one inserted), and ties whose members are listed in different orders *)
Example C10_score_order_example :
  let cf := Build_score_cfg FMedianLow UNone 0%Z 0%Q 0%Q in
  let v := [([(1%positive, 3#1); (3%positive, 2#4)], 1%Z); ([(1%positive, 1#2); (3%positive, 1#2)], 1%Z); ([(2%positive, 1#2)], 2%Z)]%Q in
  score_to_simple cf v = inl [(1%positive, 1#2); (3%positive, 2#4); (2%positive, 1#2)]%Q /\
  score_to_simple cf (rev v) = inl [(2%positive, 1#2); (1%positive, 1#2); (3%positive, 1#2)]%Q /\
  score_voting cf v 1 = inl [TieR [1; 3; 2]]%positive /\ score_voting cf (rev v) 1 = inl [TieR [2; 1; 3]]%positive.
Proof. vm_compute. repeat split; reflexivity. Qed.

(* ================================================================ symmetric candidates (the closing sentence of the property)
   A symmetry of an input: an involution t of the candidates (t (t c) = c, e.g. a transposition) such that the renamed input is
   the same dictionary in another insertion order.  Composing order independence with renaming equivariance
   (Proofs/Symmetric_proofs.v): a and t a are elected alike and tied alike / hold the same seats. *)
From VL Require Import Proofs.Symmetric_proofs.
Close Scope Q_scope.
Close Scope Z_scope.
Open Scope nat_scope.

Theorem C10_symmetric_copeland : forall t, (forall c, t (t c) = c) -> forall v second_order n,
  NoDup (map fst v) -> Permutation v (renp t v) -> forall a,
  (In (Cand a) (copeland second_order v n) <-> In (Cand (t a)) (copeland second_order v n)) /\
  ((exists T, In (TieR T) (copeland second_order v n) /\ In a T) <-> (exists T, In (TieR T) (copeland second_order v n) /\ In (t a) T)).
Proof. intros t Ht v so n Hn Hp. exact (copeland_symmetric t Ht v so n (conj Hn Hp)). Qed.

Theorem C10_symmetric_minimax : forall t, (forall c, t (t c) = c) -> forall v s n,
  NoDup (map fst v) -> Permutation v (renp t v) -> forall a,
  (In (Cand a) (minimax s v n) <-> In (Cand (t a)) (minimax s v n)) /\
  ((exists T, In (TieR T) (minimax s v n) /\ In a T) <-> (exists T, In (TieR T) (minimax s v n) /\ In (t a) T)).
Proof. intros t Ht v s n Hn Hp. exact (minimax_symmetric t Ht v s n (conj Hn Hp)). Qed.

Theorem C10_symmetric_schulze : forall t, (forall c, t (t c) = c) -> forall v order n,
  NoDup (map fst v) -> Permutation v (renp t v) -> (forall p k, In (p, k) v -> (0 <= k)%Z) -> incl (candidates v) order -> forall a,
  (In (Cand a) (schulze v order n) <-> In (Cand (t a)) (schulze v order n)) /\
  ((exists T, In (TieR T) (schulze v order n) /\ In a T) <-> (exists T, In (TieR T) (schulze v order n) /\ In (t a) T)).
Proof. intros t Ht v o n Hn Hp Hnn Hi. exact (schulze_symmetric t Ht v o n (conj Hn Hp) Hnn Hi). Qed.

(* a candidate with a symmetric twin is never THE Condorcet winner; the Kemeny answer and the Smith set are invariant *)
Theorem C10_symmetric_condorcet_winner : forall t, (forall c, t (t c) = c) -> forall v,
  NoDup (map fst v) -> Permutation v (renp t v) -> forall c, In c (condorcet_winner v) -> t c = c.
Proof. intros t Ht v Hn Hp. exact (condorcet_winner_symmetric t Ht v (conj Hn Hp)). Qed.

Theorem C10_symmetric_kemeny : forall t, (forall c, t (t c) = c) -> forall v n,
  NoDup (map fst v) -> Permutation v (renp t v) -> ren_cres t (kemeny v n) = kemeny v n.
Proof. intros t Ht v n Hn Hp. exact (kemeny_symmetric t Ht v n (conj Hn Hp)). Qed.

Theorem C10_symmetric_smith : forall t, (forall c, t (t c) = c) -> forall v,
  NoDup (map fst v) -> Permutation v (renp t v) -> (forall p k, In (p, k) v -> (0 <= k)%Z) -> forall a,
  In a (smith_schwartz v true) <-> In (t a) (smith_schwartz v true).
Proof. intros t Ht v Hn Hp Hnn. exact (smith_symmetric t Ht v (conj Hn Hp) Hnn). Qed.
Theorem C10_symmetric_schwartz : forall t, (forall c, t (t c) = c) -> forall v,
  NoDup (map fst v) -> Permutation v (renp t v) -> (forall p k, In (p, k) v -> (0 <= k)%Z) -> forall a,
  In a (schwartz_set v) <-> In (t a) (schwartz_set v).
Proof. exact SchwartzInv_proofs.schwartz_symmetric. Qed.

(* seats: QuotaDistributor / LargestRemainder (caps with symmetric lookups), the STV count and highest averages (caps and,
   for highest averages, previous gains listed symmetrically, e.g. absent) *)
Theorem C10_symmetric_quota_distributor : forall t, (forall c, t (t c) = c) -> forall quota accept_equal pol votes n prev caps s,
  quota_ext quota -> NoDup (map fst votes) -> Permutation votes (renl t votes) -> NoDup (map fst prev) -> Permutation prev (renl t prev) ->
  (forall c, dget caps (t c) = dget caps c) ->
  qd_evaluate quota accept_equal pol votes n prev caps = QD_ok s -> forall a, kdget s (t a) = kdget s a.
Proof. intros t Ht. exact (quota_distributor_symmetric t Ht). Qed.

Theorem C10_symmetric_largest_remainder : forall t, (forall c, t (t c) = c) -> forall quota accept_equal pol votes n prev caps s,
  quota_ext quota -> NoDup (map fst votes) -> Permutation votes (renl t votes) -> NoDup (map fst prev) -> Permutation prev (renl t prev) ->
  (forall c, dget caps (t c) = dget caps c) ->
  lr_evaluate quota accept_equal pol votes n prev caps = LR_ok s -> forall a, kdget s (t a) = kdget s a.
Proof. intros t Ht. exact (largest_remainder_symmetric t Ht). Qed.

Theorem C10_symmetric_stv : forall t, (forall c, t (t c) = c) -> forall cf votes n prev caps,
  ballots_distinct votes -> Permutation votes (renv t votes) -> NoDup (map fst prev) -> Permutation prev (renl t prev) -> renl t caps = caps ->
  forall a, dget (t_seats (stv cf votes n prev caps)) (t a) = dget (t_seats (stv cf votes n prev caps)) a.
Proof. intros t Ht. exact (stv_symmetric t Ht). Qed.

Theorem C10_symmetric_highest_averages : forall t, (forall c, t (t c) = c) -> forall (d : Z -> Q) votes n prev caps,
  divisor_ok d -> (forall c v, In (c, v) votes -> (0 <= v)%Q) -> NoDup (map fst votes) -> (forall c, (0 <= dget_or prev c 0)%Z) ->
  Permutation votes (renl t votes) -> renl t prev = prev -> renl t caps = caps ->
  forall a, dget_or (st_totals (final_state d votes n prev caps)) (t a) 0%Z = dget_or (st_totals (final_state d votes n prev caps)) a 0%Z.
Proof. intros t Ht. exact (highest_averages_symmetric t Ht). Qed.

(* non-vacuity: the transposition (1 2); a pairwise dictionary in which 1 and 2 are symmetric (they tie each other, both beat 3) *)
Definition swap12 (c : C) : C := if (c =? 1)%positive then 2%positive else if (c =? 2)%positive then 1%positive else c.
Lemma swap12_involutive : forall c, swap12 (swap12 c) = c.
Proof.
  intros c. unfold swap12. destruct (c =? 1)%positive eqn:E1; [apply Pos.eqb_eq in E1; subst; reflexivity|].
  destruct (c =? 2)%positive eqn:E2; [apply Pos.eqb_eq in E2; subst; reflexivity|]. rewrite E1, E2. reflexivity.
Qed.
Example C10_symmetric_example :
  let v := mk_pv [(1,2,2);(2,1,2);(1,3,3);(3,1,1);(2,3,3);(3,2,1)]%Z in
  NoDup (map fst v) /\ Permutation v (renp swap12 v) /\ renp swap12 v <> v /\
  copeland false v 1 = [TieR [1; 2]]%positive /\ schulze v [1; 2; 3]%positive 2 = [Cand 1; Cand 2]%positive /\
  Permutation [(1%positive, 5#1); (2%positive, 5#1); (3%positive, 2#1)]%Q (renl swap12 [(1%positive, 5#1); (2%positive, 5#1); (3%positive, 2#1)]%Q) /\
  lr_evaluate (quota_fn (QNamed 1)) true PSubtract [(1%positive, 5#1); (2%positive, 5#1); (3%positive, 2#1)]%Q 3 [] []
    = LR_ok [(K 1%positive, 1%Z); (K 2%positive, 1%Z); (K 3%positive, 1%Z)].
Proof.
  cbv zeta. split; [apply nodup_keys_b_sound; vm_compute; reflexivity|].
  split; [apply list_perm_b_sound; vm_compute; reflexivity|]. split; [vm_compute; discriminate|].
  split; [vm_compute; reflexivity|]. split; [vm_compute; reflexivity|]. split; [vm_compute; apply perm_swap|vm_compute; reflexivity].
Qed.

(* "f : C -> C injective" is no restriction with respect to "injective on the candidates present": a function injective on a
   finite set S agrees on S with a globally injective one (and renaming an input only applies f to the candidates present) *)
Theorem C10_rename_injective_extension : forall (f : C -> C) (S : list C),
  (forall a b, In a S -> In b S -> f a = f b -> a = b) -> exists g, injective g /\ forall c, In c S -> g c = f c.
Proof.
  intros f S H. exists (extend f S). split; [intros a b; exact (extend_injective f S H a b)|exact (extend_agrees f S)].
Qed.

(* ---- non-vacuity: a renaming that REVERSES the order of the names 1..10 *)
Definition rev10 (c : C) : C := if (c <=? 10)%positive then (11 - c)%positive else c.
Lemma rev10_injective : injective rev10.
Proof.
  intros a b. unfold rev10. destruct (a <=? 10)%positive eqn:Ea, (b <=? 10)%positive eqn:Eb;
    try apply Pos.leb_le in Ea; try apply Pos.leb_le in Eb; try apply Pos.leb_gt in Ea; try apply Pos.leb_gt in Eb; intros H; lia.
Qed.

(* ... exact equality is lost for [pav] itself: two winners with equal satisfaction drop come out in the order of the NAMES
   (the canonical iteration order), so the renamed run lists them the other way round - equivalent, not equal *)
Theorem C10_rename_pav_exact_refuted : exists f votes n, injective f /\ pav (renap f votes) n <> ren_ares f (pav votes n).
Proof.
  exists rev10, [([1; 2]%positive, 1%Q)], 2. split; [exact rev10_injective|]. vm_compute. discriminate.
Qed.

Example C10_rename_example :
  let v := mk_pv [(1,2,3);(2,1,1);(2,3,3);(3,2,1);(3,1,3);(1,3,1);(1,4,4);(4,1,0);(2,4,4);(4,2,0);(3,4,2);(4,3,2)]%Z in
  minimax Margins (renp rev10 v) 1 = [TieR [9; 8; 10]]%positive /\ minimax Margins v 1 = [TieR [2; 3; 1]]%positive /\
  schulze (renp rev10 v) (map rev10 [1; 2; 3; 4]%positive) 1 = [TieR [10; 9; 8]]%positive /\
  ranked_pairs WinningVotes (renp rev10 v) 2 = CR_ok [Cand 10; Cand 9]%positive /\
  qd_evaluate (quota_fn (QNamed 7)) true PSubtract (renl rev10 [(1%positive, 30#1); (2%positive, 30#1); (3%positive, 7#1)]%Q) 3 [] []
    = QD_ok [(K 10%positive, 1%Z); (K 9%positive, 1%Z); (KT [10%positive; 9%positive], 1%Z)] /\
  t_seats (stv C10_stv_cf (renv rev10 C10_stv_votes) 2 [] (renl rev10 [(1%positive, 1%Z); (2%positive, 1%Z); (3%positive, 1%Z); (4%positive, 1%Z)]))
    = [(10%positive, 1%Z); (9%positive, 1%Z)] /\
  pav [([1; 2]%positive, 1%Q)] 2 = AR_ok [Cand 1; Cand 2]%positive /\
  pav (renap rev10 [([1; 2]%positive, 1%Q)]) 2 = AR_ok [Cand 9; Cand 10]%positive.
Proof. vm_compute. repeat split; reflexivity. Qed.

(* ---- wave 6: allocated score after fixes/C12-allocated-score-exhausted (Model/AllocScore.v, the _x definitions).
   The known class C10-allocated-score used to be "a crash under one presentation, an answer under another": the repaired
   loop has NO error outcome, under any iteration order of the tied sets (the only place where names / hash seed / ballot
   order reach the count) - so that class is empty. *)
From VL Require Model.AllocScore Proofs.AllocScore_proofs Proofs.AllocRepair_proofs.
Theorem C10_allocated_score_crash_free : forall ra qs orders orders' (votes : AllocScore.wprofile) n,
  AllocScore.ra_exhausted ra = true -> AllocScore_proofs.wpos votes ->
  (0 < AllocScore.ac_quota (AllocScore.alloc_cfg qs orders votes n [] (map (fun c => (c, 1%Z)) (AllocScore.all_scored votes))))%Q ->
  (AllocScore.quota_divides_by_seats qs && Nat.eqb n 0)%bool = false ->
  (exists r, AllocScore.alloc_select_x ra qs orders votes n = inl r) /\
  (exists r', AllocScore.alloc_select_x ra qs orders' votes n = inl r').
Proof.
  intros ra qs orders orders' votes n Hra Hp Hq Hz. split.
  - exact (AllocRepair_proofs.alloc_select_x_answers ra Hra qs orders votes n Hp Hq Hz).
  - exact (AllocRepair_proofs.alloc_select_x_answers ra Hra qs orders' votes n Hp Hq Hz).
Qed.

(* what stays open (known finding C10-allocated-score, narrowed): a round that seats several level leaders spends their
   quotas one after the other in the iteration order of the tie, so the LATER rounds can depend on it.
   {C:1} x 2, {A:0,B:1,D:1} x 2, {A:0,B:2,C:2} x 1, three seats, Droop: B and C share the lead; the two orders of seating
   them end with D plainly elected, or with the tie {A, D}.  The choice between level leaders needs a tie-breaking policy
   (maintainers' decision, as for C12-allocated-score-tie-second). *)
Theorem C10_allocated_score_tie_order_refuted : exists (votes : AllocScore.wprofile) r r',
  AllocScore.alloc_select_x AllocScore.arepaired (Quota.QNamed 3) [[2; 3]%positive] votes 3 = inl r /\
  AllocScore.alloc_select_x AllocScore.arepaired (Quota.QNamed 3) [[3; 2]%positive] votes 3 = inl r' /\
  In (Cand 4%positive) r /\ ~ In (Cand 4%positive) r'.
Proof.
  pose (b := fun (l : list (positive * Z)) => map (fun cs : positive * Z => (fst cs, inject_Z (snd cs))) l).
  exists [(b [(3%positive, 1%Z)], 2%Q); (b [(1%positive, 0%Z); (2%positive, 1%Z); (4%positive, 1%Z)], 2%Q);
          (b [(1%positive, 0%Z); (2%positive, 2%Z); (3%positive, 2%Z)], 1%Q)].
  eexists. eexists. split; [vm_compute; reflexivity|]. split; [vm_compute; reflexivity|]. split.
  - cbn. tauto.
  - cbn. intros [H|[H|[H|[]]]]; discriminate H.
Qed.

Print Assumptions C10_count_characterisation.
Print Assumptions C10_order.
Print Assumptions C10_symmetric.
Print Assumptions C10_rename.
Print Assumptions C10_ballot_order.
Print Assumptions C10_highest_averages_order.
Print Assumptions C10_highest_averages_rename.
Print Assumptions C10_condorcet_tied_members.
Print Assumptions C10_condorcet_unique_position.
Print Assumptions C10_condorcet_pget_order.
Print Assumptions C10_condorcet_pairwise_wins_order.
Print Assumptions C10_condorcet_winner_order.
Print Assumptions C10_condorcet_copeland_order.
Print Assumptions C10_condorcet_copeland_positions.
Print Assumptions C10_condorcet_minimax_order.
Print Assumptions C10_condorcet_schulze_order.
Print Assumptions C10_condorcet_schulze_iteration_order.
Print Assumptions C10_condorcet_kemeny_order.
Print Assumptions C10_condorcet_smith_order.
Print Assumptions C10_condorcet_schwartz_order_refuted.
Print Assumptions C10_schwartz_order.
Print Assumptions C10_condorcet_ranked_pairs_order.
Print Assumptions C10_condorcet_ranked_pairs_order_refuted.
Print Assumptions C10_quota_distributor_order.
Print Assumptions C10_largest_remainder_order.
Print Assumptions C10_quota_fn_ext.
Print Assumptions C10_stv_order.
Print Assumptions C10_rename_condorcet_blocks.
Print Assumptions C10_rename_condorcet_winner.
Print Assumptions C10_rename_copeland.
Print Assumptions C10_rename_minimax.
Print Assumptions C10_rename_schulze.
Print Assumptions C10_rename_ranked_pairs.
Print Assumptions C10_rename_kemeny.
Print Assumptions C10_rename_smith_schwartz.
Print Assumptions C10_rename_schwartz_set.
Print Assumptions C10_rename_quota_distributor.
Print Assumptions C10_rename_largest_remainder.
Print Assumptions C10_rename_quota_selector.
Print Assumptions C10_rename_seats.
Print Assumptions C10_rename_stv.
Print Assumptions C10_rename_spav.
Print Assumptions C10_rename_score_to_simple.
Print Assumptions C10_rename_score_voting.
Print Assumptions C10_rename_majority_judgment.
Print Assumptions C10_pav_on_canon.
Print Assumptions C10_rename_pav_on.
Print Assumptions C10_pav_iteration_order.
Print Assumptions C10_rename_pav.
Print Assumptions C10_rename_pav_exact_refuted.
Print Assumptions C10_rename_injective_extension.
Print Assumptions C10_pav_order.
Print Assumptions C10_spav_order.
Print Assumptions C10_symmetric_copeland.
Print Assumptions C10_symmetric_minimax.
Print Assumptions C10_symmetric_schulze.
Print Assumptions C10_symmetric_condorcet_winner.
Print Assumptions C10_symmetric_kemeny.
Print Assumptions C10_symmetric_smith.
Print Assumptions C10_symmetric_schwartz.
Print Assumptions C10_symmetric_quota_distributor.
Print Assumptions C10_symmetric_largest_remainder.
Print Assumptions C10_symmetric_stv.
Print Assumptions C10_symmetric_highest_averages.
Print Assumptions C10_score_to_simple_order.
Print Assumptions C10_score_voting_order.
Print Assumptions C10_score_to_simple_order_values.
Print Assumptions C10_majority_judgment_order.
Print Assumptions C10_allocated_score_crash_free.
Print Assumptions C10_allocated_score_tie_order_refuted.
