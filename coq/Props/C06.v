(* C06 - Condorcet winner, Smith set and Schwartz set.
   Property theorems only.  Model: Model/Condorcet.v; proofs: Proofs/Condorcet_proofs.v, Smith_proofs.v,
   Schwartz_proofs.v, SchwartzInv_proofs.v.
   Pairwise dictionaries are association lists with distinct keys and non-negative
   counts; an absent pair counts as 0 (pget0).  beats a b := cnt(b,a) < cnt(a,b). *)
From Coq Require Import ZArith List Arith Sorted Lia Permutation.
From VL Require Import Prelude.PyDict Model.GetNBest Model.Condorcet Proofs.Condorcet_proofs Proofs.Smith_proofs
  Proofs.Schwartz_proofs Proofs.SchwartzInv_proofs.
Import ListNotations.
Open Scope Z_scope.

(* CondorcetWinner.evaluate returns [c] exactly for the candidate that strictly beats
   every other candidate (at most one exists), and nothing otherwise - also on sparse
   dictionaries with missing reverse pairs. *)
Theorem C06_cw_spec : forall v : pvotes,
  NoDup (map fst v) -> (forall p n, In (p, n) v -> 0 <= n) -> (2 <= length (candidates v))%nat ->
  (forall c, condorcet_winner v = [c] <-> is_cw v c) /\
  (condorcet_winner v = [] \/ exists c, condorcet_winner v = [c]).
Proof. exact cw_spec. Qed.

Theorem C06_cw_unique : forall (v : pvotes) c c', is_cw v c -> is_cw v c' -> c = c'.
Proof. exact is_cw_unique. Qed.

(* the Smith routine (_smith_schwartz_set; SmithSet runs it with ties = true): the result is a non-empty prefix of the
   Copeland order, and the single pass over the wins (sorted by the loser's rank) is complete: the prefix is closed
   under "beats or ties a member" (ties = true) resp. "beats a member" (ties = false, no longer run by SchwartzSet). *)
Theorem C06_smith_prefix_closed : forall v ties,
  let cv := complete v in
  let wins := pairwise_wins cv ties in
  let order := map fst (sort_desc zle_bool (copeland_scores wins)) in
  let ws := map fst (@sort_asc pair nat Nat.leb (map (fun p => (p, index_of (snd p) order)) wins)) in
  let E := ss_loop order ws 1 in
  smith_schwartz v ties = firstn E order /\
  (1 <= E)%nat /\
  (E = length order \/
   forall w l, In (w, l) wins -> (index_of l order < E)%nat -> (index_of w order < E)%nat).
Proof. exact smith_schwartz_closed. Qed.

(* SmithSet computes exactly the Smith set: its output is a dominating set (non-empty, every member strictly beats
   every candidate outside it - an absent pair counting as 0 : 0), and it is contained in every dominating set, hence
   the smallest one.  For every pairwise dictionary with at least two candidates, sparse or dense. *)
Definition dominating (v : pvotes) (S : list C) : Prop :=
  S <> [] /\ forall a b, In a S -> In b (candidates v) -> ~ In b S -> beats v a b.
Theorem C06_smith_set : forall v : pvotes,
  NoDup (map fst v) -> (forall p n, In (p, n) v -> 0 <= n) -> (2 <= length (candidates v))%nat ->
  dominating v (smith_schwartz v true) /\
  forall S, dominating v S -> incl (smith_schwartz v true) S.
Proof.
  intros v Hnd Hnn H2. split.
  - exact (smith_dominating v H2).
  - intros S [Hne Hdom]. exact (smith_minimal v Hnn H2 S Hne Hdom).
Qed.

(* ---- the Schwartz clause.  SchwartzSet (after the repair fixes/C06-schwartz-set) is Model/Condorcet.v schwartz_set: the
   candidates that have a beat path (a chain of strict pairwise defeats; an absent pair counts as 0 : 0, a tied pair is no
   defeat) back to every candidate with a beat path to them.  Proofs/Schwartz_proofs.v:
     beatpath v a b    : a chain of strict defeats leads from a to b;
     unbeaten_set v S  : S is a non-empty list of candidates of v and no candidate outside S beats a member of S.
   The full statement: the returned set is EXACTLY the union of the minimal unbeaten sets; it is non-empty; it lies inside
   the Smith set; it is {w} when w is the Condorcet winner; its members do not depend on the order of the dictionary. *)
Definition C06_schwartz_full_statement : Prop :=
  forall v, NoDup (map fst v) -> (forall p n, In (p, n) v -> 0 <= n) -> (2 <= length (candidates v))%nat ->
    (forall c, In c (schwartz_set v) <->
       exists S, unbeaten_set v S /\ In c S /\ (forall T, unbeaten_set v T -> incl T S -> incl S T)) /\
    schwartz_set v <> [] /\
    incl (schwartz_set v) (smith_schwartz v true) /\
    (forall w, is_cw v w -> schwartz_set v = [w]) /\
    (forall v', Permutation v v' -> Permutation (schwartz_set v) (schwartz_set v')).

Theorem C06_schwartz : C06_schwartz_full_statement.
Proof.
  intros v Hnd Hnn H2. split; [|split; [|split; [|split]]].
  - exact (schwartz_spec v Hnn H2).
  - exact (schwartz_nonempty v Hnn H2).
  - intros c. exact (schwartz_in_smith v Hnn H2 c).
  - exact (schwartz_cw v Hnn H2).
  - intros v' Hp. exact (schwartz_perm v v' Hnd Hnn Hp).
Qed.

(* the same set, said with beat paths: c is returned iff every candidate with a beat path to c is reached by a beat path
   from c (c is maximal for the transitive closure of the strict-beat relation) *)
Theorem C06_schwartz_beatpath : forall v : pvotes,
  (forall p n, In (p, n) v -> 0 <= n) -> (2 <= length (candidates v))%nat ->
  forall c, In c (schwartz_set v) <-> In c (candidates v) /\ forall o, beatpath v o c -> beatpath v c o.
Proof. exact schwartz_in. Qed.

(* every candidate is in the Schwartz set or is reached by a beat path from a member *)
Theorem C06_schwartz_above : forall v : pvotes,
  (forall p n, In (p, n) v -> 0 <= n) -> (2 <= length (candidates v))%nat ->
  forall c, In c (candidates v) -> exists m, In m (schwartz_set v) /\ (m = c \/ beatpath v m c).
Proof. exact schwartz_above. Qed.

(* shape, for every dictionary: no candidate twice, candidates of the dictionary only *)
Theorem C06_schwartz_shape : forall v : pvotes, NoDup (schwartz_set v) /\ incl (schwartz_set v) (candidates v).
Proof. exact schwartz_set_shape. Qed.

(* the routine the pinned tree ran for SchwartzSet - the Smith routine with ties = false, a prefix of the Copeland order
   closed under strict defeats - is NOT the Schwartz set (fixed finding C06-schwartz): on a tied pair {(1,2):1,(2,1):1}
   both candidates are unbeaten and the prefix routine returns nothing.  Kept as the machine-checked reason for the repair;
   the check raises a VIOLATION when SchwartzSet behaves like this again. *)
Theorem C06_schwartz_prefix_routine_differs : exists v c,
  NoDup (map fst v) /\ (forall p n, In (p, n) v -> 0 <= n) /\ (2 <= length (candidates v))%nat /\
  In c (schwartz_set v) /\ ~ In c (smith_schwartz v false).
Proof.
  exists [((1%positive, 2%positive), 1); ((2%positive, 1%positive), 1)], 1%positive.
  split; [|split; [|split; [|split]]].
  - simpl. constructor; [intros [H1|[]]; discriminate|]. constructor; [intros []|constructor].
  - intros p n [H1|[H1|[]]]; injection H1 as <- <-; lia.
  - vm_compute. lia.
  - vm_compute. left. reflexivity.
  - vm_compute. intros [].
Qed.

(* non-vacuity: a tied pair - both; two tied unbeaten candidates above a third - both, whatever the order of the pairs;
   a cycle 1 > 2 > 3 > 1 with 4 tied against everybody - all four (4 is unbeaten, the cycle is a minimal unbeaten set) *)
Example C06_schwartz_example :
  schwartz_set [((1%positive, 2%positive), 1); ((2%positive, 1%positive), 1)] = [1%positive; 2%positive] /\
  schwartz_set [((1%positive, 2%positive), 1); ((2%positive, 1%positive), 1); ((1%positive, 3%positive), 2);
                ((3%positive, 1%positive), 0); ((2%positive, 3%positive), 2); ((3%positive, 2%positive), 0)] = [1%positive; 2%positive] /\
  schwartz_set [((2%positive, 1%positive), 1); ((1%positive, 2%positive), 1); ((2%positive, 3%positive), 2);
                ((3%positive, 2%positive), 0); ((1%positive, 3%positive), 2); ((3%positive, 1%positive), 0)] = [2%positive; 1%positive] /\
  schwartz_set [((1%positive, 2%positive), 2); ((2%positive, 1%positive), 1); ((2%positive, 3%positive), 2);
                ((3%positive, 2%positive), 1); ((3%positive, 1%positive), 2); ((1%positive, 3%positive), 1);
                ((4%positive, 1%positive), 1); ((1%positive, 4%positive), 1)] = [1%positive; 2%positive; 4%positive; 3%positive].
Proof. vm_compute. repeat split; reflexivity. Qed.

(* non-vacuity: a three-cycle, Smith set = everybody *)
Example C06_example :
  smith_schwartz [((1%positive, 2%positive), 2); ((2%positive, 1%positive), 1);
                  ((2%positive, 3%positive), 2); ((3%positive, 2%positive), 1);
                  ((3%positive, 1%positive), 2); ((1%positive, 3%positive), 1)] true
  = [1%positive; 2%positive; 3%positive].
Proof. vm_compute. reflexivity. Qed.

Print Assumptions C06_cw_spec.
Print Assumptions C06_cw_unique.
Print Assumptions C06_smith_prefix_closed.
Print Assumptions C06_smith_set.
Print Assumptions C06_schwartz.
Print Assumptions C06_schwartz_beatpath.
Print Assumptions C06_schwartz_above.
Print Assumptions C06_schwartz_shape.
Print Assumptions C06_schwartz_prefix_routine_differs.
