(* C06 - Condorcet winner, Smith set and Schwartz set.
   Property theorems only.  Model: Model/Condorcet.v; proofs: Proofs/Condorcet_proofs.v.
   Pairwise dictionaries are association lists with distinct keys and non-negative
   counts; an absent pair counts as 0 (pget0).  beats a b := cnt(b,a) < cnt(a,b). *)
From Coq Require Import ZArith List Arith Sorted Lia.
From VL Require Import Prelude.PyDict Model.GetNBest Model.Condorcet Proofs.Condorcet_proofs Proofs.Smith_proofs.
Import ListNotations.
Open Scope Z_scope.

(* CondorcetWinner.evaluate returns [c] exactly for the candidate that strictly beats
   every other candidate (at most one exists), and nothing otherwise - also on sparse
   dictionaries with missing reverse pairs. *)
Theorem C06_cw_spec : forall v : pvotes,
  NoDup (map fst v) -> (forall p n, In (p, n) v -> 0 <= n) -> (2 <= length (candidates v))%nat ->
  (forall c, condorcet_winner v = [c] <-> is_cw v c) /\
  (condorcet_winner v = [] \/ exists c, condorcet_winner v = [c]).
Proof. exact cw_spec. Qed.

Theorem C06_cw_unique : forall (v : pvotes) c c', is_cw v c -> is_cw v c' -> c = c'.
Proof. exact is_cw_unique. Qed.

(* SmithSet/SchwartzSet: the result is a non-empty prefix of the Copeland order, and the
   single pass over the wins (sorted by the loser's rank) is complete: the prefix is closed
   under "beats or ties a member" (Smith, ties=true) resp. "beats a member" (Schwartz). *)
Theorem C06_smith_prefix_closed : forall v ties,
  let cv := complete v in
  let wins := pairwise_wins cv ties in
  let order := map fst (sort_desc zle_bool (copeland_scores wins)) in
  let ws := map fst (@sort_asc pair nat Nat.leb (map (fun p => (p, index_of (snd p) order)) wins)) in
  let E := ss_loop order ws 1 in
  smith_schwartz v ties = firstn E order /\
  (1 <= E)%nat /\
  (E = length order \/
   forall w l, In (w, l) wins -> (index_of l order < E)%nat -> (index_of w order < E)%nat).
Proof. exact smith_schwartz_closed. Qed.

(* SmithSet computes exactly the Smith set: its output is a dominating set (non-empty, every member strictly beats
   every candidate outside it - an absent pair counting as 0 : 0), and it is contained in every dominating set, hence
   the smallest one.  For every pairwise dictionary with at least two candidates, sparse or dense. *)
Definition dominating (v : pvotes) (S : list C) : Prop :=
  S <> [] /\ forall a b, In a S -> In b (candidates v) -> ~ In b S -> beats v a b.
Theorem C06_smith_set : forall v : pvotes,
  NoDup (map fst v) -> (forall p n, In (p, n) v -> 0 <= n) -> (2 <= length (candidates v))%nat ->
  dominating v (smith_schwartz v true) /\
  forall S, dominating v S -> incl (smith_schwartz v true) S.
Proof.
  intros v Hnd Hnn H2. split.
  - exact (smith_dominating v H2).
  - intros S [Hne Hdom]. exact (smith_minimal v Hnn H2 S Hne Hdom).
Qed.

(* the Schwartz clause: full statement kept visible; refuted on the pinned tree (known finding C06-schwartz),
   decided per case by a brute-force reference in the correspondence run *)
Definition undominated (v : pvotes) (S : list C) : Prop :=
  S <> [] /\ forall a b, In a S -> In b (candidates v) -> ~ In b S -> ~ beats v b a.
Definition C06_schwartz_full_statement : Prop :=
  forall v, NoDup (map fst v) -> (forall p n, In (p, n) v -> 0 <= n) ->
    forall c, In c (smith_schwartz v false) <->
      exists S, undominated v S /\ In c S /\
                (forall T, undominated v T -> incl T S -> incl S T).

(* Schwartz: refuted on the pinned tree - a tied pair {(A,B):1,(B,A):1}: both candidates are
   unbeaten (each is a minimal undominated set) but the routine returns nothing *)
Theorem C06_schwartz_refuted : ~ C06_schwartz_full_statement.
Proof.
  intros H.
  set (v := [((1%positive, 2%positive), 1); ((2%positive, 1%positive), 1)] : pvotes).
  assert (Hnd : NoDup (map fst v)).
  { simpl. constructor; [intros [H1|[]]; discriminate|]. constructor; [intros []|constructor]. }
  assert (Hnn : forall p n, In (p, n) v -> 0 <= n).
  { intros p n [H1|[H1|[]]]; injection H1 as <- <-; lia. }
  specialize (H v Hnd Hnn 1%positive). destruct H as [_ H].
  assert (Hin : In 1%positive (smith_schwartz v false)).
  { apply H. exists [1%positive]. split; [|split].
    - split; [discriminate|]. intros a b [<-|[]] Hb Hnb. vm_compute in Hb.
      destruct Hb as [<-|[<-|[]]]; [exfalso; apply Hnb; left; reflexivity|].
      unfold beats. vm_compute. intros Hlt. discriminate Hlt.
    - left. reflexivity.
    - intros T [HT _] Hincl x [<-|[]]. destruct T as [|t T]; [congruence|].
      assert (Ht : In t [1%positive]) by (apply Hincl; left; reflexivity).
      destruct Ht as [<-|[]]. left. reflexivity. }
  vm_compute in Hin. exact Hin.
Qed.

(* non-vacuity: a three-cycle, Smith set = everybody *)
Example C06_example :
  smith_schwartz [((1%positive, 2%positive), 2); ((2%positive, 1%positive), 1);
                  ((2%positive, 3%positive), 2); ((3%positive, 2%positive), 1);
                  ((3%positive, 1%positive), 2); ((1%positive, 3%positive), 1)] true
  = [1%positive; 2%positive; 3%positive].
Proof. vm_compute. reflexivity. Qed.

Print Assumptions C06_cw_spec.
Print Assumptions C06_cw_unique.
Print Assumptions C06_smith_prefix_closed.
Print Assumptions C06_smith_set.
Print Assumptions C06_schwartz_refuted.
