(* The reading of the CPython dictionary / set primitives used by the code that tools/py2v.py (part 6) generates from the
   accumulating converters of votelib/convert.py (Gen/Convert.v).  Like Prelude/PyNum.v, PyList.v and PySeq.v this mapping is
   part of the trusted base; the Examples below pin every primitive on values computed with CPython 3.12.

   Values.  A candidate is a positive number.  A frozenset of candidates is carried as its ascending, duplicate-free member list
   (the representation of Model/Convert.v: [canon_set]) and is ITERATED in that order: the iteration order of a Python set is
   unspecified, C13 compares result dictionaries key by key, so the order in which keys are first inserted is not observed.
   frozenset(iterable) is [py_frozenset] = canon_set.  A set under construction (set() .. add / update) is the list of what was
   added, in order; it is only read through `in` and frozenset(..).  An item of a ranked ballot is [item]: a plain candidate
   (IP c) or a shared rank (IS l, a frozenset); isinstance(x, collections.abc.Set) is a match on it.
   A result dictionary maps wire keys (sx: candidate = A c, frozenset = L of its sorted members, tuple = L of its components; the
   wire encoding of the C13 correspondence streams) to exact rationals, in insertion order. *)
From Coq Require Import ZArith QArith List Bool.
From VL Require Import Prelude.Sx Prelude.PyDict Prelude.GDict Prelude.PyNum Prelude.PyList Prelude.PySeq Model.GetNBest Model.Convert.
Import ListNotations.

Definition pydict := list (sx * Q).

(* collections.defaultdict(int): d[k] += x ; a missing key starts from int() = 0 *)
Fixpoint py_dd_add (d : pydict) (k : sx) (x : Q) : pydict :=
  match d with
  | [] => [(k, (0 + x)%Q)]
  | (k', v) :: t => if sx_eqb k k' then (k', (v + x)%Q) :: t else (k', v) :: py_dd_add t k x
  end.
(* d[k] = x : an existing key keeps its place *)
Definition py_dict_set (d : pydict) (k : sx) (x : Q) : pydict := gset sx_eqb d k x.
(* d.get(k, default) *)
Fixpoint py_dict_get (d : pydict) (k : sx) (dflt : Q) : Q :=
  match d with
  | [] => dflt
  | (k', v) :: t => if sx_eqb k k' then v else py_dict_get t k dflt
  end.
(* {k: v for ..}: pairs inserted from the left; an equal key keeps its place and takes the later value *)
Definition py_dict_of (l : list (sx * Q)) : pydict := fold_left (fun d kv => py_dict_set d (fst kv) (snd kv)) l [].

Definition py_frozenset (l : list C) : list C := canon_set l.
Definition py_set_difference (a b : list C) : list C := filter (fun c => negb (cmem c b)) a.
Definition py_key_tuple2 (a b : sx) : sx := L [a; b].

Example py_dd_add_new : py_dd_add [(A 1, 2 # 1)] (A 2) (3 # 1) = [(A 1, 2 # 1); (A 2, 0 + (3 # 1))]%Q.   Proof. reflexivity. Qed.
Example py_dd_add_old : py_dd_add [(A 1, 2 # 1); (A 2, 1 # 1)] (A 1) (3 # 1) = [(A 1, (2 # 1) + (3 # 1)); (A 2, 1 # 1)]%Q.
Proof. reflexivity. Qed.
Example py_dict_of_dup : py_dict_of [(A 1, 1 # 1); (A 2, 2 # 1); (A 1, 3 # 1)]%Q = [(A 1, 3 # 1); (A 2, 2 # 1)]%Q.
Proof. reflexivity. Qed.
Example py_dict_get_hit : py_dict_get [(A 1, 1 # 1); (L [A 1; A 2], 2 # 1)]%Q (L [A 1; A 2]) 0 = (2 # 1)%Q.   Proof. reflexivity. Qed.
Example py_dict_get_miss : py_dict_get [(A 1, 1 # 1)]%Q (A 3) 0 = 0%Q.   Proof. reflexivity. Qed.
Example py_frozenset_ex : py_frozenset [3; 1; 3; 2]%positive = [1; 2; 3]%positive.   Proof. reflexivity. Qed.
Example py_set_difference_ex : py_set_difference [1; 2; 3; 4]%positive [4; 2; 2]%positive = [1; 3]%positive.   Proof. reflexivity. Qed.

(* ---- dynamically typed code (RankedToCondorcetVotes.convert): an item of a ranked ballot is used as a candidate or as a set
   depending on a flag computed elsewhere; a local holds an item or a 1-tuple of it.
   [pyv]: an item, or a tuple of items.  Iterating a frozenset item gives its members (as plain items), iterating a tuple its
   components; a plain candidate is an opaque atom: iterating it is a TypeError.
   Operations that may raise inside a loop do not leave the fold: the first exception is kept in a flag threaded through the
   state ([py_try]: the first one wins), the operation yields a filler ([py_val]) and the run continues on fillers; the function
   answers [py_result]: the value when the flag is still clear, else the exception - what CPython answers, since every translated
   operation is total and nothing but the final result is observed. *)
Inductive cvexn := CvTypeError | CvIndexError | CvUnboundLocalError.
Definition py_try {X : Type} (e : option cvexn) (op : option X) (x : cvexn) : option cvexn :=
  match e with Some _ => e | None => match op with Some _ => None | None => Some x end end.
Definition py_val {X : Type} (op : option X) (filler : X) : X := match op with Some v => v | None => filler end.
Definition py_result {X : Type} (e : option cvexn) (x : X) : X + cvexn := match e with None => inl x | Some e' => inr e' end.
Inductive pyv := VI (i : item) | VT (l : list item).
Definition py_is_set (i : item) : bool := match i with IS _ => true | IP _ => false end.
Definition py_item_iter (i : item) : option (list item) := match i with IS l => Some (map IP l) | IP _ => None end.
Definition py_iter_v (v : pyv) : option (list item) := match v with VT l => Some l | VI i => py_item_iter i end.
(* l[a:] *)
Definition py_slice_from {X : Type} (l : list X) (a : Z) : list X :=
  if (0 <=? a)%Z then skipn (Z.to_nat a) l else skipn (Z.to_nat (py_len l + a)) l.
(* s.difference(iterable) for a frozenset of candidates and a list of items: the candidates met as plain items are removed *)
Definition py_set_difference_items (a : list C) (r : list item) : list C :=
  filter (fun c => negb (existsb (fun i => match i with IP c' => ceqb c c' | IS _ => false end) r)) a.

Example py_slice_from_1 : py_slice_from [5; 6; 7]%Z 1 = [6; 7]%Z.       Proof. reflexivity. Qed.
Example py_slice_from_9 : py_slice_from [5; 6; 7]%Z 9 = [].             Proof. reflexivity. Qed.
Example py_slice_from_m1 : py_slice_from [5; 6; 7]%Z (-1) = [7]%Z.      Proof. reflexivity. Qed.
Example py_slice_from_m9 : py_slice_from [5; 6; 7]%Z (-9) = [5; 6; 7]%Z. Proof. reflexivity. Qed.
Example py_iter_set : py_iter_v (VI (IS [1; 2]%positive)) = Some [IP 1%positive; IP 2%positive].   Proof. reflexivity. Qed.
Example py_iter_tuple : py_iter_v (VT [IS [1; 2]%positive]) = Some [IS [1; 2]%positive].             Proof. reflexivity. Qed.
Example py_iter_atom : py_iter_v (VI (IP 1%positive)) = None.                                         Proof. reflexivity. Qed.
Example py_try_first : py_try (Some CvIndexError) (@None Z) CvTypeError = Some CvIndexError.          Proof. reflexivity. Qed.
Example py_diff_items : py_set_difference_items [1; 2; 3]%positive [IP 2%positive; IS [3]%positive] = [1; 3]%positive.
Proof. reflexivity. Qed.

(* ---- a frozenset whose members are items (RankedToFirstNPreferences: frozenset(ranking[:n])): carried as the list it is built from,
   only used as a dictionary key.  Its wire key: the plain members in ascending order, then the member sets (each an ascending
   list) in lexicographic order, duplicates dropped - equal frozensets get equal keys.  For plain members only this is the key of
   the frozenset of candidates. *)
Definition item_plains (l : list item) : list C := flat_map (fun i => match i with IP c => [c] | IS _ => [] end) l.
Definition item_sets (l : list item) : list (list C) := flat_map (fun i => match i with IP _ => [] | IS s => [s] end) l.
Fixpoint list_ceqb (a b : list C) : bool :=
  match a, b with
  | [], [] => true
  | x :: a', y :: b' => Pos.eqb x y && list_ceqb a' b'
  | _, _ => false
  end.
Fixpoint lex_ltb (a b : list C) : bool :=
  match a, b with
  | _, [] => false
  | [], _ :: _ => true
  | x :: a', y :: b' => Pos.ltb x y || (Pos.eqb x y && lex_ltb a' b')
  end.
Fixpoint insert_set (s : list C) (l : list (list C)) : list (list C) :=
  match l with
  | [] => [s]
  | x :: t => if list_ceqb s x then l else if lex_ltb s x then s :: l else x :: insert_set s t
  end.
Definition canon_sets (l : list (list C)) : list (list C) := fold_left (fun acc s => insert_set s acc) l [].
Definition py_key_itemset (l : list item) : sx := L (map kc (canon_set (item_plains l)) ++ map kset (canon_sets (item_sets l))).

Example py_key_itemset_plain : py_key_itemset [IP 3; IP 1; IP 3]%positive = kset [1; 3]%positive.   Proof. reflexivity. Qed.
Example py_key_itemset_mixed :
  py_key_itemset [IS [2; 3]; IP 4; IS [1; 5]; IS [2; 3]; IP 1]%positive = L [kc 1%positive; kc 4%positive; kset [1; 5]%positive; kset [2; 3]%positive].
Proof. reflexivity. Qed.
