(* The reading of the CPython dictionary / set primitives used by the code that tools/py2v.py (part 6) generates from the
   accumulating converters of votelib/convert.py (Gen/Convert.v).  Like Prelude/PyNum.v, PyList.v and PySeq.v this mapping is
   part of the trusted base; the Examples below pin every primitive on values computed with CPython 3.12.

   Values.  A candidate is a positive number.  A frozenset of candidates is carried as its ascending, duplicate-free member list
   (the representation of Model/Convert.v: [canon_set]) and is ITERATED in that order: the iteration order of a Python set is
   unspecified, C13 compares result dictionaries key by key, so the order in which keys are first inserted is not observed.
   frozenset(iterable) is [py_frozenset] = canon_set.  A set under construction (set() .. add / update) is the list of what was
   added, in order; it is only read through `in` and frozenset(..).  An item of a ranked ballot is [item]: a plain candidate
   (IP c) or a shared rank (IS l, a frozenset); isinstance(x, collections.abc.Set) is a match on it.
   A result dictionary maps wire keys (sx: candidate = A c, frozenset = L of its sorted members, tuple = L of its components; the
   wire encoding of the C13 correspondence streams) to exact rationals, in insertion order. *)
From Coq Require Import ZArith QArith List Bool.
From VL Require Import Prelude.Sx Prelude.PyDict Prelude.GDict Prelude.PyNum Prelude.PyList Model.GetNBest Model.Convert.
Import ListNotations.

Definition pydict := list (sx * Q).

(* collections.defaultdict(int): d[k] += x ; a missing key starts from int() = 0 *)
Fixpoint py_dd_add (d : pydict) (k : sx) (x : Q) : pydict :=
  match d with
  | [] => [(k, (0 + x)%Q)]
  | (k', v) :: t => if sx_eqb k k' then (k', (v + x)%Q) :: t else (k', v) :: py_dd_add t k x
  end.
(* d[k] = x : an existing key keeps its place *)
Definition py_dict_set (d : pydict) (k : sx) (x : Q) : pydict := gset sx_eqb d k x.
(* d.get(k, default) *)
Fixpoint py_dict_get (d : pydict) (k : sx) (dflt : Q) : Q :=
  match d with
  | [] => dflt
  | (k', v) :: t => if sx_eqb k k' then v else py_dict_get t k dflt
  end.
(* {k: v for ..}: pairs inserted from the left; an equal key keeps its place and takes the later value *)
Definition py_dict_of (l : list (sx * Q)) : pydict := fold_left (fun d kv => py_dict_set d (fst kv) (snd kv)) l [].

Definition py_frozenset (l : list C) : list C := canon_set l.
Definition py_set_difference (a b : list C) : list C := filter (fun c => negb (cmem c b)) a.
Definition py_key_tuple2 (a b : sx) : sx := L [a; b].

Example py_dd_add_new : py_dd_add [(A 1, 2 # 1)] (A 2) (3 # 1) = [(A 1, 2 # 1); (A 2, 0 + (3 # 1))]%Q.   Proof. reflexivity. Qed.
Example py_dd_add_old : py_dd_add [(A 1, 2 # 1); (A 2, 1 # 1)] (A 1) (3 # 1) = [(A 1, (2 # 1) + (3 # 1)); (A 2, 1 # 1)]%Q.
Proof. reflexivity. Qed.
Example py_dict_of_dup : py_dict_of [(A 1, 1 # 1); (A 2, 2 # 1); (A 1, 3 # 1)]%Q = [(A 1, 3 # 1); (A 2, 2 # 1)]%Q.
Proof. reflexivity. Qed.
Example py_dict_get_hit : py_dict_get [(A 1, 1 # 1); (L [A 1; A 2], 2 # 1)]%Q (L [A 1; A 2]) 0 = (2 # 1)%Q.   Proof. reflexivity. Qed.
Example py_dict_get_miss : py_dict_get [(A 1, 1 # 1)]%Q (A 3) 0 = 0%Q.   Proof. reflexivity. Qed.
Example py_frozenset_ex : py_frozenset [3; 1; 3; 2]%positive = [1; 2; 3]%positive.   Proof. reflexivity. Qed.
Example py_set_difference_ex : py_set_difference [1; 2; 3; 4]%positive [4; 2; 2]%positive = [1; 3]%positive.   Proof. reflexivity. Qed.
