(* The reading of CPython exact numerics used by generated code (tools/py2v.py)
   and by the hand-written models.  Part of the trusted base; differentially
   tested against CPython by tools/prelude_check.py. *)
From Coq Require Import ZArith QArith Qround Bool.
Open Scope Q_scope.

Definition py_frac (a b : Q) : Q := a / b.                 (* Fraction(a, b), b <> 0 *)
Definition py_int (x : Q) : Q := inject_Z (Z.quot (Qnum x) (Zpos (Qden x))).  (* int(): truncation *)
Definition py_floor (x : Q) : Q := inject_Z (Qfloor x).
Definition py_ceil (x : Q) : Q := inject_Z (Qceiling x).   (* math.ceil *)
(* round(): half to even *)
Definition py_round (x : Q) : Q :=
  let f := Qfloor x in
  let r := x - inject_Z f in
  match Qcompare r (1#2) with
  | Lt => inject_Z f
  | Gt => inject_Z (f + 1)
  | Eq => if Z.even f then inject_Z f else inject_Z (f + 1)
  end.
(* x.limit_denominator(2) == x  <=>  the denominator in lowest terms is 1 or 2
   <=>  2x is an integer *)
Definition py_den_le2 (x : Q) : bool :=
  Z.eqb ((2 * Qnum x) mod (Zpos (Qden x))) 0.
Definition py_pow (b : Q) (e : Z) : Q := Qpower b e.       (* b ** e, e >= 0 *)
Definition py_gt (a b : Q) : bool := negb (Qle_bool a b).
Definition py_ge (a b : Q) : bool := Qle_bool b a.
Definition py_lt (a b : Q) : bool := negb (Qle_bool b a).
Definition py_le (a b : Q) : bool := Qle_bool a b.
Definition py_eq (a b : Q) : bool := Qeq_bool a b.
Definition py_max (a b : Q) : Q := if Qle_bool a b then b else a.
Definition py_min (a b : Q) : Q := if Qle_bool a b then a else b.
