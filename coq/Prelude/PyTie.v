(* The reading of the CPython primitives used by the code that tools/py2v.py (part 6) generates from
   votelib/evaluate/openlist.py ThresholdOpenList.evaluate / ListOrderTieBreaker.evaluate and votelib/evaluate/core.py
   Tie.any / Tie.break_by_list (Gen/OpenlistEval.v, Gen/TieBreak.v): list.index, list.sort / sorted with a key that may raise or
   return None, l[n:], and a dictionary keyed by frozensets.  Like Prelude/PyNum.v, PyList.v and PySeq.v this mapping is part
   of the trusted base; the Examples below pin every primitive on values computed with CPython 3.12.

   A frozenset (a Tie) is carried as the list of its members; two carriers are the same key when they have the same members. *)
From Coq Require Import ZArith QArith List Bool.
From VL Require Import Prelude.PyDict Prelude.PyList Prelude.PySeq.
Import ListNotations.

(* l.index(c): the position of the first item equal to c; None stands for ValueError *)
Fixpoint py_list_index (l : list C) (c : C) : option Z :=
  match l with
  | [] => None
  | x :: t => if ceqb c x then Some 0%Z else option_map Z.succ (py_list_index t c)
  end.

(* d.get as a function (one argument): the value or None *)
Definition py_dict_get {V : Type} (d : list (C * V)) (c : C) : option V := dget d c.

Fixpoint py_opt_all {A : Type} (l : list (option A)) : option (list A) :=
  match l with
  | [] => Some []
  | None :: _ => None
  | Some x :: t => option_map (cons x) (py_opt_all t)
  end.

(* l.sort(key=k, reverse=r) / sorted(l, key=k, reverse=r) with a key function that may RAISE (None here = the exception of the
   key function): CPython computes the keys of ALL items first, in order (also for a list of one item), then sorts the
   (key, item) pairs stably by key (Prelude/PySeq.v py_sorted) *)
Definition py_sort_optkey {A K : Type} (key : A -> option K) (kle : K -> K -> bool) (l : list A) (reverse : bool) : option (list A) :=
  match py_opt_all (map (fun x => option_map (fun k => (x, k)) (key x)) l) with
  | Some xs => Some (map fst (py_sorted (@snd A K) kle xs reverse))
  | None => None
  end.

(* the same with a key function that RETURNS None for some items (d.get of a missing key) and numbers for the others: comparing
   None with anything by < is a TypeError (None here), and every item of a list of two or more takes part in a comparison;
   a list of at most one item is never compared *)
Definition py_sort_nonekey {A K : Type} (key : A -> option K) (kle : K -> K -> bool) (l : list A) (reverse : bool) : option (list A) :=
  match py_sort_optkey key kle l reverse with
  | Some r => Some r
  | None => if (length l <=? 1)%nat then Some l else None
  end.

(* l[n:] : all but the first n items; for n < 0 the last -n *)
Definition py_slice_from {A : Type} (l : list A) (n : Z) : list A :=
  if (0 <=? n)%Z then skipn (Z.to_nat n) l else skipn (Z.to_nat (py_len l + n)) l.

(* frozenset equality on carriers *)
Definition py_set_eqb (a b : list C) : bool :=
  forallb (fun c => cmem c b) a && forallb (fun c => cmem c a) b.

(* a dictionary keyed by frozensets, in insertion order *)
Section TD.
  Context {V : Type}.
  Fixpoint py_tdict_get (d : list (list C * V)) (k : list C) : option V :=       (* d[k]; None = KeyError *)
    match d with
    | [] => None
    | (k', v) :: r => if py_set_eqb k' k then Some v else py_tdict_get r k
    end.
  Definition py_tdict_mem (d : list (list C * V)) (k : list C) : bool :=         (* k in d *)
    match py_tdict_get d k with Some _ => true | None => false end.
  Fixpoint py_tdict_set (d : list (list C * V)) (k : list C) (v : V) : list (list C * V) :=   (* d[k] = v *)
    match d with
    | [] => [(k, v)]
    | (k', v') :: r => if py_set_eqb k' k then (k', v) :: r else (k', v') :: py_tdict_set r k v
    end.
  Fixpoint py_tdict_del (d : list (list C * V)) (k : list C) : option (list (list C * V)) :=  (* del d[k]; None = KeyError *)
    match d with
    | [] => None
    | (k', v') :: r => if py_set_eqb k' k then Some r else option_map (cons (k', v')) (py_tdict_del r k)
    end.
End TD.

Example py_list_index_hit : py_list_index [7; 8; 9; 8]%positive 8%positive = Some 1%Z.        Proof. reflexivity. Qed.
Example py_list_index_miss : py_list_index [7; 8; 9]%positive 5%positive = None.              Proof. reflexivity. Qed.
(* x = [3, 1, 2]; x.sort(key=[2, 9, 1, 3].index) -> [2, 1, 3] *)
Example py_sort_by_index : py_sort_optkey (py_list_index [2; 9; 1; 3]%positive) Z.leb [3; 1; 2]%positive false = Some [2; 1; 3]%positive.
Proof. reflexivity. Qed.
(* [5].sort(key=[2, 9].index) -> ValueError (the key of a single item is computed too) *)
Example py_sort_by_index_one : py_sort_optkey (py_list_index [2; 9]%positive) Z.leb [5]%positive false = None.   Proof. reflexivity. Qed.
Example py_sort_by_index_miss : py_sort_optkey (py_list_index [2; 9; 1]%positive) Z.leb [1; 3; 2]%positive false = None.   Proof. reflexivity. Qed.
(* x = [1, 2, 3, 4]; x.sort(key={1: 5, 2: 7, 3: 5, 4: 7}.get, reverse=True) -> [2, 4, 1, 3] (stable) *)
Example py_sort_by_get : py_sort_nonekey (py_dict_get [(1, 5); (2, 7); (3, 5); (4, 7)]%positive) Pos.leb [1; 2; 3; 4]%positive true
                         = Some [2; 4; 1; 3]%positive.
Proof. reflexivity. Qed.
(* [1, 9].sort(key={1: 5}.get) -> TypeError ; [9].sort(key={1: 5}.get) -> [9] *)
Example py_sort_by_get_none : py_sort_nonekey (py_dict_get [(1, 5)]%positive) Pos.leb [1; 9]%positive true = None.   Proof. reflexivity. Qed.
Example py_sort_by_get_one : py_sort_nonekey (py_dict_get [(1, 5)]%positive) Pos.leb [9]%positive true = Some [9]%positive.   Proof. reflexivity. Qed.
Example py_slice_from_1 : py_slice_from [5; 6; 7]%Z 1 = [6; 7]%Z.        Proof. reflexivity. Qed.
Example py_slice_from_9 : py_slice_from [5; 6; 7]%Z 9 = [].              Proof. reflexivity. Qed.
Example py_slice_from_m1 : py_slice_from [5; 6; 7]%Z (-1) = [7]%Z.       Proof. reflexivity. Qed.
Example py_slice_from_m9 : py_slice_from [5; 6; 7]%Z (-9) = [5; 6; 7]%Z. Proof. reflexivity. Qed.
Example py_slice_from_nil : py_slice_from (@nil Z) 1 = [].               Proof. reflexivity. Qed.
Example py_set_eqb_perm : py_set_eqb [1; 2; 3]%positive [3; 1; 2]%positive = true.   Proof. reflexivity. Qed.
Example py_set_eqb_sub : py_set_eqb [1; 2]%positive [3; 1; 2]%positive = false.      Proof. reflexivity. Qed.
(* d = {frozenset({1, 2}): 'a'}; d[frozenset({2, 1})] = 'b'; d[frozenset({3})] = 'c'; del d[frozenset({1, 2})] *)
Example py_tdict_ops :
  let d := py_tdict_set (py_tdict_set [([1; 2]%positive, 10%Z)] [2; 1]%positive 20%Z) [3]%positive 30%Z in
  d = [([1; 2]%positive, 20%Z); ([3]%positive, 30%Z)] /\ py_tdict_get d [2; 1]%positive = Some 20%Z /\ py_tdict_mem d [4]%positive = false
  /\ py_tdict_del d [2; 1]%positive = Some [([3]%positive, 30%Z)] /\ py_tdict_del d [4]%positive = None.
Proof. repeat split. Qed.
