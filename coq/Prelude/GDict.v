(* Generic insertion-ordered dictionaries with rational values, keyed by wire
   values (sx) compared structurally - Python dict with defaultdict(int) += . *)
From Coq Require Import ZArith QArith List Bool.
From VL Require Import Prelude.Sx.
Import ListNotations.

Fixpoint sx_eqb (a b : sx) {struct a} : bool :=
  let fix list_eqb (l m : list sx) {struct l} : bool :=
      match l, m with
      | [], [] => true
      | x :: l', y :: m' => sx_eqb x y && list_eqb l' m'
      | _, _ => false
      end in
  match a, b with
  | A x, A y => Z.eqb x y
  | L l, L m => list_eqb l m
  | _, _ => false
  end.

Section G.
  Context {K : Type}.
  Variable keqb : K -> K -> bool.
  Fixpoint gget (d : list (K * Q)) (k : K) : Q :=
    match d with
    | [] => 0%Q
    | (k', v) :: t => if keqb k k' then v else gget t k
    end.
  (* d[k] += x *)
  Fixpoint gadd (d : list (K * Q)) (k : K) (x : Q) : list (K * Q) :=
    match d with
    | [] => [(k, x)]
    | (k', v) :: t => if keqb k k' then (k', (v + x)%Q) :: t else (k', v) :: gadd t k x
    end.
  (* d[k] = x *)
  Fixpoint gset (d : list (K * Q)) (k : K) (x : Q) : list (K * Q) :=
    match d with
    | [] => [(k, x)]
    | (k', v) :: t => if keqb k k' then (k', x) :: t else (k', v) :: gset t k x
    end.

  (* the accumulating converter shape: for every ballot (b, w) and every (key, coef) of its image,
     output[key] += coef * w *)
  Definition conv {B} (image : B -> list (K * Q)) (votes : list (B * Q)) : list (K * Q) :=
    fold_left (fun acc bw =>
      fold_left (fun acc kc => gadd acc (fst kc) (snd kc * snd bw)) (image (fst bw)) acc) votes [].
End G.
