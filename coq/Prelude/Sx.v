(* Generic wire values: nested lists of integers.  Every model unit decodes
   its arguments from [sx] and encodes its result to [sx]; the OCaml driver
   only parses/prints this type, so all decoding logic is Coq (extracted). *)
From Coq Require Import ZArith QArith List.
Import ListNotations.
Open Scope Z_scope.

Inductive sx : Type :=
| A (z : Z)
| L (l : list sx).

Definition as_Z (s : sx) : option Z := match s with A z => Some z | _ => None end.
Definition as_list (s : sx) : option (list sx) := match s with L l => Some l | _ => None end.
Definition as_pos (s : sx) : option positive :=
  match s with A (Zpos p) => Some p | _ => None end.
Definition as_nat (s : sx) : option nat :=
  match s with A z => if Z.leb 0 z then Some (Z.to_nat z) else None | _ => None end.
Definition as_bool (s : sx) : option bool :=
  match s with A 0 => Some false | A 1 => Some true | _ => None end.
(* rationals are (num den) with den > 0 ; a bare integer is accepted too *)
Definition as_Q (s : sx) : option Q :=
  match s with
  | A z => Some (z # 1)%Q
  | L [A n; A (Zpos d)] => Some (n # d)%Q
  | _ => None
  end.

Fixpoint opt_map {X Y} (f : X -> option Y) (l : list X) : option (list Y) :=
  match l with
  | [] => Some []
  | x :: t => match f x, opt_map f t with
              | Some y, Some ys => Some (y :: ys)
              | _, _ => None
              end
  end.

Definition as_listof {Y} (f : sx -> option Y) (s : sx) : option (list Y) :=
  match s with L l => opt_map f l | _ => None end.

Definition as_pair {X Y} (f : sx -> option X) (g : sx -> option Y) (s : sx) : option (X * Y) :=
  match s with
  | L [a; b] => match f a, g b with Some x, Some y => Some (x, y) | _, _ => None end
  | _ => None
  end.

(* dict in insertion order: list of (key value) *)
Definition as_dict {X Y} (f : sx -> option X) (g : sx -> option Y) (s : sx) : option (list (X * Y)) :=
  as_listof (as_pair f g) s.

Definition of_Q (q : Q) : sx :=
  let r := Qred q in
  match Qden r with
  | 1%positive => A (Qnum r)
  | d => L [A (Qnum r); A (Zpos d)]
  end.
Definition of_pos (p : positive) : sx := A (Zpos p).
Definition of_nat (n : nat) : sx := A (Z.of_nat n).
Definition of_bool (b : bool) : sx := A (if b then 1 else 0).
Definition of_list {X} (f : X -> sx) (l : list X) : sx := L (map f l).
Definition of_dict {X Y} (f : X -> sx) (g : Y -> sx) (l : list (X * Y)) : sx :=
  L (map (fun kv => L [f (fst kv); g (snd kv)]) l).

(* result envelope: (0 value) ok ; (1 code) refusal/crash with a small enum *)
Definition ok (v : sx) : sx := L [A 0; v].
Definition err (code : Z) : sx := L [A 1; A code].
Definition bad_input : sx := L [A 2].

(* error enum shared with harness/common.py *)
Definition E_VSE : Z := 1.      (* VotingSystemError *)
Definition E_NIE : Z := 2.      (* NotImplementedError *)
Definition E_VOTE : Z := 3.     (* VoteError *)
Definition E_CAND : Z := 4.     (* CandidateError *)
Definition E_PARSE : Z := 5.
Definition E_VALUE : Z := 6.    (* ValueError *)
Definition E_INDEX : Z := 7.    (* IndexError *)
Definition E_KEY : Z := 8.      (* KeyError *)
Definition E_TYPE : Z := 9.     (* TypeError *)
Definition E_OTHER : Z := 10.
Definition E_FUEL : Z := 99.    (* model ran out of fuel: never expected *)
