(* Insertion-ordered association lists keyed by candidate numbers (positive),
   standing for Python dicts. *)
From Coq Require Import ZArith QArith List Bool.
Import ListNotations.

Definition C := positive.
Definition ceqb : C -> C -> bool := Pos.eqb.

Section D.
  Context {X : Type}.
  Fixpoint dget (d : list (C * X)) (k : C) : option X :=
    match d with
    | [] => None
    | (k', v) :: t => if ceqb k k' then Some v else dget t k
    end.
  Definition dget_or (d : list (C * X)) (k : C) (dflt : X) : X :=
    match dget d k with Some v => v | None => dflt end.
  (* d[k] = v : update in place if present, else append (Python dict semantics) *)
  Fixpoint dset (d : list (C * X)) (k : C) (v : X) : list (C * X) :=
    match d with
    | [] => [(k, v)]
    | (k', v') :: t => if ceqb k k' then (k', v) :: t else (k', v') :: dset t k v
    end.
  Definition dmem (d : list (C * X)) (k : C) : bool :=
    match dget d k with Some _ => true | None => false end.
  Definition dkeys (d : list (C * X)) : list C := map fst d.
End D.

Definition incr_t (totals : list (C * Z)) (c : C) : list (C * Z) :=
  dset totals c (dget_or totals c 0 + 1)%Z.

Fixpoint cmem (k : C) (l : list C) : bool :=
  match l with [] => false | x :: t => ceqb k x || cmem k t end.

Definition zsum (l : list Z) : Z := fold_left Z.add l 0%Z.
Definition qsum (l : list Q) : Q := fold_left Qplus l 0%Q.
