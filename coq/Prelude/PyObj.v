(* The reading of the CPython operations that the VALIDATION code of votelib applies to arbitrary objects
   (vote.py validators, candidate.py nominators, convert.InvalidVoteEliminator), used by the code that part 6
   of tools/py2v.py generates (Gen/Validate.v).  Trusted base, like Prelude/PyList.v.

   Objects are the ballot grammar [pyobj] of Model/Validate.v (imported for the type only): a candidate of one
   of the kinds str / Person / PoliticalParty / Coalition / blank option, an exact number, None, a tuple, a
   frozenset (members in the order CPython iterates them: the harness hands them over in that order), a list.
   Every operation is DYNAMIC: it answers on every object, with the exception CPython raises where the object
   does not support it (len(None): TypeError ..).  The one thing the grammar cannot express - the characters
   of a str candidate (len / iteration / indexing of a str) - is the distinguished result [PyUnmodelled], which
   [res_kind] maps to no model result at all: a tie lemma cannot hold on a path that reaches it (fail closed). *)
From Coq Require Import ZArith QArith Qround List Bool.
From VL Require Import Model.Validate.
Import ListNotations.

Inductive pyvexn :=
| PyVoteError | PyVoteTypeError | PyVoteMagnitudeError | PyVoteValueError      (* vote.VoteError and its subclasses *)
| PyCandidateError
| PyTypeError | PyIndexError | PyValueError | PyAttributeError | PyKeyError
| PyUnmodelled.

(* a loop whose body may raise: the state after the last item, or the first exception *)
Fixpoint py_for {A S : Type} (l : list A) (f : S -> A -> S + pyvexn) (s : S) : S + pyvexn :=
  match l with
  | [] => inl s
  | x :: t => match f s x with inl s' => py_for t f s' | inr e => inr e end
  end.
(* a generator expression whose element expression may raise, consumed from the left *)
Fixpoint py_mapM {A B : Type} (f : A -> B + pyvexn) (l : list A) : list B + pyvexn :=
  match l with
  | [] => inl []
  | x :: t => match f x with
              | inl y => match py_mapM f t with inl r => inl (y :: r) | inr e => inr e end
              | inr e => inr e
              end
  end.

Definition py_int (z : Z) : pyobj := ONum z 1.
Definition py_num (q : Q) : pyobj := ONum (Qnum q) (Qden q).
Definition py_len_items {A : Type} (l : list A) : Z := Z.of_nat (length l).

(* hash(o): Model.Validate.hashable - lists are unhashable, a tuple is hashable when its items are; the members of a
   frozenset are hashable by construction *)
Definition py_hashable : pyobj -> bool := hashable.

(* len(o), iter(o), o[i], a, b = o *)
Definition py_len (o : pyobj) : Z + pyvexn :=
  match o with
  | OTuple l | OFrozen l | OList l => inl (py_len_items l)
  | OCand KStr _ => inr PyUnmodelled
  | _ => inr PyTypeError
  end.
Definition py_iter (o : pyobj) : list pyobj + pyvexn :=
  match o with
  | OTuple l | OFrozen l | OList l => inl l
  | OCand KStr _ => inr PyUnmodelled
  | _ => inr PyTypeError
  end.
Definition py_getitem (o : pyobj) (i : Z) : pyobj + pyvexn :=
  match o with
  | OTuple l | OList l =>
      let j := if (i <? 0)%Z then (i + py_len_items l)%Z else i in
      if (j <? 0)%Z then inr PyIndexError
      else match nth_error l (Z.to_nat j) with Some x => inl x | None => inr PyIndexError end
  | OCand KStr _ => inr PyUnmodelled
  | _ => inr PyTypeError
  end.
Definition py_unpack2 (o : pyobj) : (pyobj * pyobj) + pyvexn :=
  match o with
  | OTuple l | OFrozen l | OList l => match l with [a; b] => inl (a, b) | _ => inr PyValueError end
  | OCand KStr _ => inr PyUnmodelled
  | _ => inr PyTypeError
  end.
Definition py_enumerate (l : list pyobj) : list (Z * pyobj) := combine (map Z.of_nat (seq 0 (length l))) l.

(* sets under construction: members in insertion order (Model.Validate.add_set) *)
Definition py_set_add (s : list pyobj) (o : pyobj) : list pyobj + pyvexn :=
  if py_hashable o then inl (add_set o s) else inr PyTypeError.
Definition py_set_update (s : list pyobj) (o : pyobj) : list pyobj + pyvexn :=
  match o with
  | OFrozen l => inl (fold_left (fun s x => add_set x s) l s)
  | OTuple l | OList l => py_for l py_set_add s
  | OCand KStr _ => inr PyUnmodelled
  | _ => inr PyTypeError
  end.
Definition py_frozenset (l : list pyobj) : list pyobj + pyvexn := py_for l py_set_add [].
Definition py_in_list (x : pyobj) (l : list pyobj) : bool := existsb (obj_eqb x) l.

(* numbers: sum() starts from 0 and adds from the left; an object that is no number raises TypeError.
   Comparing with a bound: [None] as the bound raises TypeError like every comparison of a number with None *)
Definition py_add (a b : pyobj) : pyobj + pyvexn :=
  match num_of a, num_of b with Some x, Some y => inl (py_num (x + y)) | _, _ => inr PyTypeError end.
Definition py_sum (l : list pyobj) : pyobj + pyvexn := py_for l py_add (py_int 0).
Definition py_cmp (f : Q -> Q -> bool) (v : pyobj) (b : option Q) : bool + pyvexn :=
  match num_of v, b with Some x, Some y => inl (f x y) | _, _ => inr PyTypeError end.
Definition py_ge := py_cmp (fun x y => Qle_bool y x).
Definition py_le := py_cmp (fun x y => Qle_bool x y).
Definition py_gt := py_cmp (fun x y => negb (Qle_bool x y)).
Definition py_lt := py_cmp (fun x y => negb (Qle_bool y x)).
(* round(x, k) for k >= 0 (int.__round__ / Fraction.__round__): to the nearest multiple of 10^-k, a tie to the even one *)
Definition py_round (v : pyobj) (k : Z) : pyobj + pyvexn :=
  match num_of v with
  | None => inr PyTypeError
  | Some x =>
      let s := inject_Z (10 ^ k) in
      let y := Qmult x s in
      let fl := Qfloor y in
      let d := Qminus y (inject_Z fl) in
      let r := if Qle_bool d (1 # 2) then (if Qeq_bool d (1 # 2) then (if Z.even fl then fl else fl + 1) else fl) else fl + 1 in
      inl (py_num (Qred (Qdiv (inject_Z r) s)))
  end%Z.
Definition py_is_none {A : Type} (o : option A) : bool := match o with None => true | Some _ => false end.
Definition py_truthy_optnum (o : option Q) : bool := match o with None => false | Some q => negb (Qeq_bool q 0) end.

(* dict.get(key, default) over integer keys *)
Definition py_zget {V : Type} (d : list (Z * V)) (k : Z) (dflt : V) : V :=
  match find (fun e => Z.eqb (fst e) k) d with Some e => snd e | None => dflt end.
(* del d[k] for object keys *)
Fixpoint py_dict_del {V : Type} (d : list (pyobj * V)) (k : pyobj) : list (pyobj * V) + pyvexn :=
  match d with
  | [] => inr PyKeyError
  | (k', v) :: t => if obj_eqb k k' then inl t
                    else match py_dict_del t k with inl t' => inl ((k', v) :: t') | inr e => inr e end
  end.

(* person.candidacy_for in a boolean context *)
Definition py_candidacy_for_truthy (o : pyobj) : bool + pyvexn :=
  match o with OCand (KPerson hp) _ => inl hp | _ => inr PyAttributeError end.

(* what a result means to the model: acceptance, the two error kinds of the library, a TypeError crash.  Any other
   exception (and PyUnmodelled) corresponds to no model result *)
Definition exn_kind (e : pyvexn) : option vresult :=
  match e with
  | PyVoteError | PyVoteTypeError | PyVoteMagnitudeError | PyVoteValueError => Some VVoteError
  | PyCandidateError => Some VCandError
  | PyTypeError => Some VCrash
  | _ => None
  end.
Definition res_kind {A : Type} (r : A + pyvexn) : option vresult :=
  match r with inl _ => Some VOk | inr e => exn_kind e end.

(* pinned on CPython 3.12 *)
Example py_getitem_ex : py_getitem (OTuple [ONone; py_int 5]) 1 = inl (py_int 5)
  /\ py_getitem (OTuple [ONone]) 1 = inr PyIndexError /\ py_getitem ONone 0 = inr PyTypeError
  /\ py_getitem (OTuple [ONone; py_int 5]) (-1) = inl (py_int 5).
Proof. repeat split. Qed.
Example py_sum_ex : py_sum [ONum 1 2; ONum 1 2] = inl (ONum 4 4) /\ py_sum [py_int 1; ONone] = inr PyTypeError
  /\ py_sum [] = inl (py_int 0).
Proof. repeat split. Qed.
Example py_cmp_ex : py_ge (py_int 1) (Some 1%Q) = inl true /\ py_ge ONone (Some 1%Q) = inr PyTypeError
  /\ py_gt (py_int 1) (Some 1%Q) = inl false /\ py_le (py_int 1) None = inr PyTypeError.
Proof. repeat split. Qed.
Example py_round_ex : py_round (ONum 5 4) 1 = inl (ONum 6 5) /\ py_round (ONum 7 4) 1 = inl (ONum 9 5)      (* 1.25 -> 1.2, 1.75 -> 1.8 *)
  /\ py_round (ONum (-5) 4) 1 = inl (ONum (-6) 5) /\ py_round (py_int 3) 9 = inl (py_int 3)
  /\ py_round (ONum 1 3) 2 = inl (ONum 33 100) /\ py_round ONone 2 = inr PyTypeError.
Proof. repeat split. Qed.
Example py_set_ex : py_set_add [ONone] (OTuple [OList []]) = inr PyTypeError
  /\ py_set_add [ONone] ONone = inl [ONone] /\ py_frozenset [py_int 1; ONone; py_int 1] = inl [py_int 1; ONone].
Proof. repeat split. Qed.
