(* The reading of the CPython sequence primitives used by the code that tools/py2v.py generates from
   votelib/util.py sorted_votes and votelib/evaluate/core.py get_n_best (Gen/Core.v): sorted(), enumerate(),
   integer indexing of a list.  Like Prelude/PyNum.v and Prelude/PyList.v this mapping is part of the trusted
   base; the Examples below pin every primitive on values computed with CPython 3.12.

   sorted(l, key=k, reverse=r): list.sort is STABLE (items whose keys compare equal keep their input order) and
   only ever asks `<` between keys.  With reverse=True CPython reverses the list, sorts it ascending and reverses
   it again (Objects/listobject.c, "reverse ... to preserve stability"), so equal keys keep their input order in
   the descending result as well.  [py_sorted] is written exactly like that; it is NOT the insertion sort of
   Model/GetNBest.v - that the two agree is a theorem (Props/GenTie_Core.v), not a definition. *)
From Coq Require Import ZArith List Bool.
From VL Require Import Prelude.PyList.
Import ListNotations.

Section Sorted.
  Context {A K : Type}.
  Variable key : A -> K.
  Variable kle : K -> K -> bool.          (* a <= b on keys (for numbers: not (b < a)) *)

  (* one item is placed behind every already placed item it is not smaller than: x goes in front of the first y
     with key x < key y *)
  Fixpoint py_place (x : A) (placed : list A) : list A :=
    match placed with
    | [] => [x]
    | y :: t => if kle (key y) (key x) then y :: py_place x t else x :: y :: t
    end.
  (* stable ascending sort: the items are placed one after the other, in input order *)
  Definition py_sort_stable (l : list A) : list A := fold_left (fun placed x => py_place x placed) l [].
  Definition py_sorted (l : list A) (reverse : bool) : list A :=
    if reverse then rev (py_sort_stable (rev l)) else py_sort_stable l.
End Sorted.

(* enumerate(l): the items paired with their index from 0 *)
Definition py_enumerate {A : Type} (l : list A) : list (Z * A) := combine (py_range (py_len l)) l.

(* l[i] for an int i: a negative i counts from the end; None stands for IndexError *)
Definition py_index {A : Type} (l : list A) (i : Z) : option A :=
  if (0 <=? i)%Z then nth_error l (Z.to_nat i)
  else if (0 <=? py_len l + i)%Z then nth_error l (Z.to_nat (py_len l + i)) else None.

Example py_sorted_desc_stable :
  py_sorted (@snd Z Z) Z.leb [(1, 5); (2, 7); (3, 5); (4, 9); (5, 7)]%Z true = [(4, 9); (2, 7); (5, 7); (1, 5); (3, 5)]%Z.
Proof. reflexivity. Qed.
Example py_sorted_asc_stable :
  py_sorted (@snd Z Z) Z.leb [(1, 5); (2, 7); (3, 5); (4, 9); (5, 7)]%Z false = [(1, 5); (3, 5); (2, 7); (5, 7); (4, 9)]%Z.
Proof. reflexivity. Qed.
Example py_sorted_empty : py_sorted (@snd Z Z) Z.leb [] true = [].   Proof. reflexivity. Qed.
Example py_enumerate_3 : py_enumerate [7; 8; 9]%Z = [(0, 7); (1, 8); (2, 9)]%Z.   Proof. reflexivity. Qed.
Example py_index_0 : py_index [7; 8; 9]%Z 0 = Some 7%Z.        Proof. reflexivity. Qed.
Example py_index_2 : py_index [7; 8; 9]%Z 2 = Some 9%Z.        Proof. reflexivity. Qed.
Example py_index_3 : py_index [7; 8; 9]%Z 3 = None.            Proof. reflexivity. Qed.
Example py_index_m1 : py_index [7; 8; 9]%Z (-1) = Some 9%Z.    Proof. reflexivity. Qed.
Example py_index_m3 : py_index [7; 8; 9]%Z (-3) = Some 7%Z.    Proof. reflexivity. Qed.
Example py_index_m4 : py_index [7; 8; 9]%Z (-4) = None.        Proof. reflexivity. Qed.
Example py_index_nil : py_index (@nil Z) (-1) = None.          Proof. reflexivity. Qed.
