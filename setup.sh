#!/bin/bash
# One-time setup after a fresh restore (offline): full clean build of the Coq
# development, extraction, OCaml driver.  Exit 0 iff everything (proofs included) built.
cd "$(dirname "$0")"
rm -f coq/Makefile coq/Makefile.conf ocaml/driver
find coq -name '*.vo' -o -name '*.glob' -o -name '*.vok' -o -name '*.vos' -o -name '.*.aux' | xargs -r rm -f
./build.sh
rc=$?
tail -3 coq/build.log
exit $rc
